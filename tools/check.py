#!/usr/bin/env python3
"""check: decide one property. Usage: check.py <ID> [--tier quick|thorough]
exit 0 = every registered obligation discharged (known findings printed as KNOWN-FINDING lines)
exit 1 = VIOLATION property=<ID> replay=<path>
exit 2 = UNDECIDED (anchor lost, unsupported construct, rlimit/timeout, tool crash) — never an alarm
"""
import concurrent.futures as cf
import json
import os
import re
import sys
import time

HERE = os.path.dirname(os.path.abspath(__file__))
sys.path.insert(0, HERE)
import vf  # noqa: E402
import props  # noqa: E402

VERIF = vf.VERIF


def load_known():
    out = []
    p = os.path.join(VERIF, "KNOWN_FINDINGS.txt")
    if not os.path.exists(p):
        return out
    for ln in open(p):
        ln = ln.strip()
        if not ln.startswith("finding:"):
            continue
        m = re.match(r"finding:\s+property=(\S+)\s+id=(\S+)\s+match=/(.*?)/\s+--\s+(.*)$", ln)
        if m:
            out.append({"property": m.group(1), "id": m.group(2), "rx": re.compile(m.group(3)), "desc": m.group(4)})
    return out


def main():
    args = sys.argv[1:]
    pid = args[0]
    tier = os.environ.get("VERIF_TIER", "quick")
    if "--tier" in args:
        tier = args[args.index("--tier") + 1]
    seed = int(os.environ.get("VERIF_SEED", "0") or 0)
    P = props.PROPS[pid]
    t0 = time.time()
    verus_units = [u for u in P.get("verus", []) if tier == "thorough" or u.get("tier", "quick") == "quick"]
    kani_h = [h for h in P.get("kani", []) if tier == "thorough" or h.get("tier", "quick") == "quick"]
    syntactic = [s for s in P.get("syntactic", [])]

    results_v = []
    results_k = {}
    kmeta = []
    with cf.ThreadPoolExecutor(max_workers=12) as ex:
        futs = {}
        for u in verus_units:
            futs[ex.submit(vf.verus_with_retry, u["unit"], u.get("rlimit", 200))] = ("v", u)
            futs[ex.submit(vf.run_verus_unit, u["unit"], u.get("rlimit", 200), True)] = ("p", u)
        # kani groups keyed by (package, flags)
        groups = {}
        for h in kani_h:
            key = (h.get("package"), tuple(h.get("flags", [])))
            groups.setdefault(key, []).append(h)
        for key, hs in groups.items():
            to = max(h.get("timeout", 300) for h in hs) * (5 if tier == "thorough" else 1)
            futs[ex.submit(vf.run_kani, [h["name"] for h in hs], key[0], list(key[1]), to, 8)] = ("k", hs)
        for f in cf.as_completed(futs):
            kind, obj = futs[f]
            r = f.result()
            if kind == "v":
                results_v.append(("main", obj, r))
            elif kind == "p":
                results_v.append(("probe", obj, r))
            else:
                res, meta = r
                results_k.update(res)
                kmeta.append(meta)

    known = [k for k in load_known() if k["property"] == pid]
    violations = []   # dict(key, text)
    undecided = []
    obligations = 0
    discharged = 0
    bounded = []
    samples = []
    functions_under_contract = []
    items = []
    trusted = list(P.get("trusted_base", []))
    solver_s = 0.0
    backends = {}
    cbmc_checks = 0
    probes_expected = probes_failed = 0

    for (kind, u, r) in results_v:
        if kind == "main":
            if r["status"] == "undecided":
                undecided.append(f"verus:{u['unit']}: {r.get('reason')}")
                if r.get("stderr_tail"):
                    sys.stderr.write(r["stderr_tail"][-3000:] + "\n")
                continue
            items += r.get("items", [])
            solver_s += r.get("smt_s", 0)
            fns = [f for f in r.get("functions", []) if f["mode"] in ("exec", "proof")]
            failed_fns = set(e["function"] for e in r.get("errors", []) if e["kind"] == "semantic")
            for f in fns:
                obligations += 1
                short = f["function"].split("::")[-1]
                if f["ok"] and short not in failed_fns:
                    discharged += 1
                if f["mode"] == "exec":
                    functions_under_contract.append(f"{u['unit']}::{f['function']}")
            backends["verus/z3"] = backends.get("verus/z3", 0) + len(fns)
            samples += [f"verus:{u['unit']}:{f['function']}" for f in fns[:3]]
            for e in r.get("errors", []):
                if e["kind"] != "semantic":
                    continue
                key = f"verus:{u['unit']}:{e['function']}:{e['msg']}:{e['clause']}"
                violations.append({"key": key, "backend": "verus", "unit": u["unit"], "function": e["function"],
                                   "obligation": e["msg"] + " — " + e["clause"], "output": e["raw"], "replay": None})
        else:
            if r["status"] == "undecided" and not r.get("errors"):
                undecided.append(f"verus-probe:{u['unit']}: {r.get('reason')}")
                continue
            # count probes in the emitted twin: each must fail
            exp = sum(1 for _ in r.get("rewrites", []))  # not used
            nprobe = r.get("nprobes")
            pf = sum(1 for e in r.get("errors", []) if e.get("probe") and e["msg"].startswith("assertion failed"))
            probes_failed += pf
            r["_pf"] = pf

    # expected probe count: number of probes actually emitted into each twin unit
    for (kind, u, r) in results_v:
        if kind == "probe":
            probes_expected += r.get("nprobes", 0)
    vacuity_ok = True
    if verus_units and not any(x.startswith("verus-probe") for x in undecided):
        if probes_failed < probes_expected:
            vacuity_ok = False
            undecided.append(f"vacuity guard: only {probes_failed} of {probes_expected} reachability probes failed "
                             f"(a contradictory requires/invariant makes the proof vacuous)")

    covers = covers_sat = 0
    for h in kani_h:
        r = results_k.get(h["name"], {"status": "undecided", "reason": "not run"})
        is_bounded = h.get("kind", "complete").startswith("bounded")
        if r["status"] == "undecided":
            undecided.append(f"kani:{h['name']}: {r.get('reason')}")
            if r.get("raw_tail"):
                sys.stderr.write(r["raw_tail"][-2500:] + "\n")
            continue
        solver_s += r.get("solver_s", 0)
        cbmc_checks += r.get("checks", 0)
        covers += r.get("covers", 0)
        covers_sat += r.get("covers_sat", 0)
        if r.get("covers", 0) != r.get("covers_sat", 0):
            undecided.append(f"kani:{h['name']}: vacuity guard: {r.get('covers_sat')} of {r.get('covers')} cover points satisfied")
        if is_bounded:
            bounded.append({"harness": h["name"], "bound": h.get("kind"), "status": r["status"], "checks": r.get("checks"),
                            "what": h.get("desc", "")})
        else:
            obligations += 1
            backends["kani/cbmc"] = backends.get("kani/cbmc", 0) + 1
            if r["status"] == "ok":
                discharged += 1
            samples.append(f"kani:{h['name']}: {h.get('desc','')}"[:200])
        for fn in h.get("functions", []):
            functions_under_contract.append(("bounded:" if is_bounded else "") + fn)
        if r["status"] == "fail":
            # one failing harness can list hundreds of failed CBMC checks (code that only becomes reachable once the
            # contract is broken): report the harness's own assertions first and at most five checks per harness
            fls = [fl for fl in (r.get("fails", []) or [{"desc": "verification failed"}]) if "unwinding assertion" not in fl["desc"]]
            fls.sort(key=lambda fl: 0 if "assertion failed" in fl["desc"] else 1)
            for fl in (fls[:5] or [{"desc": "verification failed"}]):
                key = f"kani:{h['name']}:{fl.get('in','')}:{fl['desc']}"
                more = f" (+{len(fls) - 5} further failed checks in this harness)" if len(fls) > 5 and fl is fls[4] else ""
                violations.append({"key": key, "backend": "kani", "harness": h, "function": fl.get("in", ""),
                                   "obligation": fl["desc"] + more, "output": r.get("raw_tail", ""), "replay": None})

    # syntactic frame checks (reported as syntactic, counted separately)
    synt = []
    for s in syntactic:
        out = s["fn"](vf.REPO)
        if isinstance(out, list):   # one violation per listed item
            synt.append({"name": s["name"], "ok": not out, "detail": "; ".join(out) if out else "none"})
            for item in out:
                violations.append({"key": f"syntactic:{s['name']}:{item}", "backend": "syntactic", "function": s["name"],
                                   "obligation": s["name"], "output": item, "replay": None})
        else:
            ok, detail = out
            synt.append({"name": s["name"], "ok": ok, "detail": detail})
            if not ok:
                violations.append({"key": f"syntactic:{s['name']}:{detail}", "backend": "syntactic", "function": s["name"],
                                   "obligation": s["name"], "output": detail, "replay": None})

    # known findings
    new_viol = []
    printed = set()
    for v in violations:
        hit = [k for k in known if k["rx"].search(v["key"])]
        if hit:
            if hit[0]["id"] not in printed:
                print(f"KNOWN-FINDING: property={pid} {hit[0]['id']} {hit[0]['desc']}")
                printed.add(hit[0]["id"])
        else:
            new_viol.append(v)

    # obligations that fail ONLY because of a listed known finding are not claimed as proved: they are taken out of
    # the obligations/discharged count and listed separately (a proof-level record must have discharged == obligations)
    kf_units = set()
    for v in violations:
        if v not in new_viol and v["backend"] in ("kani", "verus"):
            kf_units.add((v["backend"], v.get("unit") or v["harness"]["name"], v["function"]))
    known_obls = sorted(f"{b}:{u}:{f}" for (b, u, f) in kf_units)
    obligations -= len(kf_units)

    # bounded stand-in of last resort: a unit that left the verifier's reach (anchor lost, rewritten outside the Verus
    # subset) leaves the property UNDECIDED; the native witness family is then run on the current tree, and an input it
    # finds is reported as a violation (with that input as replay). It is never counted as proof and never runs when
    # the verifier has decided.
    fallback_note = None
    if undecided and not new_viol and any(u.startswith("verus") for u in undecided) and os.environ.get("VERIF_NO_WITNESS") != "1":
        try:
            w = vf.witness_search(pid)
        except Exception:  # noqa
            w = None
        if w:
            new_viol.append({"key": f"witness:{pid}", "backend": "witness", "function": "(public entry points)",
                             "obligation": "verifier UNDECIDED (" + "; ".join(undecided)[:300] + "); bounded stand-in: native witness family",
                             "output": w, "replay": None, "_witness": w})
            fallback_note = "verifier undecided; violation found by the bounded native witness family"

    # replay files
    rdir = os.path.join(VERIF, ".work", "replay") if not os.environ.get("VERIF_EVIDENCE_DIR") else os.path.join(os.environ["VERIF_EVIDENCE_DIR"], "replay")
    os.makedirs(rdir, exist_ok=True)
    vio_lines = []
    for i, v in enumerate(new_viol):
        path = os.path.join(rdir, f"{pid}-{i}.txt")
        witness = None
        if v["backend"] == "kani" and tier is not None and sum(1 for u in new_viol[:i] if u["backend"] == "kani") >= 2:
            # concrete playback rebuilds the crate per harness: replay the first two Kani violations natively, the
            # others keep the verifier's trace only
            v["output"] = "(native playback skipped: two Kani counterexamples of this run were already replayed)\n" + v["output"]
        elif v["backend"] == "kani" and tier is not None:
            try:
                pb = vf.kani_playback(v["harness"]["name"], v["harness"].get("package"), v["harness"].get("flags"))
                witness = pb.get("test") if pb.get("replayed") else None
                if pb.get("test") and not pb.get("replayed"):
                    v["output"] = pb["test"] + "\n" + v["output"]
            except Exception as e:  # noqa
                witness = None
        if v["backend"] == "witness":
            witness = v["_witness"]
        if v["backend"] == "verus":
            if "_verus_witness" not in locals():
                try:
                    _verus_witness = vf.witness_search(pid)
                except Exception as e:  # noqa
                    _verus_witness = None
            witness = _verus_witness
        with open(path, "w") as fh:
            fh.write(f"property: {pid}\nbackend: {v['backend']}\nfunction: {v['function']}\nfailed obligation: {v['obligation']}\n"
                     f"key: {v['key']}\n\n")
            if witness:
                fh.write("---- counterexample (replayable against the real code) ----\n" + witness + "\n\n")
            else:
                fh.write("---- no-failing-input-found: the verifier gave no model / witness search found no input ----\n\n")
            fh.write("---- verifier output ----\n" + v["output"] + "\n")
        suffix = "" if witness else " no-failing-input-found"
        vio_lines.append(f"VIOLATION property={pid} replay={path}{suffix}")

    # thorough tier: self-test against the confirmed seeded changes of this property (exit code unaffected)
    selftest = []
    if tier == "thorough" and not new_viol and not undecided and os.environ.get("VERIF_NO_SELFTEST") != "1":
        import glob, shutil, subprocess
        for mp in sorted(glob.glob(os.path.join(VERIF, "seeded", "*", "meta.json"))):
            try:
                meta = json.load(open(mp))
            except Exception:
                continue
            if meta.get("property") != pid:
                continue
            sd = os.path.dirname(mp)
            scratch = os.path.join("/var/tmp", "sonic-verif-selftest-" + pid)
            shutil.rmtree(scratch, ignore_errors=True)
            subprocess.run(["rsync", "-a", "--exclude", "target", "--exclude", ".git", vf.REPO.rstrip("/") + "/", scratch + "/"], check=False)
            ap = subprocess.run(["git", "apply", "--unsafe-paths", "--directory", scratch, os.path.join(sd, "patch.diff")],
                                cwd="/", capture_output=True, text=True)
            if ap.returncode != 0:
                ap = subprocess.run(["patch", "-p1", "-d", scratch, "-i", os.path.join(sd, "patch.diff")], capture_output=True, text=True)
            if ap.returncode != 0:
                selftest.append({"seed": os.path.basename(sd), "result": "patch does not apply to the current tree"})
                shutil.rmtree(scratch, ignore_errors=True)
                continue
            env = dict(os.environ, VERIF_REPO=scratch, VERIF_WORK="/var/tmp/sonic-verif-selftest-work", VERIF_NO_SELFTEST="1",
                       VERIF_EVIDENCE_DIR="/var/tmp/sonic-verif-selftest-work/evidence")
            pr = subprocess.run([sys.executable, os.path.abspath(__file__), pid, "--tier", "quick"], env=env, capture_output=True, text=True)
            selftest.append({"seed": os.path.basename(sd), "exit": pr.returncode, "detected": pr.returncode == 1,
                             "summary": meta.get("summary", "")[:200]})
            shutil.rmtree(scratch, ignore_errors=True)
        shutil.rmtree("/var/tmp/sonic-verif-selftest-work", ignore_errors=True)

    wall = round(time.time() - t0, 2)
    ev = {
        "property_id": pid, "tier": tier, "seed": seed, "level": P.get("level", "proof"),
        "coverage": {
            "obligations": obligations, "discharged": discharged,
            "checker_cmd": "; ".join(sorted(set([f"verus <unit>.rs --triggers-mode silent --rlimit N" for _ in verus_units] +
                                               [m.get("cmd", "")[:400] for m in kmeta]))) or "none",
            "trusted_base": trusted,
            "samples": samples[:12] or ["(none)"],
            "functions_under_contract": sorted(set(functions_under_contract)),
            "backends": backends, "solver_s": round(solver_s, 2), "cbmc_checks": cbmc_checks,
            "bounded_standins_not_counted": bounded,
            "vacuity": {"verus_probes_expected": probes_expected, "verus_probes_failed_as_required": probes_failed,
                        "kani_covers": covers, "kani_covers_satisfied": covers_sat},
            "syntactic_checks": synt,
            "extracted_items": items,
            "undecided": undecided,
            "selftest_seeded_changes": selftest,
            "known_findings_hit": sorted(printed),
            "known_finding_obligations_not_counted": known_obls,
            "explanation": P.get("explanation", ""),
        },
        "assumptions": trusted,
        "wall_s": wall,
        "violations": len(new_viol),
    }
    evdir = os.environ.get("VERIF_EVIDENCE_DIR") or os.path.join(VERIF, "evidence")
    os.makedirs(evdir, exist_ok=True)
    json.dump(ev, open(os.path.join(evdir, pid + ".json"), "w"), indent=1)

    print(f"[{pid}] tier={tier} obligations={obligations} discharged={discharged} bounded={len(bounded)} "
          f"violations={len(new_viol)} undecided={len(undecided)} wall={wall}s")
    for l in vio_lines:
        print(l)
    if new_viol:
        sys.exit(1)
    if undecided:
        for u in undecided:
            print("UNDECIDED", u)
        sys.exit(2)
    sys.exit(0)


if __name__ == "__main__":
    main()
