#!/bin/sh
# run every claimed check (quick tier unless $1 given) sequentially; print one line each
cd "$(dirname "$0")/.."
tier=${1:-quick}
for id in $(python3 -c "import json;print(' '.join(c['property_id'] for c in json.load(open('MANIFEST.json'))['checks']))"); do
  ./check $id --tier $tier 2>/dev/null | grep -v "^$" | tail -3
  echo "  -> exit $?"
done
