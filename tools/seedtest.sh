#!/bin/sh
# usage: tools/seedtest.sh <patch.diff> <ID> [<ID>...]  — apply a seeded change to /repo, run the checks, undo
p=$1; shift
cd /repo || exit 9
git diff --quiet || { echo "/repo has uncommitted changes"; exit 9; }
git apply "$p" || { echo "patch does not apply"; exit 9; }
for id in "$@"; do
  (cd /verif && VERIF_EVIDENCE_DIR=/verif/.work/seed-evidence ./check $id --tier quick > /verif/.work/seed_$id.out 2>/dev/null; rc=$?; grep -v "^KNOWN-FINDING" /verif/.work/seed_$id.out | tail -4; echo "  -> $id exit $rc")
done
git -C /repo checkout -- .
git -C /repo status --short | head -3
