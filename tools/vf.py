#!/usr/bin/env python3
"""vf: verification framework core — builds units from /repo, runs Verus / Kani, classifies
obligations, writes evidence. See DESIGN.md §2, §4."""
import concurrent.futures as cf
import fcntl
import hashlib
import json
import os
import re
import shutil
import subprocess
import sys
import time

HERE = os.path.dirname(os.path.abspath(__file__))
VERIF = os.path.dirname(HERE)
sys.path.insert(0, HERE)
import rsx  # noqa: E402

REPO = os.environ.get("VERIF_REPO", "/repo")
WORK = os.environ.get("VERIF_WORK", "/var/tmp/sonic-verif")
ENV = dict(os.environ, CARGO_NET_OFFLINE="true")


def sh(cmd, cwd=None, timeout=None, env=None):
    """run a command in its own process group; on timeout the whole group is killed (a killed verus otherwise leaves
    its z3 child running, a killed cargo-kani its cbmc)"""
    import signal
    t0 = time.time()
    p = subprocess.Popen(cmd, cwd=cwd, env=env or ENV, stdout=subprocess.PIPE, stderr=subprocess.PIPE, text=True,
                         errors="replace", start_new_session=True)
    try:
        out, err = p.communicate(timeout=timeout)
        return p.returncode, out, err, time.time() - t0
    except subprocess.TimeoutExpired:
        try:
            os.killpg(p.pid, signal.SIGKILL)
        except Exception:
            p.kill()
        try:
            out, err = p.communicate(timeout=30)
        except Exception:
            out, err = "", ""
        return -9, out or "", err or "", time.time() - t0


# ------------------------------------------------------------------------------------------------
# Verus
# ------------------------------------------------------------------------------------------------
SEMANTIC = [
    "postcondition not satisfied", "precondition not satisfied", "invariant not satisfied",
    "assertion failed", "possible arithmetic underflow/overflow", "possible division by zero",
    "decreases not satisfied", "possible bit shift underflow/overflow", "unreachable", "recommendation not met",
    "possible overflow", "failed precondition", "loop invariant", "might not terminate", "may not terminate",
    "index out of bounds", "constructed value may fail to meet its declared type invariant",
]
RESOURCE = ["Resource limit (rlimit) exceeded", "rlimit", "timed out", "solver terminated"]


def _func_table(text):
    """line ranges of `fn name` items in emitted unit (coarse: fn keyword line .. next fn line)."""
    tab = []
    for i, ln in enumerate(text.split("\n"), 1):
        # insertions dropped, declared substitutions kept as emitted (a macro arm's `fn $method` is named by one)
        shown = rsx._strip_sub.sub(lambda mm: mm.group(0).split("*/", 1)[1].rsplit("/*@s*/", 1)[0], rsx._strip_ins.sub("", ln))
        m = re.search(r"\bfn\s+([A-Za-z_][A-Za-z0-9_]*)", shown)
        if m and not ln.lstrip().startswith("//"):
            tab.append((i, m.group(1)))
    return tab


def _func_at(tab, line):
    name = None
    for (l, n) in tab:
        if l <= line:
            name = n
        else:
            break
    return name


def parse_verus_errors(stderr, unit_file, text):
    tab = _func_table(text)
    lines = text.split("\n")
    blocks = re.split(r"\n(?=error(?:\[[^\]]*\])?: )", "\n" + stderr)
    errs = []
    for b in blocks:
        b = b.strip("\n")
        if not b.startswith("error"):
            continue
        first = b.split("\n", 1)[0]
        msg = re.sub(r"^error(\[[^\]]*\])?: ", "", first)
        if msg.startswith("aborting due to"):
            continue
        spans = [int(m.group(1)) for m in re.finditer(re.escape(os.path.basename(unit_file)) + r":(\d+):\d+", b)]
        # labelled source lines, e.g. "failed this postcondition"
        clause_line = None
        for m in re.finditer(r"^\s*(\d+)\s*\|(.*)\n\s*\|\s*([\^\-]+)\s*(.*)$", b, re.M):
            label = m.group(4)
            if "failed this" in label or "failed precondition" in label or clause_line is None:
                clause_line = int(m.group(1))
                if "failed this" in label:
                    break
        # multi-line clause: `NNN | /  first line` ... `    | |____^ failed this postcondition`
        bl = b.split("\n")
        for k, ln in enumerate(bl):
            if re.match(r"^\s*\|\s*\|_+\^ failed (this|precondition)", ln):
                j = k - 1
                while j >= 0 and not re.match(r"^\s*\d+\s*\|\s*/", bl[j]):
                    j -= 1
                if j >= 0:
                    clause_line = int(re.match(r"^\s*(\d+)", bl[j]).group(1))
                break
        primary = spans[0] if spans else None
        fn = _func_at(tab, primary) if primary else None
        clause_txt = ""
        cl = clause_line or primary
        if cl and 1 <= cl <= len(lines):
            clause_txt = re.sub(r"\s+", " ", rsx.strip_markers(lines[cl - 1].replace(rsx.MARK_L, "").replace(rsx.MARK_R, ""))).strip()
        kind = "semantic" if any(s in msg for s in SEMANTIC) else ("resource" if any(s in msg or s in b for s in RESOURCE) else "tool")
        errs.append({"msg": msg, "function": fn, "line": primary, "clause": clause_txt[:300], "kind": kind,
                     "probe": "/*probe*/" in (lines[primary - 1] if primary and primary <= len(lines) else ""),
                     "raw": b[:3000]})
    return errs


def run_verus_unit(unit, rlimit=200, probe=False, repo=None, extra=None, timeout=1500):
    """Build units/<unit>.vt.rs from repo and run Verus. Returns dict."""
    repo = repo or REPO
    os.makedirs(WORK, exist_ok=True)
    wd = os.path.join(WORK, "verus")
    os.makedirs(wd, exist_ok=True)
    res = {"unit": unit, "probe": probe, "backend": "verus/z3", "rlimit": rlimit}
    t0 = time.time()
    try:
        text, man = rsx.build_unit(os.path.join(VERIF, "units", unit + ".vt.rs"), repo, VERIF, probe)
    except rsx.AnchorLost as e:
        res.update(status="undecided", reason=f"anchor-lost: {e}", wall_s=time.time() - t0)
        return res
    tag = f"{unit}{'_probe' if probe else ''}_{os.getpid()}"
    f = os.path.join(wd, tag + ".rs")
    open(f, "w").write(text)
    # round-trip guard over the whole emitted file was done per item in splice_fn; record items
    res["items"] = man["items"]
    res["nprobes"] = text.count("/*probe*/")
    res["rewrites"] = man["log"]
    cmd = ["verus", f, "--triggers-mode", "silent", "--rlimit", str(rlimit), "--output-json", "--time",
           "--multiple-errors", "40" if probe else "4"] + (extra or [])
    rc, out, err, dt = sh(cmd, cwd=wd, timeout=timeout)
    res["cmd"] = " ".join(cmd[:1] + ["<unit>.rs"] + cmd[2:])
    res["wall_s"] = round(time.time() - t0, 2)
    try:
        js = json.loads(out)
    except Exception:
        js = None
    for junk in (f, os.path.join(wd, tag)):
        try:
            os.remove(junk)
        except OSError:
            pass
    if rc == -9:
        res.update(status="undecided", reason="verus timeout")
        return res
    errs = parse_verus_errors(err, f, text)
    res["errors"] = errs
    funcs = []
    smt_ms = 0
    if js:
        vr = js.get("verification-results", {})
        res["verified"] = vr.get("verified", 0)
        res["failed"] = vr.get("errors", 0)
        for m in js.get("times-ms", {}).get("smt", {}).get("smt-run-module-times", []):
            smt_ms += m.get("time", 0)
            for fb in m.get("function-breakdown", []):
                funcs.append({"function": fb["function"].split("::", 1)[-1], "mode": fb.get("mode:"), "ms": fb.get("time"),
                              "ok": fb.get("success")})
    res["functions"] = funcs
    res["smt_s"] = round(smt_ms / 1000.0, 2)
    if js is None or (js.get("verification-results", {}).get("encountered-vir-error")) or \
            (rc != 0 and not errs) or any(e["kind"] == "tool" for e in errs):
        res.update(status="undecided", reason="verus tool/compile error (unsupported construct or spec no longer type-checks)",
                   stderr_tail=err[-4000:])
        return res
    if any(e["kind"] == "resource" for e in errs) and not any(e["kind"] == "semantic" for e in errs):
        res.update(status="undecided", reason="rlimit exceeded")
        return res
    if rc == 0 and not errs:
        res["status"] = "ok"
    else:
        res["status"] = "fail"
    return res


def verus_with_retry(unit, rlimit, repo=None):
    """A proof found on any attempt is a proof; a failure is only reported after a second attempt with a
    different solver seed and a larger resource limit (SMT instability must not become a false alarm)."""
    r = run_verus_unit(unit, rlimit, False, repo)
    if r["status"] == "ok":
        return r
    if r["status"] == "undecided" and r.get("reason") != "rlimit exceeded":
        return r
    # the second attempt gets a generous but finite wall budget: a semantic failure usually shows at once, and a
    # mutated loop body can keep Z3 busy for a long time at 4x rlimit
    budget = max(180, int(4 * r.get("wall_s", 30)))
    r2 = run_verus_unit(unit, rlimit * 4, False, repo, extra=["--smt-option", "smt.random_seed=17"], timeout=budget)
    if r2["status"] == "undecided" and r2.get("reason") == "verus timeout" and r["status"] == "fail":
        r["retried"] = True
        r["retry_note"] = f"second attempt (4x rlimit, other seed) did not finish within {budget}s; first verdict kept"
        return r
    r2["retried"] = True
    r2["first_attempt"] = {"status": r["status"], "errors": [e["msg"] + " | " + e["clause"] for e in r.get("errors", [])][:5]}
    return r2


# ------------------------------------------------------------------------------------------------
# Kani
# ------------------------------------------------------------------------------------------------
def tree_hash(repo):
    h = hashlib.sha256()
    roots = ["src", "sonic-number", "sonic-simd", "Cargo.toml", "Cargo.lock"]
    files = []
    for r in roots:
        p = os.path.join(repo, r)
        if os.path.isfile(p):
            files.append(p)
        else:
            for d, dn, fn in os.walk(p):
                dn[:] = [x for x in dn if x != "target"]
                for x in fn:
                    files.append(os.path.join(d, x))
    kdir = os.path.join(VERIF, "kani")
    for d, dn, fn in os.walk(kdir):
        for x in fn:
            files.append(os.path.join(d, x))
    for f in sorted(files):
        h.update(f.encode())
        h.update(open(f, "rb").read())
    return h.hexdigest()[:16]


def kani_modules():
    """kani/*.rs: first line `//@append <file>`; body appended to that file in the scratch copy."""
    mods = []
    kdir = os.path.join(VERIF, "kani")
    for x in sorted(os.listdir(kdir)):
        if not x.endswith(".rs"):
            continue
        txt = open(os.path.join(kdir, x)).read()
        m = re.match(r"//@append\s+(\S+)\n", txt)
        if not m:
            continue
        mods.append((x, m.group(1), txt))
    return mods


def kani_prepare(repo=None):
    """rsync the working tree to a scratch dir keyed by content hash, append harness modules."""
    repo = repo or REPO
    os.makedirs(WORK, exist_ok=True)
    hh = tree_hash(repo)
    sc = os.path.join(WORK, "kani-" + hh)
    lock = open(os.path.join(WORK, ".lock"), "w")
    fcntl.flock(lock, fcntl.LOCK_EX)
    try:
        # drop stale scratch copies (disk is limited)
        stale = []
        for x in os.listdir(WORK):
            if x.startswith("kani-") and not x.endswith(".inuse") and x != "kani-" + hh:
                # never touch a scratch copy that a concurrent check is still using
                try:
                    lf = open(os.path.join(WORK, x + ".inuse"), "w")
                    fcntl.flock(lf, fcntl.LOCK_EX | fcntl.LOCK_NB)
                    fcntl.flock(lf, fcntl.LOCK_UN)
                    lf.close()
                    stale.append(x)
                except OSError:
                    pass
        fresh = not os.path.exists(os.path.join(sc, ".prepared"))
        if fresh:
            shutil.rmtree(sc, ignore_errors=True)
            os.makedirs(sc)
            # keep the compiled dependencies of a stale scratch copy (same Cargo.lock): cargo decides
            # by fingerprint what to rebuild, so this only saves time
            for x in stale:
                t = os.path.join(WORK, x, "target")
                if os.path.isdir(t) and not os.path.exists(os.path.join(sc, "target")):
                    os.rename(t, os.path.join(sc, "target"))
        for x in stale:
            shutil.rmtree(os.path.join(WORK, x), ignore_errors=True)
            try:
                os.remove(os.path.join(WORK, x + ".inuse"))
            except OSError:
                pass
        if fresh:
            rc, o, e, _ = sh(["rsync", "-a", "--exclude", "target", "--exclude", ".git", "--exclude", "fuzz",
                              "--exclude", "assets", "--exclude", "bindings", "--exclude", "docs",
                              repo.rstrip("/") + "/", sc + "/"])
            if rc != 0:
                raise RuntimeError("rsync failed: " + e)
            appended = []
            for (name, target, txt) in kani_modules():
                tp = os.path.join(sc, target)
                if not os.path.exists(tp):
                    appended.append({"module": name, "target": target, "status": "anchor-lost"})
                    continue
                with open(tp, "a") as fh:
                    fh.write("\n// ===== appended by /verif (cfg(kani) only): " + name + " =====\n")
                    fh.write(txt)
                appended.append({"module": name, "target": target, "status": "ok"})
            json.dump(appended, open(os.path.join(sc, ".prepared"), "w"))
        # shared "in use" lock, held until this process exits
        global _INUSE
        lf = open(sc + ".inuse", "w")
        fcntl.flock(lf, fcntl.LOCK_SH)
        _INUSE.append(lf)
    finally:
        fcntl.flock(lock, fcntl.LOCK_UN)
    return sc


_INUSE = []


_blk = re.compile(r"Checking harness (\S+?)\.\.\.")


def parse_kani(out):
    """Parse terse output of a (possibly parallel, -j) run: lines are attributed by `Thread N:`."""
    res = {}
    cur_of_thread = {}
    buf = {}
    active = None   # harness whose result block is being printed
    for ln in out.split("\n"):
        mt = re.match(r"^Thread (\d+): ?(.*)$", ln)
        if mt:
            tid, rest = mt.group(1), mt.group(2)
            m = _blk.search(rest)
            if m:
                cur_of_thread[tid] = m.group(1)
                buf.setdefault(m.group(1), [])
                active = None
            else:
                active = cur_of_thread.get(tid)
                if active is not None and rest:
                    buf[active].append(rest)
            continue
        m = _blk.search(ln)
        if m:  # sequential (non -j) format
            active = m.group(1)
            buf.setdefault(active, [])
            continue
        if ln.startswith("Manual Harness Summary") or ln.startswith("Complete - "):
            active = None
            continue
        if active is not None:
            buf[active].append(ln)
    for h, lines in buf.items():
        t = "\n".join(lines)
        r = {"harness": h}
        m = re.search(r"\*\* (\d+) of (\d+) failed", t)
        if m:
            r["failed_checks"] = int(m.group(1))
            r["checks"] = int(m.group(2))
        m = re.search(r"\*\* (\d+) of (\d+) cover properties satisfied", t)
        if m:
            r["covers_sat"] = int(m.group(1))
            r["covers"] = int(m.group(2))
        if "VERIFICATION:- SUCCESSFUL" in t:
            r["status"] = "ok"
        elif "CBMC timed out" in t or "out of memory" in t.lower():
            r["status"] = "undecided"
            r["reason"] = "timeout"
        elif "VERIFICATION:- FAILED" in t:
            r["status"] = "fail"
        elif "CBMC timed out" in t or "timed out" in t.lower():
            r["status"] = "undecided"
            r["reason"] = "timeout"
        else:
            r["status"] = "undecided"
            r["reason"] = "no verdict"
        m = re.search(r"Verification Time: ([0-9.]+)s", t)
        if m:
            r["solver_s"] = float(m.group(1))
        fails = []
        for m in re.finditer(r"Failed Checks: (.*)\n\s*File: \"([^\"]*)\", line (\d+), in (\S+)", t):
            fails.append({"desc": m.group(1).strip(), "file": m.group(2), "line": int(m.group(3)), "in": m.group(4)})
        if not fails:
            for m in re.finditer(r"Failed Checks: (.*)", t):
                fails.append({"desc": m.group(1).strip()})
        r["fails"] = fails
        if r["status"] == "fail":
            if fails and all("unwinding assertion" in f["desc"] for f in fails):
                r["status"] = "undecided"
                r["reason"] = "unwinding bound too small"
            if any("unsupported" in f["desc"].lower() or "not currently supported" in f["desc"] for f in fails):
                r["status"] = "undecided"
                r["reason"] = "unsupported construct reached"
        r["raw_tail"] = t[-2500:]
        res[h] = r
    return res


def run_kani(harnesses, package=None, flags=None, timeout=600, jobs=8, repo=None):
    """harnesses: list of harness (function) names. Returns dict name -> result."""
    t0 = time.time()
    try:
        sc = kani_prepare(repo)
    except Exception as e:
        return {h: {"harness": h, "status": "undecided", "reason": f"prepare failed: {e}"} for h in harnesses}, {"wall_s": 0}
    prepared = json.load(open(os.path.join(sc, ".prepared")))
    cmd = ["cargo", "kani", "--output-format", "terse", "-j", str(jobs), "--harness-timeout", f"{timeout}s",
           "-Z", "function-contracts", "-Z", "stubbing", "-Z", "mem-predicates", "-Z", "unstable-options"]
    cwd = sc
    if package:
        # sonic-simd / sonic-number are path dependencies, not workspace members: run in their directory
        cwd = os.path.join(sc, package)
        if not os.path.exists(os.path.join(cwd, "Cargo.lock")):
            shutil.copy(os.path.join(sc, "Cargo.lock"), os.path.join(cwd, "Cargo.lock"))
    for h in harnesses:
        cmd += ["--harness", h]
    cmd += flags or []      # last: `--cbmc-args` swallows everything after it
    rc, out, err, dt = sh(cmd, cwd=cwd, timeout=timeout * (1 + len(harnesses) // max(jobs, 1)) + 900)
    parsed = parse_kani(out + "\n" + err)
    results = {}
    for h in harnesses:
        hit = [v for k, v in parsed.items() if k == h or k.endswith("::" + h)]
        if hit:
            results[h] = hit[0]
        else:
            reason = "harness not found / build failed"
            if any(p["status"] == "anchor-lost" for p in prepared):
                reason = "anchor-lost: " + ",".join(p["target"] for p in prepared if p["status"] == "anchor-lost")
            results[h] = {"harness": h, "status": "undecided", "reason": reason,
                          "raw_tail": (err[-3000:] if rc != 0 else out[-1500:])}
    meta = {"wall_s": round(time.time() - t0, 2), "cmd": " ".join(cmd), "scratch": sc, "rc": rc}
    return results, meta


def kani_playback(harness, package=None, flags=None, repo=None, timeout=600):
    """Re-run one failing harness with concrete playback (test written in place into the scratch copy), then
    execute the generated test natively against the real code. Returns {"test": text or None, "replayed": bool}."""
    sc = kani_prepare(repo)
    cwd = os.path.join(sc, package) if package else sc
    cmd = ["cargo", "kani", "--harness", harness, "-Z", "concrete-playback", "--concrete-playback=inplace",
           "-Z", "function-contracts", "-Z", "stubbing", "-Z", "mem-predicates", "-Z", "unstable-options",
           "--harness-timeout", f"{timeout}s"]
    cmd += flags or []
    rc, out, err, dt = sh(cmd, cwd=cwd, timeout=timeout + 600)
    both = out + "\n" + err
    names = re.findall(r"^\s*- (kani_concrete_playback_\w+)\.?\s*$", both, re.M)
    if not names:
        return {"test": None, "replayed": False, "out_tail": both[-3000:]}
    # locate the generated tests in the scratch sources
    texts = []
    for d, dn, fn in os.walk(cwd):
        dn[:] = [x for x in dn if x != "target"]
        for x in fn:
            if x.endswith(".rs"):
                src = open(os.path.join(d, x), errors="replace").read()
                for n in names:
                    m = re.search(r"((?:\s*///[^\n]*\n)*\s*#\[test\]\s*\n\s*fn " + n + r"\(\) \{.*?\n\s*\}\n)", src, re.S)
                    if m:
                        texts.append(m.group(1))
    fails = [t for t in texts if "Check for `cover`" not in t] or texts
    rc2, out2, err2, dt2 = sh(["cargo", "kani", "playback", "-Z", "concrete-playback", "--", "kani_concrete_playback"],
                              cwd=cwd, timeout=900)
    native = out2 + "\n" + err2
    panics = re.findall(r"panicked at [^\n]*\n[^\n]*", native)
    replayed = "test result: FAILED" in native and bool(panics)
    txt = ("// concrete counterexample found by CBMC, written into the scratch copy of the real crate and executed\n"
           "// natively with `cargo kani playback -Z concrete-playback -- kani_concrete_playback`:\n"
           + "\n".join(fails[:2]) + "\n// native run against the real code: "
           + ("REPRODUCED — " + " | ".join(p.replace("\n", " ") for p in panics[:3]) if replayed else
              "not reproduced natively (kani::stub models are not applied in playback)") + "\n")
    # the in-place test must not stay in the cached scratch copy
    try:
        os.remove(os.path.join(sc, ".prepared"))
    except OSError:
        pass
    return {"test": txt, "replayed": replayed, "out_tail": both[-3000:]}


def witness_search(pid, repo=None, timeout=300):
    """Verus gives no model: run the real public entry points of the CURRENT tree natively against executable
    references over a generated input family (witness/witness.rs). Returns a replayable description or None.
    Never an alarm by itself — only attaches an input to a violation the verifier already reported."""
    repo = repo or REPO
    os.makedirs(WORK, exist_ok=True)
    sc = os.path.join(WORK, "witness-" + tree_hash(repo))
    for x in os.listdir(WORK):
        if x.startswith("witness-") and os.path.join(WORK, x) != sc:
            shutil.rmtree(os.path.join(WORK, x), ignore_errors=True)
    if not os.path.exists(sc):
        rc, o, e, _ = sh(["rsync", "-a", "--exclude", "target", "--exclude", ".git", "--exclude", "fuzz", "--exclude", "assets",
                          repo.rstrip("/") + "/", sc + "/"])
        if rc != 0:
            return None
    os.makedirs(os.path.join(sc, "examples"), exist_ok=True)
    shutil.copy(os.path.join(VERIF, "witness", "witness.rs"), os.path.join(sc, "examples", "vwitness.rs"))
    rc, out, err, dt = sh(["cargo", "run", "--offline", "--release", "--example", "vwitness", pid], cwd=sc, timeout=timeout)
    m = re.search(r"^WITNESS (\S+) (.*)$", out, re.M)
    if not m:
        if "NO-WITNESS" not in out:
            sys.stderr.write("witness search did not run (build failure or timeout):\n" + (err or "")[-1500:] + "\n")
        return None
    return ("failing input found by the native witness search (real library built from the current tree, "
            "witness/witness.rs, `cargo run --release --example vwitness " + pid + "`):\n  " + m.group(2) + "\n")


if __name__ == "__main__":
    if sys.argv[1] == "verus":
        r = run_verus_unit(sys.argv[2], int(sys.argv[3]) if len(sys.argv) > 3 else 200, "--probe" in sys.argv)
        for e in r.get("errors", []):
            print("ERR", e["kind"], e["function"], e["msg"], "|", e["clause"])
        r.pop("errors", None)
        if r.get("status") == "undecided":
            print(r.get("stderr_tail", ""))
        r.pop("stderr_tail", None)
        r.pop("items", None)
        print(json.dumps(r, indent=1)[:3000])
    elif sys.argv[1] == "kani":
        pk = None
        hs = sys.argv[2:]
        if hs and hs[0].startswith("-p="):
            pk = hs[0][3:]
            hs = hs[1:]
        r, meta = run_kani(hs, package=pk)
        for h, v in r.items():
            print(h, v["status"], v.get("checks"), v.get("reason", ""), v.get("fails"))
            if v["status"] != "ok":
                print(v.get("raw_tail", "")[-3000:])
        print(meta)
