#!/bin/sh
# usage: tools/vdebug.sh <unit> [rlimit] [extra verus args]  — build + run verus, show errors compactly
u=$1; rl=${2:-200}; shift; shift
mkdir -p /verif/.work
python3 /verif/tools/rsx.py build /verif/units/$u.vt.rs ${VERIF_REPO:-/repo} > /verif/.work/$u.rs 2>/verif/.work/$u.man || { tail -3 /verif/.work/$u.man; exit 1; }
cd /verif/.work && verus $u.rs --triggers-mode silent --rlimit $rl --multiple-errors 6 "$@" 2>&1 | grep -v "^warning\|camel\|^ *= \|^$" | grep -v "pub struct [ium]8x\|^ *--> .*:6[0-9]:12\|^ *|$" | sed 's#/\*@<\*/##g; s#/\*@>\*/##g' | head -${LINES_MAX:-150}
