"""Syntactic frame checks (reported as syntactic, never counted as proofs)."""
import os
import re
import sys

HERE = os.path.dirname(os.path.abspath(__file__))
sys.path.insert(0, HERE)
import rsx

NOT_FOUND = ("GetInEmptyObject", "GetInEmptyArray", "GetIndexOutOfArray", "GetUnknownKeyInObject")


def notfound_only_in_get(repo):
    """The four not-found error codes are constructed only inside path-lookup functions (`get*`)."""
    bad = []
    n = 0
    for d, dn, fn in os.walk(os.path.join(repo, "src")):
        for x in fn:
            if not x.endswith(".rs"):
                continue
            p = os.path.join(d, x)
            rel = os.path.relpath(p, repo)
            src = open(p, encoding="utf-8").read()
            for it, hdr in rsx.find_items(src, rel):
                if it.kind != "fn":
                    continue
                body = it.text
                for code in NOT_FOUND:
                    if re.search(r"\b" + code + r"\b", body):
                        n += 1
                        # error.rs: classify / Display mention the codes without constructing errors
                        if rel.endswith("src/error.rs") and it.name in ("classify",):
                            continue
                        if it.name.startswith("get") or it.name.startswith("test"):
                            continue
                        bad.append(f"{rel}:{it.line0} fn {it.name} mentions {code}")
    return (not bad, "; ".join(bad) if bad else f"{n} mentions, all inside get*/classify")


def u8_gt_never_called(repo):
    """Simd128u::gt / Simd256u::gt are todo!() under sse2/avx2: there must be no call `u8x*` .gt( in the crate.
    Heuristic over source text: every `.gt(` receiver in src/ is an i8x32 value."""
    bad = []
    for d, dn, fn in os.walk(os.path.join(repo, "src")):
        for x in fn:
            if x.endswith(".rs"):
                p = os.path.join(d, x)
                for i, ln in enumerate(open(p, encoding="utf-8"), 1):
                    if ".gt(" in ln and "i8x" not in ln and not re.search(r"\b(zero|v|nine)\.gt\(", ln):
                        bad.append(f"{os.path.relpath(p, repo)}:{i}")
    return (not bad, "; ".join(bad) if bad else "all .gt( call sites are on i8x32 values (do_skip_number)")
