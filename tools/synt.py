"""Syntactic frame checks (reported as syntactic, never counted as proofs)."""
import os
import re
import sys

HERE = os.path.dirname(os.path.abspath(__file__))
sys.path.insert(0, HERE)
import rsx

NOT_FOUND = ("GetInEmptyObject", "GetInEmptyArray", "GetIndexOutOfArray", "GetUnknownKeyInObject")


def notfound_only_in_get(repo):
    """The four not-found error codes are constructed only inside path-lookup functions (`get*`)."""
    bad = []
    n = 0
    for d, dn, fn in os.walk(os.path.join(repo, "src")):
        for x in fn:
            if not x.endswith(".rs"):
                continue
            p = os.path.join(d, x)
            rel = os.path.relpath(p, repo)
            src = open(p, encoding="utf-8").read()
            for it, hdr in rsx.find_items(src, rel):
                if it.kind != "fn":
                    continue
                body = it.text
                for code in NOT_FOUND:
                    if re.search(r"\b" + code + r"\b", body):
                        n += 1
                        # error.rs: classify / Display mention the codes without constructing errors
                        if rel.endswith("src/error.rs") and it.name in ("classify",):
                            continue
                        if it.name.startswith("get") or it.name.startswith("test"):
                            continue
                        bad.append(f"{rel}:{it.line0} fn {it.name} mentions {code}")
    return (not bad, "; ".join(bad) if bad else f"{n} mentions, all inside get*/classify")


def u8_gt_never_called(repo):
    """Simd128u::gt / Simd256u::gt are todo!() under sse2/avx2: there must be no call `u8x*` .gt( in the crate.
    Heuristic over source text: every `.gt(` receiver in src/ is an i8x32 value."""
    bad = []
    for d, dn, fn in os.walk(os.path.join(repo, "src")):
        for x in fn:
            if x.endswith(".rs"):
                p = os.path.join(d, x)
                for i, ln in enumerate(open(p, encoding="utf-8"), 1):
                    if ".gt(" in ln and "i8x" not in ln and not re.search(r"\b(zero|v|nine)\.gt\(", ln):
                        bad.append(f"{os.path.relpath(p, repo)}:{i}")
    return (not bad, "; ".join(bad) if bad else "all .gt( call sites are on i8x32 values (do_skip_number)")


def _fn_items(repo, rel):
    src = open(os.path.join(repo, rel), encoding="utf-8").read()
    return [(it, hdr) for it, hdr in rsx.find_items(src, rel) if it.kind == "fn"]


def depth_guard_held(repo):
    """Every recursion guard must stay alive while the nested value is visited: a guard bound with
    `let _ =` is dropped at once (and its Result discarded), so the depth budget never decreases.
    Returns one violation per offending function."""
    bad = []
    for it, hdr in _fn_items(repo, "src/serde/de.rs"):
        n = len(re.findall(r"let\s+_\s*=\s*DepthGuard::guard\(", it.text))
        if n:
            bad.append(f"src/serde/de.rs fn {it.name}: {n} guard(s) dropped immediately (`let _ = DepthGuard::guard(..)`)")
    return bad


def parser_recursion_bounded(repo):
    """Stack use must be bounded: every recursive cycle among the parser's methods needs a depth budget
    (a parameter or field that is decremented). Returns the functions on unbounded recursive cycles."""
    items = {it.name: it for it, hdr in _fn_items(repo, "src/parser.rs")}
    calls = {}
    for n, it in items.items():
        body = it.text[it.body_open or 0:]
        calls[n] = set(m.group(1) for m in re.finditer(r"\bself\s*\.\s*([a-z_0-9]+)\s*\(", body) if m.group(1) in items)
    # functions that can reach themselves
    rec = []
    for n in items:
        seen, stack = set(), list(calls[n])
        while stack:
            x = stack.pop()
            if x == n:
                rec.append(n)
                break
            if x not in seen:
                seen.add(x)
                stack.extend(calls[x])
    bad = []
    for n in sorted(rec):
        if n.startswith("get_"):
            continue   # recursion over the caller-owned path tree / schema, not over the input
        txt = items[n].text
        if not re.search(r"depth", txt):
            bad.append(f"src/parser.rs fn {n}: on a recursive cycle without a depth budget")
    return bad
