"""Syntactic frame checks (reported as syntactic, never as proofs)."""
