#!/bin/sh
# run every stored seeded change against the quick check of its property (on scratch copies of /repo) and print one
# line per seed: <seed> <exit code> (1 = detected, 0 = missed, 2 = undecided)
cd "$(dirname "$0")/.."
V=$(pwd)
for d in seeded/*/; do
  s=$(basename $d)
  id=$(python3 -c "import json;print(json.load(open('$d/meta.json'))['property'])")
  sc=/var/tmp/sonic-seedrepo-sweep-$$
  rm -rf "$sc"; rsync -a --exclude target --exclude .git /repo/ "$sc"/
  if ! (cd "$sc" && patch -s -p1 < "$V/$d/patch.diff" >/dev/null 2>&1); then echo "$s patch-does-not-apply"; rm -rf "$sc"; continue; fi
  VERIF_REPO="$sc" VERIF_EVIDENCE_DIR=/var/tmp/sonic-sweep-evidence ./check $id --tier quick > /var/tmp/sonic-sweep-$s.out 2>/dev/null
  rc=$?
  echo "$s $id exit=$rc $(grep -c '^VIOLATION' /var/tmp/sonic-sweep-$s.out) violations $(grep -c 'no-failing-input-found' /var/tmp/sonic-sweep-$s.out) without input"
  rm -rf "$sc"
done
rm -rf /var/tmp/sonic-sweep-evidence
