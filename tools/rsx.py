#!/usr/bin/env python3
"""rsx: tokenizer-level Rust item extractor + insert-only contract splicer.

This is the piece that keeps "the verified text" == "the code that runs": every Verus unit is
regenerated on every run from /repo's working tree by
  1. extracting named items verbatim (comment/string/char-literal aware brace matching), and
  2. splicing contract text at anchors (insertions only, each wrapped in markers), plus a small
     set of *declared* substitution rules (each logged, each reversible), and
  3. a round-trip guard: stripping every marker-wrapped insertion and undoing every substitution
     from the emitted unit must reproduce the extracted source byte for byte.

Template language (a `.vt.rs` file is Rust text with directive lines starting with `//@`):

  //@include <path relative to /verif>
  //@body   (inside an extract block: ghost text inserted right after the opening brace of the function body)
  //@extract file=<repo-relative path> [impl=<substring of impl header>] fn=<name> [as=<label>]
  //@extract file=... const=<NAME> | macro=<name> | struct=<Name> | enum=<Name>
  //@extract file=... macro=<name> arm=<k>   the `fn` item inside the k-th arm (1-based) of that macro_rules
      definition, as an fn item: the arm's meta-variables are then instantiated by declared substitutions
      (`//@subst /\$method/ => deserialize_i64 #all`), which is exactly what the macro expander does with them
      directive lines that may follow an `//@extract ... fn=`:
  //@sig                       following lines (until next //@) inserted between signature and `{`
  //@loop <k>                  following lines inserted before the body `{` of the k-th loop (1-based,
                               source order, `while`/`loop`/`for`)
  //@before /<regex>/ [#n]     following lines inserted before the n-th body line matching regex
  //@after /<regex>/ [#n]      following lines inserted after that line
  //@subst /<regex>/ => <text> [#n|#all]   declared rewrite of the matched text on one line (logged)
  //@forname <k> <ident>       `for x in e` -> `for x in <ident>: e` for the k-th loop (insertion)
  //@noresname                 do not name the result (`-> T` stays)
  //@lowerguards /<regex>/ [#n] R8: lower the pure guards of the `match` on that line into its scrutinee
  //@attr                      following lines (verifier attributes) inserted in front of the item
  //@end

Result naming (R1) `-> T` => `-> (res: T)` is done by two insertions.
"""
import base64
import hashlib
import os
import re
import sys

MARK_L = "/*@<*/"
MARK_R = "/*@>*/"


class AnchorLost(Exception):
    pass


class ArmForwards(Exception):
    """the macro arm holds no fn item: its body text is carried here"""
    def __init__(self, body):
        self.body = body


# ----------------------------------------------------------------------------------------------
# lexer: yields (kind, start, end) for kinds: 'ws', 'comment', 'str', 'char', 'lifetime', 'ident',
# 'num', 'punct'
# ----------------------------------------------------------------------------------------------
_ident_start = re.compile(r"[A-Za-z_]")
_ident = re.compile(r"[A-Za-z_][A-Za-z0-9_]*")
_num = re.compile(r"[0-9][A-Za-z0-9_]*(\.[0-9][A-Za-z0-9_]*)?")


def lex(src):
    i = 0
    n = len(src)
    out = []
    while i < n:
        c = src[i]
        if c in " \t\r\n":
            j = i + 1
            while j < n and src[j] in " \t\r\n":
                j += 1
            out.append(("ws", i, j))
            i = j
            continue
        if src.startswith("//", i):
            j = src.find("\n", i)
            if j < 0:
                j = n
            out.append(("comment", i, j))
            i = j
            continue
        if src.startswith("/*", i):
            depth = 1
            j = i + 2
            while j < n and depth > 0:
                if src.startswith("/*", j):
                    depth += 1
                    j += 2
                elif src.startswith("*/", j):
                    depth -= 1
                    j += 2
                else:
                    j += 1
            out.append(("comment", i, j))
            i = j
            continue
        # raw strings r"..", r#".."#, br"..", br#".."#
        m = re.match(r"(b?r)(#*)\"", src[i:i + 40])
        if m and (i == 0 or not (src[i - 1].isalnum() or src[i - 1] == "_")):
            hashes = m.group(2)
            close = '"' + hashes
            j = src.find(close, i + len(m.group(0)))
            if j < 0:
                raise ValueError("unterminated raw string")
            j += len(close)
            out.append(("str", i, j))
            i = j
            continue
        if c == '"' or (c == "b" and i + 1 < n and src[i + 1] == '"'):
            j = i + (2 if c == "b" else 1)
            while j < n and src[j] != '"':
                if src[j] == "\\":
                    j += 2
                else:
                    j += 1
            j += 1
            out.append(("str", i, j))
            i = j
            continue
        if c == "'" or (c == "b" and i + 1 < n and src[i + 1] == "'"):
            k = i + (1 if c == "b" else 0)
            # char literal or lifetime
            if src[k + 1] == "\\":
                j = k + 2
                # escaped char: find closing quote
                j = src.find("'", j + 1) if src[k + 2] != "'" else src.find("'", k + 3)
                # handle '\'' : k+1='\\', k+2="'", closing at k+3
                if src[k + 2] == "'":
                    j = k + 3
                out.append(("char", i, j + 1))
                i = j + 1
                continue
            if k + 2 < n and src[k + 2] == "'":
                out.append(("char", i, k + 3))
                i = k + 3
                continue
            # multi-byte char literal like 'é'
            m2 = re.match(r"'[^'\\\n]'", src[k:k + 8])
            if m2:
                out.append(("char", i, k + len(m2.group(0))))
                i = k + len(m2.group(0))
                continue
            # lifetime
            m3 = _ident.match(src, k + 1)
            if m3 and c == "'":
                out.append(("lifetime", i, m3.end()))
                i = m3.end()
                continue
            out.append(("punct", i, i + 1))
            i += 1
            continue
        if _ident_start.match(c):
            m = _ident.match(src, i)
            out.append(("ident", i, m.end()))
            i = m.end()
            continue
        if c.isdigit():
            m = _num.match(src, i)
            out.append(("num", i, m.end()))
            i = m.end()
            continue
        out.append(("punct", i, i + 1))
        i += 1
    return out


def code_tokens(src, toks):
    return [(k, s, e) for (k, s, e) in toks if k not in ("ws", "comment")]


def match_brace(src, ctoks, idx):
    """ctoks[idx] is an opening '{' / '(' / '['; return index of its matching closer."""
    open_c = src[ctoks[idx][1]]
    close_c = {"{": "}", "(": ")", "[": "]"}[open_c]
    depth = 0
    for j in range(idx, len(ctoks)):
        k, s, e = ctoks[j]
        if k != "punct":
            continue
        ch = src[s]
        if ch == open_c:
            depth += 1
        elif ch == close_c:
            depth -= 1
            if depth == 0:
                return j
    raise ValueError("unbalanced")


class Item:
    def __init__(self, file, src, start, end, body_open=None, kind="fn", name=""):
        self.file = file
        self.start = start
        self.end = end
        self.text = src[start:end]
        self.line0 = src.count("\n", 0, start) + 1
        self.line1 = src.count("\n", 0, end) + 1
        self.body_open = None if body_open is None else body_open - start  # offset of '{' in text
        self.kind = kind
        self.name = name
        self.sha = hashlib.sha256(self.text.encode()).hexdigest()


def _item_start(src, toks_all, pos):
    """Walk back from byte offset pos (start of `fn`/`const`/.. keyword) over qualifiers,
    attributes and doc comments; returns byte offset where the item begins."""
    # find previous code boundary: '}' or ';' or '{' (not inside an attribute) scanning tokens backwards
    idx = None
    for t, (k, s, e) in enumerate(toks_all):
        if s == pos:
            idx = t
            break
    assert idx is not None
    j = idx - 1
    bracket = 0
    while j >= 0:
        k, s, e = toks_all[j]
        if k == "punct":
            ch = src[s]
            if ch == "]":
                bracket += 1
            elif ch == "[":
                bracket -= 1
            elif bracket == 0 and ch in "{};":
                break
        j -= 1
    begin = toks_all[j][2] if j >= 0 else 0
    # skip leading whitespace, then ordinary (non-doc) comments that belong to the previous item
    k = j + 1
    while k < idx and toks_all[k][0] == "ws":
        k += 1
    begin = toks_all[k][1] if k <= idx else pos
    # go to start of the line
    ls = src.rfind("\n", 0, begin) + 1
    if src[ls:begin].strip() == "":
        begin = ls
    return begin


def find_items(src, file):
    """Index top-level and impl-level items of interest."""
    toks_all = lex(src)
    ct = code_tokens(src, toks_all)
    items = []

    def scan(lo, hi, impl_hdr):
        j = lo
        while j < hi:
            k, s, e = ct[j]
            txt = src[s:e]
            if k == "punct" and txt in "{([":
                # skip a block we do not understand at this level
                j = match_brace(src, ct, j) + 1
                continue
            if k == "ident" and txt in ("impl", "mod", "trait") and impl_hdr is None:
                # header until '{' or ';'
                h = j
                while h < hi and not (ct[h][0] == "punct" and src[ct[h][1]] in "{;"):
                    h += 1
                if h < hi and src[ct[h][1]] == "{":
                    close = match_brace(src, ct, h)
                    hdr = src[s:ct[h][1]].strip()
                    if txt == "impl":
                        scan(h + 1, close, hdr)
                    elif txt == "mod":
                        scan(h + 1, close, None)
                    elif txt == "trait":
                        name = src[ct[j + 1][1]:ct[j + 1][2]]
                        st = _item_start(src, toks_all, s)
                        items.append((Item(file, src, st, ct[close][2], ct[h][1], "trait", name), None))
                        scan(h + 1, close, "trait " + name)
                    j = close + 1
                    continue
                j = h + 1
                continue
            if k == "ident" and txt == "fn":
                name = src[ct[j + 1][1]:ct[j + 1][2]]
                h = j
                while h < hi and not (ct[h][0] == "punct" and src[ct[h][1]] in "{;"):
                    if ct[h][0] == "punct" and src[ct[h][1]] in "([":
                        h = match_brace(src, ct, h)
                    h += 1
                st = _item_start(src, toks_all, s)
                if h < hi and src[ct[h][1]] == "{":
                    close = match_brace(src, ct, h)
                    items.append((Item(file, src, st, ct[close][2], ct[h][1], "fn", name), impl_hdr))
                    j = close + 1
                else:
                    items.append((Item(file, src, st, ct[h][2], None, "fndecl", name), impl_hdr))
                    j = h + 1
                continue
            if k == "ident" and txt in ("const", "static") and j + 1 < hi and ct[j + 1][0] == "ident" \
                    and src[ct[j + 1][1]:ct[j + 1][2]] not in ("fn", "unsafe"):
                name = src[ct[j + 1][1]:ct[j + 1][2]]
                if name == "mut":
                    name = src[ct[j + 2][1]:ct[j + 2][2]]
                h = j
                while h < hi and not (ct[h][0] == "punct" and src[ct[h][1]] == ";"):
                    if ct[h][0] == "punct" and src[ct[h][1]] in "([{":
                        h = match_brace(src, ct, h)
                    h += 1
                st = _item_start(src, toks_all, s)
                items.append((Item(file, src, st, ct[h][2], None, "const", name), impl_hdr))
                j = h + 1
                continue
            if k == "ident" and txt in ("struct", "enum", "union"):
                name = src[ct[j + 1][1]:ct[j + 1][2]]
                h = j
                while h < hi and not (ct[h][0] == "punct" and src[ct[h][1]] in "{;"):
                    if ct[h][0] == "punct" and src[ct[h][1]] in "([":
                        h = match_brace(src, ct, h)
                    h += 1
                st = _item_start(src, toks_all, s)
                if src[ct[h][1]] == "{":
                    close = match_brace(src, ct, h)
                    items.append((Item(file, src, st, ct[close][2], ct[h][1], txt, name), impl_hdr))
                    j = close + 1
                else:
                    items.append((Item(file, src, st, ct[h][2], None, txt, name), impl_hdr))
                    j = h + 1
                continue
            if k == "ident" and txt == "macro_rules":
                name = src[ct[j + 2][1]:ct[j + 2][2]]
                h = j + 3
                close = match_brace(src, ct, h)
                st = _item_start(src, toks_all, s)
                end = ct[close][2]
                if close + 1 < hi and src[ct[close + 1][1]] == ";":
                    end = ct[close + 1][2]
                    close += 1
                items.append((Item(file, src, st, end, None, "macro", name), impl_hdr))
                j = close + 1
                continue
            j += 1

    scan(0, len(ct), None)
    return items


def macro_arm_fn(it, src, file, arm):
    """The fn item inside the arm-th arm `( matcher ) => { body }` of a macro_rules item."""
    toks_all = lex(src)
    ct = [t for t in code_tokens(src, toks_all) if it.start <= t[1] < it.end]
    # macro_rules ! name { arms }
    j = next(i for i, (k, s, e) in enumerate(ct) if k == "punct" and src[s] in "{(" and i >= 3)
    close = match_brace(src, ct, j)
    arms = []
    h = j + 1
    while h < close:
        if ct[h][0] == "punct" and src[ct[h][1]] in "([{":
            mclose = match_brace(src, ct, h)
            # => then body group
            b = mclose + 1
            while not (ct[b][0] == "punct" and src[ct[b][1]] in "{(["):
                b += 1
            bclose = match_brace(src, ct, b)
            arms.append((b, bclose))
            h = bclose + 1
            continue
        h += 1
    if len(arms) < arm:
        raise AnchorLost(f"macro {it.name} has no arm {arm} in {file}")
    b, bclose = arms[arm - 1]
    f = next((i for i in range(b + 1, bclose) if ct[i][0] == "ident" and src[ct[i][1]:ct[i][2]] == "fn"), None)
    if f is None:
        raise ArmForwards(src[ct[b][2]:ct[bclose][1]])
    h = f
    while h < bclose and not (ct[h][0] == "punct" and src[ct[h][1]] == "{"):
        if ct[h][0] == "punct" and src[ct[h][1]] in "([":
            h = match_brace(src, ct, h)
        h += 1
    if h >= bclose:
        raise AnchorLost(f"macro {it.name} arm {arm}: fn without a body in {file}")
    fclose = match_brace(src, ct, h)
    st = src.rfind("\n", 0, ct[f][1]) + 1
    if src[st:ct[f][1]].strip() != "":
        st = ct[f][1]
    item = Item(file, src, st, ct[fclose][2], ct[h][1], "fn", f"{it.name}!arm{arm}")
    # the arm's matcher `( $a:ident, $b:ident )`: meta-variable names in order
    mopen = None
    hh = j + 1
    k = 0
    while hh < close:
        if ct[hh][0] == "punct" and src[ct[hh][1]] in "([{":
            mc = match_brace(src, ct, hh)
            k += 1
            if k == 2 * arm - 1:
                mopen = (hh, mc)
                break
            hh = mc + 1
            continue
        hh += 1
    item.matcher_vars = re.findall(r"\$(\w+)\s*:", src[ct[mopen[0]][1]:ct[mopen[1]][2]]) if mopen else []
    item.macro_name = it.name
    item.macro_end = it.end
    return item


def macro_call_args(src, name, first_arg, after):
    """arguments of the invocation `name!(first_arg, ...)` found after offset `after` (the real instantiation)."""
    for m in re.finditer(re.escape(name) + r"!\s*\(([^()]*)\)", src[after:]):
        args = [a.strip() for a in m.group(1).split(",") if a.strip()]
        if args and args[0] == first_arg:
            return args
    return None


def extract(repo, file, kind, name, impl=None, nth=1, arm=None):
    path = os.path.join(repo, file)
    try:
        src = open(path, encoding="utf-8").read()
    except FileNotFoundError:
        raise AnchorLost(f"file {file} missing")
    if kind == "macro" and arm is not None:
        it = extract(repo, file, kind, name, impl, nth)
        return macro_arm_fn(it, src, file, int(arm))
    kinds = {"fn": ("fn",), "const": ("const",), "macro": ("macro",), "struct": ("struct",),
             "enum": ("enum",), "trait": ("trait",), "fndecl": ("fndecl",)}[kind]
    found = []
    for it, hdr in find_items(src, file):
        if it.kind in kinds and it.name == name:
            if impl is not None and (hdr is None or impl not in re.sub(r"\s+", " ", hdr)):
                continue
            found.append(it)
    if len(found) < nth:
        raise AnchorLost(f"{kind} {name} (impl={impl}) not found in {file}")
    if impl is None and kind == "fn" and len(found) > 1 and nth == 1:
        # ambiguous: prefer free function; else first
        pass
    return found[nth - 1]


# ----------------------------------------------------------------------------------------------
# splicing
# ----------------------------------------------------------------------------------------------
def wrap(text):
    assert MARK_L not in text and MARK_R not in text
    return MARK_L + text + MARK_R


def subst_wrap(orig, repl):
    b = base64.b64encode(orig.encode()).decode()
    return f"/*@S{b}*/{repl}/*@s*/"


_strip_ins = re.compile(re.escape(MARK_L) + r".*?" + re.escape(MARK_R), re.S)
_strip_sub = re.compile(r"/\*@S([A-Za-z0-9+/=]*)\*/.*?/\*@s\*/", re.S)


def strip_markers(text):
    text = _strip_ins.sub("", text)
    text = _strip_sub.sub(lambda m: base64.b64decode(m.group(1)).decode(), text)
    return text


def _loops(item_text, body_open):
    """Return list of (kw_offset, body_brace_offset) for loops in source order."""
    toks = lex(item_text)
    ct = code_tokens(item_text, toks)
    res = []
    for j, (k, s, e) in enumerate(ct):
        if s <= body_open or k != "ident":
            continue
        w = item_text[s:e]
        if w not in ("while", "loop", "for"):
            continue
        # find body brace: first '{' at paren/bracket depth 0
        h = j + 1
        while h < len(ct):
            kk, ss, ee = ct[h]
            if kk == "punct":
                ch = item_text[ss]
                if ch in "([":
                    h = match_brace(item_text, ct, h)
                elif ch == "{":
                    break
            h += 1
        if h >= len(ct):
            raise AnchorLost("loop body not found")
        res.append((s, ct[h][1], w))
    return res



def lower_guards(text, match_off, log, name):
    """R8 guard lowering (Verus 0.2026.09 mishandles a guarded arm that mutates state and falls
    through):   match E { P1 if G1 => B1, P2 => B2, _ => B3 }
            =>  match (E, G1) { (P1, true) => B1, (P2, _) => B2, _ => B3 }
    Purely mechanical; only applied when every guard is *pure and binding-free*: the guarded patterns
    bind no identifiers and the guards contain no call, `?`, or assignment (checked here).
    Returns a list of (start, end, replacement) substitutions."""
    toks = lex(text)
    ct = code_tokens(text, toks)
    mi = next(i for i, (k, s, e) in enumerate(ct) if s == match_off)
    # scrutinee: up to the first '{' at depth 0
    h = mi + 1
    while True:
        k, s, e = ct[h]
        if k == "punct" and text[s] in "([":
            h = match_brace(text, ct, h)
        elif k == "punct" and text[s] == "{":
            break
        h += 1
    scrut = (ct[mi + 1][1], ct[h - 1][2])
    close = match_brace(text, ct, h)
    arms = []
    j = h + 1
    while j < close:
        # pattern
        ps = j
        gi = None
        while True:
            k, s, e = ct[j]
            if k == "punct" and text[s] in "([{":
                j = match_brace(text, ct, j)
            elif k == "ident" and text[s:e] == "if" and gi is None:
                gi = j
            elif k == "punct" and text[s] == "=" and text[ct[j + 1][1]] == ">" and ct[j + 1][1] == s + 1:
                break
            j += 1
        arrow = j
        pat_end = gi if gi is not None else arrow
        pat = (ct[ps][1], ct[pat_end - 1][2])
        guard = (ct[gi + 1][1], ct[arrow - 1][2]) if gi is not None else None
        guard_span = (ct[gi][1], ct[arrow - 1][2]) if gi is not None else None
        # body
        j = arrow + 2
        if text[ct[j][1]] == "{":
            j = match_brace(text, ct, j) + 1
            if j < close and text[ct[j][1]] == ",":
                j += 1
        else:
            while j < close:
                k, s, e = ct[j]
                if k == "punct" and text[s] in "([{":
                    j = match_brace(text, ct, j)
                elif k == "punct" and text[s] == ",":
                    j += 1
                    break
                j += 1
        arms.append({"pat": pat, "guard": guard, "guard_span": guard_span})
    guards = [a for a in arms if a["guard"]]
    if not guards:
        log.append(f"R8 {name}: `match {text[scrut[0]:scrut[1]]}` has no guards: nothing to lower")
        return []
    for a in guards:
        g = text[a["guard"][0]:a["guard"][1]]
        ptxt = text[a["pat"][0]:a["pat"][1]]
        if re.search(r"\?|[^=!<>]=[^=]|\b[a-z_][A-Za-z0-9_]*\s*\(|\.\s*[a-z_][A-Za-z0-9_]*\s*\(", g):
            raise AnchorLost(f"{name}: guard `{g}` is not pure (call, `?` or assignment): cannot lower")
        # pattern must not bind identifiers: allow literals, `_`, `|`, ranges, and paths/constructors
        for m in re.finditer(r"\b([a-z_][a-z0-9_]*)\b", re.sub(r"b'(\\.|[^'])'|'(\\.|[^'])'|\"[^\"]*\"", "", ptxt)):
            if m.group(1) != "_" and not re.match(r"^(b|r|br)$", m.group(1)):
                raise AnchorLost(f"{name}: pattern `{ptxt}` binds `{m.group(1)}`: cannot lower its guard")
    n = len(guards)
    subs = []
    gtxt = [text[a["guard"][0]:a["guard"][1]] for a in guards]
    subs.append((scrut[0], scrut[1], "(" + text[scrut[0]:scrut[1]] + ", " + ", ".join("(" + g + ")" for g in gtxt) + ")"))
    gi = 0
    for a in arms:
        ptxt = text[a["pat"][0]:a["pat"][1]]
        if a["guard"]:
            flags = ["true" if k == gi else "_" for k in range(n)]
            gi += 1
            # replace `PAT if GUARD` by the tuple pattern
            subs.append((a["pat"][0], a["guard_span"][1], "(" + ptxt + ", " + ", ".join(flags) + ")"))
        elif ptxt.strip() != "_":
            subs.append((a["pat"][0], a["pat"][1], "(" + ptxt + ", " + ", ".join(["_"] * n) + ")"))
    log.append(f"R8 {name}: guards of `match {text[scrut[0]:scrut[1]]}` lowered into the scrutinee tuple: " + "; ".join(gtxt))
    return subs

PROBE = "proof { assert(false); } /*probe*/"


def splice_fn(item, directives, log, probe=False):
    """directives: list of dicts. Returns spliced text.
    probe=True additionally inserts `assert(false)` at function entry and at the head of every
    contracted loop body (vacuity twin: each probe MUST fail)."""
    text = item.text
    inserts = []  # (offset, order, text)  -- plain insertions
    substs = []   # (start, end, replacement)
    order = 0
    resname = not any(d["op"] == "noresname" for d in directives)
    # loops of a `loop_isolation(false)` function are verified in the function's own context: a failed
    # entry probe masks later probes in the same query, and their invariants are asserted on entry
    # anyway — so such functions carry the entry probe only.
    nonisolated = any(d["op"] == "attr" and "loop_isolation(false)" in d["text"] for d in directives)
    bo = item.body_open
    if bo is None:
        raise AnchorLost(f"{item.name}: no body")
    sig = text[:bo]
    # R1 result naming
    if resname:
        toks = lex(sig)
        ct = code_tokens(sig, toks)
        depth = 0
        arrow = None
        for j, (k, s, e) in enumerate(ct):
            if k == "punct":
                ch = sig[s]
                if ch in "([":
                    depth += 1
                elif ch in ")]":
                    depth -= 1
                elif ch == "-" and depth == 0 and j + 1 < len(ct) and sig[ct[j + 1][1]] == ">" and ct[j + 1][1] == s + 1:
                    arrow = j + 1
        if arrow is not None:
            tstart = ct[arrow + 1][1]
            # type ends before `where` at depth 0 or end of sig
            tend = len(sig.rstrip())
            for j in range(arrow + 1, len(ct)):
                k, s, e = ct[j]
                if k == "ident" and sig[s:e] == "where":
                    tend = len(sig[:s].rstrip())
                    break
            inserts.append((tstart, order, "(res: ")); order += 1
            inserts.append((tend, order, ")")); order += 1
            log.append(f"R1 {item.name}: result named `res`")
    loops = None
    lines = None

    def line_index():
        nonlocal lines
        if lines is None:
            lines = []
            off = 0
            for ln in text.split("\n"):
                lines.append((off, off + len(ln), ln))
                off += len(ln) + 1
        return lines

    def find_line(rx, nth):
        cnt = 0
        r = re.compile(rx)
        for (a, b, ln) in line_index():
            if a <= bo:
                continue
            if r.search(ln):
                cnt += 1
                if cnt == nth:
                    return a, b, ln
        raise AnchorLost(f"{item.name}: line /{rx}/ #{nth} not found")

    for d in directives:
      try:
          op = d["op"]
          if op == "sig":
              inserts.append((bo, order, "\n" + d["text"] + "\n    ")); order += 1
              if probe:
                  inserts.append((bo + 1, order, " " + PROBE)); order += 1
          elif op == "loop":
              if loops is None:
                  loops = _loops(text, bo)
              k = d["k"]
              if k > len(loops):
                  raise AnchorLost(f"{item.name}: loop {k} not found (has {len(loops)})")
              inserts.append((loops[k - 1][1], order, "\n" + d["text"] + "\n")); order += 1
              if probe and not nonisolated:
                  inserts.append((loops[k - 1][1] + 1, order, " " + PROBE)); order += 1
          elif op == "forname":
              if loops is None:
                  loops = _loops(text, bo)
              k = d["k"]
              if k > len(loops) or loops[k - 1][2] != "for":
                  raise AnchorLost(f"{item.name}: for-loop {k} not found")
              kw = loops[k - 1][0]
              m = re.compile(r"\bin\s+").search(text, kw)
              if not m:
                  raise AnchorLost(f"{item.name}: `in` of for-loop {k} not found")
              inserts.append((m.end(), order, d["ident"] + ": ")); order += 1
              log.append(f"R3 {item.name}: for-loop {k} iterator named `{d['ident']}`")
          elif op == "body":
              # right after the opening brace of the function body: survives any edit of the first statement
              inserts.append((bo + 1, order + 1000, "\n" + d["text"])); order += 1
          elif op == "before":
              a, b, ln = find_line(d["rx"], d["n"])
              inserts.append((a, order, d["text"] + "\n")); order += 1
          elif op == "after":
              a, b, ln = find_line(d["rx"], d["n"])
              inserts.append((b, order, "\n" + d["text"])); order += 1
          elif op == "subst":
              r = re.compile(d["rx"])
              hits = [m for m in r.finditer(text)]
              if not hits:
                  raise AnchorLost(f"{item.name}: subst /{d['rx']}/ not found")
              if d["n"] == "all":
                  chosen = hits
              else:
                  if d["n"] > len(hits):
                      raise AnchorLost(f"{item.name}: subst /{d['rx']}/ #{d['n']} not found")
                  chosen = [hits[d["n"] - 1]]
              for m in chosen:
                  substs.append((m.start(), m.end(), m.expand(d["repl"])))
                  log.append(f"SUBST {item.name}: `{m.group(0)}` => `{m.expand(d['repl'])}`")
          elif op == "lowerguards":
              a, b, ln = find_line(d["rx"], d["n"])
              mm = re.search(r"\bmatch\b", ln)
              if not mm:
                  raise AnchorLost(f"{item.name}: no `match` on line /{d['rx']}/")
              for (x, y, r) in lower_guards(text, a + mm.start(), log, item.name):
                  substs.append((x, y, r))
          elif op == "noresname":
              pass
          elif op == "attr":
              inserts.append((0, order, d["text"] + "\n")); order += 1
          else:
              raise ValueError(op)
      except AnchorLost as e:
        if d.get("optional"):
            log.append(f"OPTIONAL-ANCHOR-ABSENT {item.name}: {e}")
        else:
            raise
    # apply from the end
    events = []
    for (off, o, t) in inserts:
        events.append((off, 1, o, "ins", t, off))
    for (a, b, r) in substs:
        events.append((a, 2, 0, "sub", r, b))
    # check substs do not overlap inserts in their interior
    out = text
    for (off, pri, o, kind, t, endoff) in sorted(events, key=lambda x: (x[0], x[1], x[2]), reverse=True):
        if kind == "ins":
            out = out[:off] + wrap(t) + out[off:]
        else:
            out = out[:off] + subst_wrap(out[off:endoff], t) + out[endoff:]
    if strip_markers(out) != text:
        raise RuntimeError(f"round-trip guard failed for {item.name}")
    return out


# ----------------------------------------------------------------------------------------------
# template processing
# ----------------------------------------------------------------------------------------------
_dir = re.compile(r"^\s*//@(\w+\??)\s*(.*)$")


def _kv(s):
    out = {}
    for m in re.finditer(r'(\w+)=("([^"]*)"|\S+)', s):
        out[m.group(1)] = m.group(3) if m.group(3) is not None else m.group(2)
    return out


def build_unit(template_path, repo, verif_root, probe=False):
    """Returns (unit_text, manifest) where manifest lists extracted items, log, and raises AnchorLost."""
    log = []
    items = []
    out = []

    def process(path, depth=0):
        lines = open(path, encoding="utf-8").read().split("\n")
        i = 0
        while i < len(lines):
            ln = lines[i]
            m = _dir.match(ln)
            if not m:
                out.append(ln)
                i += 1
                continue
            op, rest = m.group(1), m.group(2)
            if op == "include":
                process(os.path.join(verif_root, rest.strip()), depth + 1)
                i += 1
                continue
            if op == "extract":
                kv = _kv(rest)
                kind = next(k for k in ("fn", "const", "macro", "struct", "enum", "trait") if k in kv)
                try:
                    it = extract(repo, kv["file"], kind, kv[kind], kv.get("impl"), int(kv.get("nth", "1")), kv.get("arm"))
                except ArmForwards as af:
                    # the arm has no fn of its own: accepted only when it is literally the declared forwarding
                    # invocation (then the arm it forwards to carries the contract); its directive block is skipped
                    norm = lambda t: re.sub(r"\s+", " ", t).strip()
                    if "fwd" not in kv or norm(af.body) != norm(kv["fwd"]):
                        raise AnchorLost(f"macro {kv[kind]} arm {kv.get('arm')} holds no fn and is not the declared forwarding in {kv['file']}")
                    i += 1
                    while i < len(lines) and not (_dir.match(lines[i]) and _dir.match(lines[i]).group(1) == "end"):
                        i += 1
                    i += 1
                    out.append(f"    // macro {kv[kind]} arm {kv['arm']} forwards: {norm(af.body)}")
                    log.append(f"macro {kv[kind]} arm {kv['arm']}: forwarding arm `{norm(af.body)}` (no fn; block skipped)")
                    continue
                auto_dirs = []
                if kind == "macro" and "arm" in kv:
                    kind = "fn"
                    if "call" in kv:
                        # bind the arm's meta-variables from the REAL invocation `name!(call, ...)` in the same file
                        src_all = open(os.path.join(repo, kv["file"]), encoding="utf-8").read()
                        args = macro_call_args(src_all, it.macro_name, kv["call"], it.macro_end)
                        if args is None or len(args) != len(it.matcher_vars):
                            raise AnchorLost(f"no invocation {it.macro_name}!({kv['call']}, ..) matching arm {kv['arm']} in {kv['file']}")
                        for var, arg in zip(it.matcher_vars, args):
                            auto_dirs.append({"op": "subst", "rx": r"\$" + var + r"\b", "repl": arg, "n": "all", "text": "", "optional": True})
                        log.append(f"macro {it.macro_name} arm {kv['arm']}: instantiated from the invocation {it.macro_name}!({', '.join(args)})")
                dirs = []
                i += 1
                cur = None
                closed = False
                def _has_dirs(k):
                    mm = _dir.match(lines[k]) if k < len(lines) else None
                    return bool(mm) and mm.group(1).rstrip("?") in ("sig", "loop", "forname", "before", "after", "subst", "noresname", "attr", "lowerguards", "body", "end")
                while (kind == "fn" or _has_dirs(i) or dirs) and i < len(lines):
                    m2 = _dir.match(lines[i])
                    if m2:
                        op2, rest2 = m2.group(1), m2.group(2).strip()
                        optional = op2.endswith("?")
                        op2 = op2.rstrip("?")
                        if op2 == "end":
                            closed = True
                            i += 1
                            break
                        if op2 == "sig":
                            cur = {"op": "sig", "text": ""}
                        elif op2 == "loop":
                            cur = {"op": "loop", "k": int(rest2), "text": ""}
                        elif op2 == "forname":
                            a, b = rest2.split()
                            cur = {"op": "forname", "k": int(a), "ident": b, "text": ""}
                        elif op2 in ("before", "after"):
                            mm = re.match(r"/(.*)/\s*(#(\d+))?$", rest2)
                            cur = {"op": op2, "rx": mm.group(1), "n": int(mm.group(3) or 1), "text": ""}
                        elif op2 == "subst":
                            mm = re.match(r"/(.*)/\s*=>\s*(.*?)\s*(#(\d+|all))?$", rest2)
                            n = mm.group(4) or "1"
                            cur = {"op": "subst", "rx": mm.group(1), "repl": mm.group(2),
                                   "n": "all" if n == "all" else int(n), "text": ""}
                        elif op2 == "body":
                            cur = {"op": "body", "text": ""}
                        elif op2 == "lowerguards":
                            mm = re.match(r"/(.*)/\s*(#(\d+))?$", rest2)
                            cur = {"op": "lowerguards", "rx": mm.group(1), "n": int(mm.group(3) or 1), "text": ""}
                        elif op2 == "noresname":
                            cur = {"op": "noresname", "text": ""}
                        elif op2 == "attr":
                            cur = {"op": "attr", "text": ""}
                        else:
                            raise ValueError(f"unknown directive {op2} in {path}:{i+1}")
                        cur["optional"] = optional
                        dirs.append(cur)
                    else:
                        if cur is None:
                            if lines[i].strip():
                                raise ValueError(f"text outside directive in {path}:{i+1}")
                        else:
                            cur["text"] += ("" if cur["text"] == "" else "\n") + lines[i]
                    i += 1
                if not closed and kind == "fn":
                    raise ValueError(f"missing //@end in {path}")
                for d in dirs:
                    d["text"] = d["text"].rstrip("\n")
                dirs = auto_dirs + dirs
                if kind == "fn" and (dirs or it.body_open is not None):
                    txt = splice_fn(it, dirs, log, probe) if it.body_open is not None else it.text
                elif dirs:
                    # non-fn items accept declared substitutions only (e.g. field visibility)
                    if any(d["op"] not in ("subst", "noresname") for d in dirs):
                        raise ValueError(f"only //@subst allowed on {kind} {it.name}")
                    it2 = it
                    it2.body_open = -1
                    txt = splice_fn(it2, dirs + [{"op": "noresname"}], log, False)
                else:
                    txt = it.text
                out.append(txt)
                items.append({"file": it.file, "kind": it.kind, "name": it.name, "impl": kv.get("impl"),
                              "lines": [it.line0, it.line1], "sha256": it.sha})
                continue
            raise ValueError(f"unknown directive {op} in {path}:{i+1}")

    process(template_path)
    text = "\n".join(out)
    return text, {"items": items, "log": log}


if __name__ == "__main__":
    import json
    if sys.argv[1] in ("build", "probe"):
        text, man = build_unit(sys.argv[2], sys.argv[3], os.path.dirname(os.path.dirname(os.path.abspath(__file__))), sys.argv[1] == "probe")
        sys.stdout.write(text)
        sys.stderr.write(json.dumps(man, indent=1) + "\n")
    elif sys.argv[1] == "items":
        src = open(sys.argv[2]).read()
        for it, hdr in find_items(src, sys.argv[2]):
            print(it.kind, it.name, it.line0, it.line1, "|", (hdr or "")[:60].replace("\n", " "))
