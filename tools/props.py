"""Property registry: which Verus units / Kani harnesses decide which property."""
import synt  # syntactic frame checks

T1 = "T1 Reader contract (specs/prelude.rs trait Reader): proved for `impl Reader for Read` by Kani harnesses reader_*; assumed for PaddedSliceRead"
T2 = "T2 SIMD lane contracts (specs/prelude.rs i8x32/u8x32/m8x32): discharged on real sonic-simd code by Kani under C17"
T4 = "T4 external crates (simdutf8, std String/Vec/Arc, bumpalo, ahash, faststr, bytes, serde, ryu, itoa) assumed correct"
T5 = "T5 float conversion (sonic_number::parse_float / lemire / slow path) correct rounding assumed"
T6 = "T6 machine facts: usize is 64-bit, slice length <= isize::MAX, little-endian"
VSTD = "vstd axioms (Seq, trailing_zeros, wrapping ops) and Z3 are trusted"
KANI = "Kani/CBMC compilation of MIR and CBMC's bit-precise semantics are trusted; Kani builds the fallback v256/v512 SIMD backend (sse2 for v128)"

PROPS = {}

PROPS["C08"] = {
    "level": "proof",
    "verus": [{"unit": "skip_number", "rlimit": 200}],
    "kani": [],
    "trusted_base": [T1, T2, T6, VSTD,
                     "as_str (from_utf8_unchecked) returns a view of the same bytes (external_body)",
                     "ryu/itoa produce shortest round-tripping text and the float parser reads it back (T5) — NOT proved"],
    "level_text": "Verus proof (all inputs, unbounded length) that the real number skipper accepts exactly the RFC 8259 number grammar and returns the verbatim literal; float/integer text round-trip through ryu/itoa is NOT proved (assumed)",
    "level_note": "Reader contract T1 and SIMD lane contracts T2 assumed in this unit (discharged by Kani under C17/C01); as_str view; ryu/itoa/float parser assumed (T4,T5)",
    "technique": "contract-based deductive verification: Verus (Z3) on mechanically extracted real functions",
    "explanation": "raw-number half: skip_number returns exactly data[start..number_end) and Ok iff the RFC 8259 number grammar matches",
}

NOT_APPLICABLE = {
    "C04": "quantifies over programs (every Deserialize impl) against serde_json as oracle; no function contract within reach of Verus/Kani states it (serde visitor protocol, derive output); kernels proved under C02/C07/C09",
    "C06": "whole-pipeline fixpoint law (parser o DOM o serializer, three build configurations); not a per-function contract; ingredients proved under C02/C05/C08",
    "C11": "PointerTree is std HashMap<FastStr,_> trie walked recursively with &mut Vec<Option<LazyValue>>; Verus has no spec for std HashMap entry API / LazyValue raw AtomicPtr, CBMC on SipHash HashMap + parser exceeds any budget",
    "C15": "Value is a tagged union of raw pointers/Arc<Vec>/Arc<AHashMap> with copy-on-write promotion and ref_cast facades; cannot be specified in Verus without replacing it by a model; bounded Kani histories hit the 6-38 GB class",
    "C19": "quantifies over programs (Serialize/Deserialize impls) and relates two serde back ends plus AHashMap-backed equality; same obstacles as C04 and C15",
}
