"""Property registry: which Verus units / Kani harnesses decide which property."""
import synt  # syntactic frame checks

T1 = "T1 Reader contract (specs/prelude.rs trait Reader): checked for `impl Reader for Read` by bounded Kani harnesses reader_*; assumed for PaddedSliceRead"
T2 = "T2 SIMD lane contracts (specs/prelude.rs i8x32/u8x32/m8x32): discharged on the real sonic-simd code for sse2/v128/avx2/v256/v512 by Kani (property C17)"
T3 = "T3 hand-written models of x86 instructions Kani cannot execute (pmaxub, vpshufb, pclmulqdq, pmaddubsw, pmaddwd, packusdw), from the Intel SDM pseudo-code"
T4 = "T4 external crates (simdutf8, std String/Vec/Arc, bumpalo, ahash, faststr, bytes, serde, ryu, itoa) assumed correct"
T5 = "T5 float conversion (sonic_number::parse_float / lemire / slow path) correct rounding assumed"
T6 = "T6 machine facts: usize is 64-bit (`global size_of usize == 8`), input length <= 2^62, little-endian"
T9 = "T9 (unit decoder_inplace): `read.data()` denotes the text as it was when parsing started; Parser::parse_string_inplace physically overwrites bytes inside the string literal it has just consumed (escape compaction) and the unit treats that as invisible; sound for the forward-only parser, except for Parser::error's re-scan, which is decided separately (C20 dom_entry_error_position*, F14); parse_string_inplace's acceptance/decoded-text contract is ASSUMED (pointer loop: CBMC does not finish, outside the Verus subset)"
T8 = "substitution helpers with assumed contracts: as_array64 (pointer cast of a >=64-byte slice), slice_eq (== on byte slices), as_str (from_utf8_unchecked keeps the bytes)"
VSTD = "vstd axioms (Seq, trailing_zeros, wrapping/saturating ops, str spec_bytes/reveal_strlit) and Z3 are trusted"
KANI = "Kani/CBMC compilation of MIR and CBMC's bit-precise semantics are trusted; Kani builds debug_assertions ON and target features OFF (x86 modules are pulled in by #[path])"
PERR = "Parser::error (error construction) is external_body in the parser units; it is verified separately in unit `errors` (C20)"

TECH_V = "contract-based deductive verification: Verus (Z3) on mechanically extracted real functions"
TECH_K = "contract-based deductive verification: Kani/CBMC full-domain loop-free harnesses on the real crate"
TECH_VK = "contract-based deductive verification: Verus (unbounded, extracted real functions) + Kani/CBMC (full-domain bit-precise harnesses)"


def K(name, desc, functions=(), package=None, kind="complete", tier="quick", timeout=300, flags=()):
    return {"name": name, "desc": desc, "functions": list(functions), "package": package, "kind": kind,
            "tier": tier, "timeout": timeout, "flags": list(flags)}


# ---- Kani harness groups -----------------------------------------------------------------------
K_UNICODE = [
    K("hex_to_u32_all_quads", "hex_to_u32_nocheck == 4-hex-digit value or >0xFFFF, all 2^32 inputs", ["util::unicode::hex_to_u32_nocheck"]),
    K("codepoint_to_utf8_all", "codepoint_to_utf8 == RFC 3629 / char::encode_utf8, all u32; writes <= 4 bytes", ["util::unicode::codepoint_to_utf8"]),
    K("handle_unicode_codepoint_all", "handle_unicode_codepoint_mut == reference (BMP, pairs, lone surrogates, lossy, bad hex), all 12-byte windows x repr; reads in src[0..12), writes in dst[0..4)",
      ["util::unicode::handle_unicode_codepoint_mut", "util::unicode::repr_utf16_surrogate"]),
]
K_STRTAB = [
    K("escaped_tab_all_rows", "ESCAPED_TAB == RFC 8259 two-character escape table, all 256 rows", ["util::string::ESCAPED_TAB"]),
]
K_QUOTE = [
    K("quote_tab_all_rows", "QUOTE_TAB / NEED_ESCAPED == RFC 8259 serializer escapes, all 256 rows", ["util::string::QUOTE_TAB", "util::string::NEED_ESCAPED"]),
    K("check_cross_page_sound", "check_cross_page false => the 32-byte read stays in one 4096-byte page, all addresses", ["util::string::check_cross_page"]),
]
K_BLOCK = [
    K("bitmask_before_u32_all", "u32 BitMask::before/first_offset/all_zero == trailing-zero comparison for all disjoint pairs", ["sonic_simd::bits::<u32 as BitMask>"]),
    K("bitmask_clear_high_bits_u32_all", "u32 clear_high_bits(n) keeps the low 32-n bits, all x, n<32", ["sonic_simd::bits::<u32 as BitMask>::clear_high_bits"]),
    K("string_block_classification_all", "StringBlock::{has_quote_first,has_unescaped,has_backslash,*_index} == which of quote/backslash/control comes first, all disjoint mask triples",
      ["util::string::StringBlock::has_quote_first", "util::string::StringBlock::has_unescaped", "util::string::StringBlock::has_backslash"]),
    K("string_block_new_lanes", "StringBlock::new masks == lane-wise byte classes and are pairwise disjoint, 32 symbolic bytes", ["util::string::StringBlock::new", "util::string::load"]),
]
K_BITS = [
    K("escaped_branchless_u64_all", "get_escaped_branchless_u64 == scalar escaped-bit definition with carry, all 2^65 inputs", ["parser::get_escaped_branchless_u64"]),
    K("escaped_branchless_u32_all", "get_escaped_branchless_u32 == scalar escaped-bit definition with carry, all 2^33 inputs", ["parser::get_escaped_branchless_u32"]),
]
K_WS = [
    K("is_whitespace_all", "is_whitespace == RFC 8259 ws, all 256 bytes", ["parser::is_whitespace"]),
    K("nonspace_bits_fallback_all", "fallback get_nonspace_bits lane contract, 64 symbolic bytes", ["util::arch::fallback::get_nonspace_bits"]),
    K("nonspace_bits_x86_all", "x86 (vpshufb) get_nonspace_bits lane contract, 64 symbolic bytes [T3 model]", ["util::arch::x86_64::get_nonspace_bits"]),
]
K_PXOR = [
    K("prefix_xor_fallback_all", "fallback prefix_xor == prefix parity, all 2^64", ["util::arch::fallback::prefix_xor"]),
    K("prefix_xor_x86_all", "x86 (pclmulqdq) prefix_xor == prefix parity, all 2^64 [T3 model]", ["util::arch::x86_64::prefix_xor"]),
]
_SIMD_FNS = ["loadu", "storeu", "eq", "le", "gt", "splat", "from_slice_unaligned_unchecked", "write_to_slice_unaligned_unchecked"]
K_SIMD = [K(n, d, [f"sonic_simd::{m}::{f}" for f in _SIMD_FNS], package="sonic-simd") for (n, d, m) in [
    ("simd_sse2_u8x16", "sse2 Simd128u lane contract (load/store/eq/le/splat), 2x16 symbolic bytes [T3 pmaxub]", "sse2::Simd128u"),
    ("simd_sse2_i8x16", "sse2 Simd128i lane contract (load/store/eq/le/gt/splat)", "sse2::Simd128i"),
    ("simd_sse2_mask128", "sse2 Mask128: bitmask / | / & / |= / splat", "sse2::Mask128"),
    ("simd_v128_u8x16", "portable v128 Simd128u lane contract incl. gt", "v128::Simd128u"),
    ("simd_v128_i8x16", "portable v128 Simd128i lane contract", "v128::Simd128i"),
    ("simd_v128_mask128", "portable v128 Mask128 contract", "v128::Mask128"),
    ("simd_avx2_u8x32", "avx2 Simd256u lane contract, 2x32 symbolic bytes [T3 vpmaxub]", "avx2::Simd256u"),
    ("simd_avx2_i8x32", "avx2 Simd256i lane contract", "avx2::Simd256i"),
    ("simd_avx2_mask256", "avx2 Mask256 contract", "avx2::Mask256"),
    ("simd_v256_u8x32", "portable v256 Simd256u lane contract", "v256::Simd256u"),
    ("simd_v256_i8x32", "portable v256 Simd256i lane contract", "v256::Simd256i"),
    ("simd_v256_mask256", "portable v256 Mask256 contract", "v256::Mask256"),
    ("simd_v512_u8x64", "v512 Simd512u lane contract, 2x64 symbolic bytes", "v512::Simd512u"),
    ("simd_v512_i8x64", "v512 Simd512i lane contract", "v512::Simd512i"),
]] + [
    K("bitmask_u64_all", "u64 BitMask contract (before/first_offset/all_zero/clear_high_bits)", ["sonic_simd::bits::<u64 as BitMask>"], package="sonic-simd"),
    K("bitmask_u16_all", "u16 BitMask contract", ["sonic_simd::bits::<u16 as BitMask>"], package="sonic-simd"),
]
K_STR2INT = [
    K("str2int_fallback_all", "fallback simd_str2int == value/length of the leading <=need digits, all 16-byte inputs, need<=16",
      ["sonic_number::arch::fallback::simd_str2int"], package="sonic-number"),
]
# x86 simd_str2int (16 harnesses in kani/number_arch.rs): CBMC does not finish in 600 s per case and Kani flags
# _mm_sub_epi8 (wrapping in hardware) as overflow -> not registered; stated in DESIGN.md.


K_NUMBER = [
    K("parse_number_zero_sign", "every zero-valued literal of <= 8 bytes over {0 . e E + -}: Unsigned(0) or a float zero with the literal's sign; zero literals never reach parse_float",
      ["sonic_number::parse_number"], package="sonic-number", kind="bounded(literal length <= 8)"),
]

K_DECLEAF = [
    K("is_8digits_all", "big-decimal float fallback leaf: is_8digits(v) <=> all eight little-endian bytes are ASCII digits, all 2^64 inputs, no overflow panic",
      ["sonic_number::common::is_8digits"], package="sonic-number"),
    K("read_write_u64_window", "big-decimal float fallback leaves: read_u64 / write_u64 on a window of 8..=15 bytes are little-endian, touch exactly the first 8 bytes; v - 0x3030303030303030 after is_8digits(v) cannot underflow and leaves digit values 0..=9",
      ["sonic_number::common::<[u8] as ByteSlice>::read_u64", "sonic_number::common::<[u8] as ByteSlice>::write_u64"], package="sonic-number"),
    K("decimal_round_add_digit_in_bounds", "big-decimal float fallback: under the stated type invariant (num_digits <= 768, digits <= 9) Decimal::round stays inside the buffer and inside u64 (<= 10^18) for every decimal_point / truncated, and try_add_digit stores inside the buffer or only counts",
      ["sonic_number::decimal::Decimal::round", "sonic_number::decimal::Decimal::try_add_digit"], package="sonic-number"),
]

K_PASTEND = [
    K("dom_entry_past_end_is_error", "Value::parse_with_padding against the contract of the in-place parser: a parse that only stopped inside the padding (Ok with the reader 1 or 2 bytes past the end: unterminated string) is turned into an error, so the returned offset never exceeds the input (found F24); all inputs of 2 bytes x both configuration flags",
      ["value::node::Value::parse_with_padding"], kind="bounded(input length = 2)"),
]
PROPS = {}

PROPS["C08"] = {
    "level": "proof",
    "verus": [{"unit": "skip_number", "rlimit": 200}, {"unit": "serde_access", "rlimit": 200}],
    "kani": K_NUMBER,
    "trusted_base": [T1, T2, T6, T8, VSTD, PERR,
                     "ryu/itoa produce shortest round-tripping text and the float parser reads it back (T4,T5) — NOT proved"],
    "level_text": "Verus proof (all inputs, unbounded length) that the real number skipper accepts exactly the RFC 8259 number grammar and returns the verbatim literal, and that deserialize_rawnumber hands the RawNumber visitor only text that is exactly one grammatical number literal of the input (bare, or quoted with the closing quote immediately after it); Kani bounded proof that negative zero keeps its sign; float/integer text round-trip through ryu/itoa is NOT proved (assumed)",
    "level_note": "Reader contract T1 and SIMD lane contracts T2 assumed in this unit (T2 discharged by Kani under C17); as_str view; ryu/itoa/float parser assumed (T4,T5)",
    "technique": TECH_V,
    "explanation": "raw-number half: skip_number returns exactly data[start..number_end) and Ok iff the RFC 8259 number grammar matches",
}

PROPS["C02"] = {
    "level": "proof",
    "verus": [{"unit": "recognisers", "rlimit": 200}, {"unit": "decoder", "rlimit": 300}, {"unit": "decoder_inplace", "rlimit": 300}, {"unit": "serde_access", "rlimit": 200}, {"unit": "typed_de", "rlimit": 300}, {"unit": "strings", "rlimit": 200}],
    "kani": K_STRTAB + K_WS + K_PASTEND,
    "trusted_base": [T1, T2, T3, T4, T6, T8, VSTD, KANI, PERR,
                     "UTF-8 prevalidation (simdutf8) in Read::new_in is T4: the reader's marker `next_invalid` (offset of the first invalid byte the validation found) enters as an uninterpreted reader state; proved on top of it: Parser::check_invalid_utf8, parse_str (an accepted literal in the default configuration leaves no invalid UTF-8 in the consumed part) and Deserializer::deserialize (a document is handed out only if the consumed part is clean, whatever the target type skipped: F22)",
                     "fully-decoding half: parse_value2/parse_array2/parse_object2 are proved; their leaves Parser::parse_number (wrapper around the verified sonic_number::parse_number) and parse_str (both proved for the real functions in units typed_num / strings; what stays assumed is the decoded text of the copying half, parse_string_escaped) enter through contracts restated in the decoder units; surrogate pairing / float finiteness make the decoder reject MORE than the grammar, which the statement permits",
                     "serde SeqAccess::next_element_seed / MapAccess::next_key_seed / next_value_seed / end_map / end_seq: the comma-colon machine is proved to start the (arbitrary) element deserializer only at the grammar-prescribed position and to reject every other separator situation; the element deserializers themselves are programs (C04) and the per-type entry points of `impl Deserializer` are not under contract",
                     "the in-place twin parse_dom/parse_value/parse_array/parse_object (DOM whole-input path) is proved in unit decoder_inplace under T9; the reader contract T1 is assumed for PaddedSliceRead (raw pointers, 64 bytes of padding)", T9],
    "level_text": "Verus proof that the fully-decoding parsers — copy-out parse_value2/parse_array2/parse_object2 and in-place parse_dom/parse_value/parse_array/parse_object (the from_str::<Value> path) — succeed only on, and consumes exactly, the grammar it is specified to consume, that this grammar followed by the trailing check is exactly RFC 8259 (theorem_text_l_is_rfc8259), and — for every input and length — that the validate-and-skip recogniser (skip_one, skip_array, skip_object, skip_string, skip_escaped_chars, skip_number, parse_literal, skip_space incl. its SIMD cache, parse_trailing) returns Ok iff the RFC 8259 grammar (specs/json_grammar.rs) matches, with the exact end offset; the table/lane contracts it assumes are discharged by Kani",
    "level_note": "validate-and-skip half through the checked reader `Read`; both decoding drivers at parser level (string/number leaves through assumed or separately proved contracts); the entry point from_trait (4 GB guard, `nothing but whitespace after what the target type consumed`, deferred UTF-8 verdict) and the self-describing dispatch deserialize_any in unit typed_de; the per-type visitors themselves are programs (C04)",
    "technique": TECH_VK,
    "explanation": "skip_one Ok <=> value_end(data, idx) is Some; parse_trailing Ok <=> only whitespace left",
}

PROPS["C14"] = {
    "level": "proof",
    "verus": [{"unit": "recognisers", "rlimit": 200}, {"unit": "walkers", "rlimit": 200}, {"unit": "iterators", "rlimit": 200}, {"unit": "getmany", "rlimit": 300}, {"unit": "lazy_get", "rlimit": 300}],
    "kani": K_STRTAB,
    "trusted_base": [T1, T2, T4, T6, T8, VSTD, PERR,
                     "get_many walkers: the path trie (PointerTree / MultiKey / MultiIndex lookups) is opaque — `get` is assumed to return a child of the same well-formed tree whose `order` entries index the output vector; LazyValue::new is assumed to carry exactly the slice it is given; three declared substitutions (indexed store -> Vec::set, impure match guard -> nested if, `&\"a JSON object\"` -> the literal)"],
    "level_text": "Verus proof that whenever the validating skipper returns a fragment it is exactly data[ws_end..value_end) of a well-formed RFC 8259 value inside the input (skip_one postcondition); that checked get walkers succeed only if everything traversed (brackets, every earlier member/element, separators, key, colon) is well formed (object_lookup / array_lookup specs); and the same for each item of the checked iterators",
    "level_note": "checked get_many walkers (get_many_rec / get_many_keys / get_many_index): every slot they fill is the exact span of a well-formed value, the fill count matches `remain`, and a walker that returns Ok with paths still open has validated its whole container; the public wrappers get / get_many (unit lazy_get): for inputs not known to be UTF-8 a returned value implies that everything traversed up to and including it is valid UTF-8 (validity itself is std::str::from_utf8, T4); get_from_with_iter's generic path loop and get_by_schema are not under contract; parse_string_raw acceptance contract assumed in unit walkers; UTF-8 validity of the prefix is simdutf8 (T4)",
    "technique": TECH_V,
    "explanation": "skip_one: Ok((slice,_)) ==> slice == data[p..e) with value_end == Some(e)",
}


PROPS["C07"] = {
    "level": "proof",
    "verus": [{"unit": "number", "rlimit": 400}],
    "kani": K_STR2INT + K_NUMBER + K_DECLEAF,
    "trusted_base": [T5, T6, VSTD, KANI,
                     "parse_float and everything below it (fast paths, Eisel-Lemire, big-decimal) is external_body: correct rounding is ASSUMED, not proved",
                     "x86 simd_str2int contract assumed (only the fallback implementation is proved by Kani)",
                     "u64::overflowing_mul/overflowing_add: standard semantics (assume_specification)",
                     "input length <= 512 MiB in this unit (i32 exponent arithmetic `*index as i32` is only safe below 2 GiB: documented limitation, see DESIGN.md)",
                     "typed integer targets / f32 narrowing happen in serde's primitive impls (T4)"],
    "level_text": "Verus proof for all inputs that sonic_number::parse_number consumes exactly the number grammar (end offset exact, Err only for grammar failure or non-finite float), that every plain integer literal within u64 / i64 is returned as that exact integer with the right classification (incl. the 19/20-digit boundary and i64::MIN), that the fraction reader accumulates exactly the first digits, and that parse_exponent is exact; Kani complete proofs of the leaves of the big-decimal float fallback (is_8digits == eight ASCII digits for all u64, read_u64 / write_u64 windows, Decimal::round / try_add_digit inside the 768-byte buffer and inside u64 under the stated type invariant); float rounding itself is assumed (T5)",
    "level_note": "the exact-integer half and the scanners are proved; the correctly-rounded-float half is an assumption",
    "technique": TECH_VK,
    "explanation": "parse_number: lenient_end / is_plain_int / dec_val specs; parse_number_fraction: significand == old*10^k + digits",
}

K_META = [
    K("meta_dom_node_roundtrip", "Meta::pack_dom_node/unpack_dom_node round trip (kind, idx < 2^29, len) and get_type/in_shared/unpack_strlen, all values",
      ["value::node::Meta::pack_dom_node", "value::node::Meta::unpack_dom_node", "value::node::Meta::get_type", "value::node::Meta::get_kind", "value::node::Meta::in_shared", "value::node::Meta::has_strlen", "value::node::Meta::unpack_strlen"]),
    K("meta_dom_node_idx_width", "pack/unpack round trip for every sibling index a document under the 4 GiB guard can produce (idx <= 2^31) — fails: F5", ["value::node::Meta::pack_dom_node"]),
    K("meta_static_types_total", "Meta::new(type constant): get_type total and exact, not in_shared, all 13 constants", ["value::node::Meta::new", "value::node::Meta::get_type"]),
    K("meta_static_str_roundtrip", "pack_static_str length round trip, all len < u32::MAX", ["value::node::Meta::pack_static_str"]),
    K("meta_root_tag_roundtrip", "ROOT_NODE tag in the alignment bits: kind/type/unpack_root for every 8-aligned address", ["value::node::Meta::unpack_root", "value::node::Meta::pack_shared"]),
]
K_OWNED = [
    K("owned_new_type_total", "OwnedLazyValue::new on non-literal well-formed text: get_type() total and correct (every 2-byte prefix)", ["lazyvalue::owned::OwnedLazyValue::new", "lazyvalue::owned::LazyRaw::get_type", "lazyvalue::owned::OwnedLazyValue::get_type"]),
    K("owned_from_lazyvalue_type_total", "From<LazyValue> for OwnedLazyValue on non-literal text, both escape statuses: get_type() total and correct", ["lazyvalue::owned::<OwnedLazyValue as From<LazyValue>>::from"]),
] + [K(n, d, ["lazyvalue::owned::OwnedLazyValue::from_literal"]) for (n, d) in [
    ("owned_new_true", "OwnedLazyValue::new(\"true\") is Boolean"), ("owned_new_false", "OwnedLazyValue::new(\"false\") is Boolean"), ("owned_new_null", "OwnedLazyValue::new(\"null\") is Null"),
    ("owned_from_lv_true", "OwnedLazyValue::from(LazyValue \"true\") is Boolean"), ("owned_from_lv_false", "OwnedLazyValue::from(LazyValue \"false\") is Boolean"), ("owned_from_lv_null", "OwnedLazyValue::from(LazyValue \"null\") is Null"),
]]
K_OWNED += [
    K("owned_view_deref_total", "as_array / as_object on a still-raw container: the LazyArray / LazyObject view can be dereferenced (no unreachable!), against the contract of LazyRaw::load (kani::stub)",
      ["lazyvalue::owned::<LazyArray as Deref>::deref", "lazyvalue::owned::<LazyObject as Deref>::deref", "lazyvalue::owned::OwnedLazyValue::as_array", "lazyvalue::owned::OwnedLazyValue::as_object"]),
]
K_CACHE = [
    K("cache_parse_from_all_outcomes", "Inner::parse_from/clone/drop under every CAS outcome (success, lost race to a published value, spurious weak failure) and decoder outcome: returned reference valid and equal to the published decoding, cache monotone, loser released with its real layout, counts balanced, and (CBMC --memory-leak-check) every decoding allocated on any path is freed by the time the value and its clone are dropped",
      ["lazyvalue::value::Inner::parse_from", "lazyvalue::value::<Inner as Clone>::clone", "lazyvalue::value::<Inner as Drop>::drop"], timeout=600,
      flags=["--cbmc-args", "--memory-leak-check"]),
]
K_READER = [
    K("reader_read_contract", "impl Reader for Read meets the T1 contract (remain/peek/peek_n/next/next_n/eat/backward/set_index/at/slice_unchecked/index), all indices, slice length <= 8",
      ["reader::<Read as Reader>::*"], kind="bounded(slice length <= 8)"),
]
K_POSITION = [
    K("position_from_index_contract", "Position::from_index == (1 + newlines before offset, bytes since last newline), black-box, inputs <= 6 bytes, every offset",
      ["reader::Position::from_index"], kind="bounded(input length <= 6)"),
]
K_DOMENTRY = [
    K(n, "Value::parse_with_padding against the contracts of the in-place parser (buffer differs from the input inside consumed literals; error located relative to it) and of Error::syntax: the returned error carries offset <= len and the line/column of that offset in the ORIGINAL input; all inputs of %s bytes x both configuration flags" % l,
      ["value::node::Value::parse_with_padding"], kind="bounded(input length = %s)" % l)
    for n, l in [("dom_entry_error_position_len1", "1"), ("dom_entry_error_position_len2", "2"), ("dom_entry_error_position", "3"), ("dom_entry_error_position_len4", "4")]
]
K_FORMAT = [
    K("format_string_len1", "format_string == RFC 8259 escaper (bytes and length), every 1-byte ASCII string x need_quote; writes inside the 6n+35 window", ["util::string::format_string", "util::string::escape_unchecked"], kind="bounded(string length = 1)", tier="thorough", timeout=900),
    K("format_string_len2", "same, every 2-byte ASCII string", ["util::string::format_string", "util::string::escape_unchecked"], kind="bounded(string length = 2)", tier="thorough", timeout=900),
]
K_UNCHECKED = [
    K("skip_string_unchecked_33", "skip_string_unchecked == scalar first-unescaped-quote scan (end offset, escape status), all 33-byte inputs over {\" \\ a} (one SIMD block + 1)",
      ["parser::Parser::skip_string_unchecked"], kind="bounded(33 bytes, 3-symbol alphabet)", tier="thorough", timeout=900),
    K("skip_string_unchecked_block_edge", "same, lengths 33..=36", ["parser::Parser::skip_string_unchecked"],
      kind="bounded(33..36 bytes, 3-symbol alphabet)", tier="thorough", timeout=1500),
    K("get_next_token_block_edge", "get_next_token([t1,t2],1) == first token byte at/after idx, lengths 33..=35 over {t1 t2 x}, both token pairs",
      ["parser::Parser::get_next_token"], kind="bounded(33..35 bytes, 3-symbol alphabet)", tier="thorough", timeout=1500),
]
K_STRBITS = [
    K("string_bits_all", "get_string_bits == scalar in-string scan with both carries, all 64-byte blocks x 4 carry states", ["parser::get_string_bits"], timeout=600),
]

PROPS["C01"] = {
    "level": "proof",
    "verus": [{"unit": "recognisers", "rlimit": 200}, {"unit": "errors", "rlimit": 200}, {"unit": "number", "rlimit": 400}, {"unit": "walkers", "rlimit": 200}, {"unit": "iterators", "rlimit": 200}, {"unit": "strings", "rlimit": 200}, {"unit": "decoder", "rlimit": 300}, {"unit": "decoder_inplace", "rlimit": 300}, {"unit": "serde_access", "rlimit": 200}, {"unit": "unchecked", "rlimit": 400}, {"unit": "getmany", "rlimit": 300}, {"unit": "owned_load", "rlimit": 400}, {"unit": "walkers_unchecked", "rlimit": 400}, {"unit": "container", "rlimit": 400}, {"unit": "formatter", "rlimit": 200}, {"unit": "serializer", "rlimit": 300}, {"unit": "lazy_get", "rlimit": 300}, {"unit": "dom_visitor", "rlimit": 200}, {"unit": "typed_de", "rlimit": 300}, {"unit": "typed_num", "rlimit": 200}, {"unit": "typed_err", "rlimit": 200}],
    "kani": K_UNICODE + K_BLOCK[3:] + K_QUOTE[1:] + K_META[:1] + K_META[2:] + K_READER + K_OWNED[:2] + K_OWNED[-1:] + K_PASTEND + K_DECLEAF,
    "syntactic": [{"name": "recursion guard stays alive while the nested value is visited", "fn": synt.depth_guard_held},
                  {"name": "input-driven parser recursion has a depth budget", "fn": synt.parser_recursion_bounded}],
    "trusted_base": [T1, T2, T3, T4, T6, T8, VSTD, KANI,
                     "covers the functions under contract only: absence of panic/overflow/out-of-bounds is an obligation of every Verus-verified body (arithmetic, indexing, unreachable!, reader preconditions) and of every Kani harness (pointer checks); whole entry points on unbounded input, leaks, the in-place padded DOM parser, allocator behaviour are NOT covered",
                     "stack boundedness is not expressible as a function contract without a depth parameter in the code: the two syntactic checks stand in and are reported as syntactic"],
    "level_text": "conjunction of (a) Verus proofs that every function under contract in any unit — the validating recogniser, the error constructors (snippet window slicing), the number parser, the checked walkers and iterators, the string scanners, both decoding drivers, the serde access machine, the unchecked string skipper and the get_many walkers — respects every callee precondition and cannot overflow, index out of bounds or reach unreachable!() for any input, (b) Kani/CBMC memory-safety + totality proofs of the unsafe leaf code over full domains (hex table, UTF-8 writer, \\u handler over 12-byte windows, block loader, page-cross guard, Meta packing, Reader impl, OwnedLazyValue type invariant); unbounded stack use (F1) is a recorded known finding",
    "level_note": "partial by construction: functions, not entry points; see DESIGN.md §6 C01",
    "technique": TECH_VK,
    "explanation": "no-panic / in-bounds obligations of every function under contract; F1 (no depth bound) is a known finding",
}

PROPS["C13"] = {
    "level": "proof",
    "verus": [{"unit": "owned_load", "rlimit": 400}, {"unit": "unchecked", "rlimit": 400}, {"unit": "lazy_get", "rlimit": 300}, {"unit": "container", "rlimit": 400}],
    "kani": K_OWNED + K_BITS + K_PXOR + K_STRBITS,
    "trusted_base": [T1, T2, T6, T8, VSTD, KANI, T4, PERR, "FastStr / Bytes drop glue excluded from the harnesses (mem::forget)",
                     "unit owned_load: OwnedLazyValue is opaque — it enters through a ghost shape() and the contracts of its one-line constructors (from_non_esc_str, from_faststr, From<bool/()/Number/Vec<..>>, new keeping literals parsed: the latter is what the Kani harnesses owned_new_* check); FastStr / JsonSlice::as_faststr keep the bytes (T4)",
                     "skip_one_unchecked enters through the contract proved in unit unchecked (== skip_one on a well-formed value followed by whitespace and `,` `]` `}` or the end); parse_str / Parser::parse_number enter through assumed contracts (units strings / number)",
                     "three declared substitutions in get_owned_lazyvalue: `Some(b't') if self.match_literal(..)? => return ..` becomes `Some(b't') => { if self.match_literal(..)? { return .. } unreachable!() }` — Verus proves the unreachable!() (match_literal never returns Ok(false)), so the fall-through of the original guard is dead",
                     "accessor agreement with the DOM (as_*, get on LazyRaw incl. the lock-free cache: C18), verbatim re-serialization (impl Serialize), clone/mutation histories are NOT under contract"],
    "level_text": "Verus proof that the parser builds owned lazy values as faithful one-level views: get_owned_lazyvalue (strict: only on a well-formed value; both modes: on a well-formed value it stops just after it and keeps exactly its source span, literals parsed) and load_owned_lazyvalue (the children of a well-formed array / object are exactly the source spans of its elements / members in order, keys decoded; a well-formed array is never refused), that a clone of a lazily kept value keeps its text, and that LazyValue::as_raw_number answers only for numbers (F18); Kani/CBMC proof of the representation invariant that makes the lazy accessors total: every constructor of OwnedLazyValue from well-formed raw text (new, From<LazyValue>) yields a value whose get_type() is defined and equals the type the text denotes, for every JSON type including true/false/null",
    "level_note": "construction half (what the lazy value IS); the accessor / serialization / history half of the statement is not decided",
    "technique": TECH_VK,
    "explanation": "get_owned_lazyvalue: shape == child_shape(text); load_owned_lazyvalue: shape == Arr(arr_shapes) / Obj(obj_shapes); LazyRaw.raw[0] in {-,0-9,\",[,{}; literals are Parsed",
}

PROPS["C18"] = {
    "level": "proof",
    "verus": [],
    "kani": K_CACHE,
    "trusted_base": [KANI, T4, "T7 memory orderings are NOT modelled: the atomic operations are given sequentially consistent nondeterministic contracts (rely/guarantee over-approximation of any number of threads)",
                     "the decoder (from_slice_unchecked::<String>) is replaced by a nondeterministic Ok/Err model",
                     "LazyRaw::load (owned half) is not decided: CBMC does not finish on its harness (kept in kani/owned.rs, unregistered)"],
    "level_text": "Kani/CBMC proof on the real Inner::parse_from / Clone / Drop with each atomic operation replaced by the nondeterministic outcome its specification allows (including spurious weak-CAS failure and a racing publisher): the returned reference is always valid and is the unique published decoding, the loser is released exactly once with its real layout, counts stay balanced",
    "level_note": "contract-level rely/guarantee argument; no memory model, no real threads",
    "technique": TECH_K + " with kani::stub models of the atomic operations",
    "explanation": "publish-once protocol on Inner.unescaped",
}

PROPS["C03"] = {
    "level": "proof",
    "verus": [{"unit": "decoder", "rlimit": 300}, {"unit": "decoder_inplace", "rlimit": 300}, {"unit": "dom_visitor", "rlimit": 200}, {"unit": "typed_de", "rlimit": 300}],
    "kani": K_META + K_PASTEND,
    "trusted_base": [T1, T2, T6, T8, VSTD, KANI, T4, PERR,
                     "DocumentVisitor: its callbacks (impl JsonVisitor: which node kind / payload / sibling index each event pushes) are proved in unit dom_visitor at dispatch level, with the node stack opaque; the stack machinery itself (push_node, visit_container_start / visit_container_end: flattening, arena copy with copy_nonoverlapping into bumpalo, back-pointer header, visit_root) and the public read API walk are NOT under contract (CBMC needs > 50 GB on a 10-event script)",
                     "string / number payloads are uninterpreted here (decoded, num_event) and delegate to C09 / C07; Parser::parse_number and parse_str enter through assumed contracts",
                     T9],
    "level_text": "Verus proof that both parse drivers — copy-out parse_value2/parse_array2/parse_object2 and the in-place parse_dom/parse_value/parse_array/parse_object behind from_str::<Value> — feed the visitor exactly the reference pre-order event list of the text (value_events: same nesting, array order, members in source order with duplicates kept, exact element/member counts, booleans/null exact), for every input; that each DocumentVisitor callback pushes the node that event denotes (kind incl. raw-number vs string, payload, sibling index); plus Kani/CBMC complete proofs of the packed node metadata the DOM is built from: kind/index/length round trips and totality of get_type for every packed value; the 29-bit index field is the known finding F5",
    "level_note": "event-list half + representation kernels; the arena construction between them is not decided",
    "technique": TECH_VK,
    "explanation": "parse_value2 / parse_value: trace' == trace + value_events(text); Meta::{pack_dom_node,unpack_dom_node,pack_static_str,get_type,unpack_root}",
}

PROPS["C04"] = {
    "level": "proof",
    "verus": [{"unit": "typed_de", "rlimit": 300}, {"unit": "typed_num", "rlimit": 200}, {"unit": "typed_bytes", "rlimit": 200}, {"unit": "serde_access", "rlimit": 200}, {"unit": "strings", "rlimit": 200}, {"unit": "number", "rlimit": 400}],
    "kani": [],
    "trusted_base": [T1, T2, T4, T5, T6, T8, VSTD, PERR,
                     "unit typed_de: the visitor is an arbitrary program — it enters as a trait with deterministic spec callbacks (on_bool, on_unit, on_none, on_str, on_u64 / on_i64 / on_f64) and, for visit_some / visit_seq / visit_map, as an opaque call that preserves the parser invariant (prophetic mut_ref_future for the access objects) and whose result and final reader position are deterministic functions of the visitor, the document and the start position (seq_out / map_out); declared substitutions: `self` -> `&mut self` (the trait impl is re-hosted on an inherent impl), `self.peek_invalid_type(peek, &visitor)` -> `self.peek_invalid_type_v(peek)` (the `&dyn Expected` only feeds the message), `let _ = DepthGuard::guard(self);` -> `self.depth_guard_tick()` (the guard is dropped at once: known finding F1a), `V: de::Visitor` -> the stand-in trait",
                     "the statement's oracle (serde_json) is not executed: the reference behaviour is written from the serde data model as serde_json implements it, per entry point",
                     "unit typed_num: sonic_number::parse_number enters through its contract proved in unit `number` (restated); `ret.map_err(|err| self.error(err.into()))` -> the equal `match` and `(!neg as usize)` -> an `if` expression (declared substitutions); the two arms of `deserialize_numeric_key!` are instantiated mechanically (`//@extract macro= arm=`, meta-variables by declared substitution; an arm that only forwards to the other arm is accepted as such only when its text is literally the forwarding invocation); inputs <= 512 MiB (the number unit's bound)",
                     "NOT under contract: the ten one-line entry points generated by impl_deserialize_number (each is `self.deserialize_number(visitor)`; range conversion to the target width is serde's visitor, T4), the digit buffer and std `parse` of deserialize_i128 / u128 (what is read is under contract, the value is not), unit_variant / newtype_variant_seed of VariantAccess (one-line delegations to an opaque Deserialize / seed), MapKey::deserialize_any / string-like keys (one parse_str call), derive output; `visitor.visit_enum(..)` is split by a declared substitution into visit_enum_tagged / visit_enum_unit (same callback, two access types)"],
    "level_text": "Verus proof of per-type entry points of the serde Deserializer: deserialize_bool accepts exactly `true` / `false` and hands the visitor that boolean; deserialize_unit exactly `null`; deserialize_option maps a complete `null` to None and starts the inner deserializer at the value otherwise; deserialize_str accepts only a string literal and hands out its decoded text, borrowed exactly when it has no escape; deserialize_ignored_any accepts exactly one well-formed value; deserialize_seq / deserialize_map / deserialize_struct accept only `[` / `{`, start the visitor on a fresh access object just after the bracket and require the closing bracket after what it consumed — and are complete: at the bracket the outcome is exactly the (deterministic) visitor's, given the closing bracket, for a struct in BOTH encodings; tuple_variant / struct_variant of VariantAccess inherit exactly that; deserialize_enum accepts a bare variant name or the externally tagged form {Variant: value} (closing brace required; VariantAccess::variant_seed requires the colon after the variant name); deserialize_any dispatches on the first byte (literals, string borrowed iff no escape, number, containers) and rejects anything else; visit_number dispatches each number class to its callback with the same value; Parser::parse_number reads a number from its first byte (sign included), ends exactly at its end and never rejects a plain integer that fits u64 / i64, which reaches the visitor through deserialize_number with exactly its value; a numeric map key is a number that starts right after the opening quote (no whitespace: serde_json: `expected key to be a number in quotes`) followed at once by the closing quote, a bool key exactly `true` / `false` and the closing quote; enum / bytes keys step back exactly onto the opening quote; scan_integer128 / deserialize_i128 / deserialize_u128 read exactly an optional `-` (i128 only) and an integer literal without leading zero; deserialize_bytes accepts only a string literal or an array, ends at the closing quote and hands an escape-free literal over borrowed, byte for byte (its completeness against serde_json — raw control characters, unpaired surrogates — is the known finding F21); plus (shared with C02 / C09 / C07) the comma-colon access machine, the borrow-or-copy string decoder and the exact integer parser",
    "level_note": "a part of the statement: the listed entry points; agreement with serde_json for every Deserialize type is not decided (programs)",
    "technique": TECH_V,
    "explanation": "deserialize_bool: Ok ==> (text is `true` and res == visitor.on_bool(true)) or (`false` ...); deserialize_str: res == visitor.on_str(decoded(text), borrowed == no escape)",
}

PROPS["C12"] = {
    "level": "proof",
    "verus": [{"unit": "iterators", "rlimit": 200}, {"unit": "unchecked", "rlimit": 400}, {"unit": "container", "rlimit": 400}],
    "kani": K_BITS + K_PXOR + K_STRBITS,
    "trusted_base": [T1, T2, T4, T6, T8, VSTD, PERR,
                     "R8 guard lowering (match guards moved into the scrutinee tuple) applied to parse_array_elem_lazy / parse_entry_lazy",
                     "parse_str acceptance contract assumed in this unit (Ok ==> exactly one grammar-valid string consumed)",
                     "unchecked iterators: skip_one_unchecked (dispatcher + string, number [found F15], literal and container branches) is proved in unit unchecked to return exactly what skip_one returns on a well-formed value followed by whitespace and `,` `]` `}` or the end; the driver contracts of parse_array_elem_lazy / parse_entry_lazy cover check == false too: the separator logic is mode-independent, and on a well-formed element followed by whitespace and `,` `]` `}` the unchecked mode yields the same item (end offset, exact span) as the checked one",
                     "LazyValue::new / JsonSlice carriers (Bytes, FastStr) are opaque (T4)"],
    "level_text": "Verus proof of the per-call contract of the array/object iterators (checked mode on every input; unchecked mode agrees with it on well-formed elements): first call demands the opening bracket, every call yields exactly the next well-formed element's span (after a correct separator / name / colon) or the end or an error, and after an error or the end the iterator yields nothing and does not move (latch); by induction over calls this is the statement",
    "level_note": "checked iterators over the bounds-checked reader; key decoding is parse_str (assumed here)",
    "technique": TECH_V,
    "explanation": "parse_array_elem_lazy / parse_entry_lazy / next_elem_impl / next_entry_impl contracts over the RFC grammar spec",
}

PROPS["C20"] = {
    "level": "proof",
    "verus": [{"unit": "errors", "rlimit": 200}, {"unit": "iterators", "rlimit": 200}, {"unit": "typed_de", "rlimit": 300}, {"unit": "typed_err", "rlimit": 200},
              {"unit": "recognisers", "rlimit": 200}, {"unit": "walkers", "rlimit": 200}, {"unit": "getmany", "rlimit": 300}, {"unit": "decoder", "rlimit": 300}, {"unit": "owned_load", "rlimit": 400}],
    "kani": K_POSITION + K_DOMENTRY,
    "syntactic": [{"name": "not-found codes are constructed only in get* functions", "fn": synt.notfound_only_in_get}],
    "trusted_base": [T1, T4, T6, VSTD,
                     "Reader::check_utf8_final / invalid_utf8: the offset reported by simdutf8 is <= len (T4) — assumed as the trait contract `err_ok`",
                     "String formatting of the snippet (from_utf8_lossy, repeat, format!) is substituted by opaque helpers; Display is not covered",
                     "errors made by serde visitors (make_error / parse_line_col) are not covered",
                     "dom_entry_error_position*: Parser::parse_dom (in-place parser) and Error::syntax enter through hand-written models of their contracts (kani::stub); TlsBuf::with_capacity is replaced by its own heap branch (Kani cannot compile the const thread_local)",
                     "StreamDeserializer::next body is verified inside an inherent impl (Verus takes no contracts on foreign-trait impls)"],
    "level_text": "Verus proof, function by function, that every error returned by the parser functions under contract (validating skipper, checked and unchecked walkers, get_many, both decoding drivers, lazy iterators, owned-lazy loader, string and number leaves, and the typed error path Parser::peek_invalid_type) is positioned inside the input (`res.is_err() ==> err_ok`: made by Parser::error / Error::syntax or repaired by fix_position); Verus proof that no error leaves the typed entry points from_trait (from_str / from_slice / from_reader) and Deserializer::deserialize (also the stream deserializer) without a position, whoever made it (parser, visitor, derived code: F23); Verus proof that every error built by the parser (Parser::error -> Error::syntax) carries an offset <= input length and exactly the line/column of that offset (Position::from_index against line_of/col_of), that the snippet window arithmetic and slicing cannot go out of bounds, that classify() yields NotFound only for the four lookup codes, and that the stream deserializer and both lazy iterators latch after an error or the end; bounded Kani proof that the whole-document DOM entry (parse_with_padding) re-locates in-place parser errors in the original text",
    "level_note": "offsets of UTF-8 errors rest on simdutf8 (T4); message text/Display not covered",
    "technique": TECH_V,
    "explanation": "err_ok(e, data) := index <= len && line == line_of(index) && column == col_of(index)",
}

PROPS["C17"] = {
    "level": "proof",
    "verus": [],
    "kani": K_SIMD + K_PXOR + K_WS[1:] + K_STR2INT,
    "syntactic": [{"name": "u8x*::gt (todo!() under sse2/avx2) has no call site", "fn": synt.u8_gt_never_called}],
    "trusted_base": [T3, KANI, "aarch64/NEON backend not covered (not this target)", "u8x*::gt is todo!() under sse2/avx2: no call site (syntactic)"],
    "level_text": "Kani/CBMC proofs over all lane contents that every vector primitive of every x86-64 backend (sse2, portable v128, avx2, portable v256, v512), prefix_xor, get_nonspace_bits and simd_str2int meets one lane-wise scalar contract; two implementations of the same functional contract are observationally equal",
    "level_note": "instructions Kani cannot execute are replaced by SDM-derived models (T3); codegen differences of target-cpu=native are not modelled",
    "technique": TECH_K,
    "explanation": "one contract per primitive, proved for each backend; the Verus units assume exactly these contracts",
}

PROPS["C09"] = {
    "level": "proof",
    "verus": [{"unit": "strings", "rlimit": 200}, {"unit": "typed_de", "rlimit": 300}],
    "kani": K_UNICODE + K_STRTAB + K_BLOCK,
    "trusted_base": [T1, T2, T3, T4, T6, T8, VSTD, KANI, PERR,
                     "parse_string_escaped / parse_escaped_char (raw writes into Vec spare capacity) and parse_string_inplace (in-place compaction over the padded buffer) are NOT under contract: their acceptance contract is assumed where callers need it",
                     "StringBlock / hex_to_u32_nocheck contracts used by the Verus unit are the ones Kani proves on the real code",
                     "lossy UTF-8 repair is String::from_utf8_lossy (T4); check_invalid_utf8 bookkeeping not covered"],
    "level_text": "Verus proof, for every input, that parse_string_raw accepts only grammar-valid literals, never rejects an escape-free well-formed literal, returns Borrowed exactly when the literal contains no backslash and then exactly the bytes between the quotes; that parse_escaped_utf8 equals the RFC 8259 reference (BMP scalar, surrogate pair -> supplementary, unpaired surrogate -> reject or U+FFFD consuming nothing else in lossy mode); Kani/CBMC complete proofs of the decoding kernels (hex quad, UTF-8 encoder, in-place \\u handler, escape table, 32-lane block classification)",
    "level_note": "the copying/in-place decoders' pointer loops are outside; independence from length/offset rests on the per-block proofs",
    "technique": TECH_VK,
    "explanation": "parse_string_raw / parse_escaped_utf8 contracts + decoding kernels equal to RFC reference definitions on their full domains",
}

PROPS["C10"] = {
    "level": "proof",
    "verus": [{"unit": "walkers", "rlimit": 200}, {"unit": "unchecked", "rlimit": 400}, {"unit": "walkers_unchecked", "rlimit": 400}, {"unit": "container", "rlimit": 400}],
    "kani": K_BITS + K_PXOR + K_STRBITS + K_UNCHECKED,
    "trusted_base": [T1, T2, T3, T4, T6, T8, VSTD, KANI, PERR,
                     "skip_string_unchecked is proved for every WELL-FORMED literal (its unsafe contract); nothing is claimed for it on malformed input",
                     "skip_container / skip_container_loop (bracket counting over 64-bit masks, zero-padded tail) are proved in unit container against the scalar bracket scan (specs/scan.rs), and theorem_container_scan (specs/scan_grammar.rs, proved by induction over the grammar) shows that this scan closes exactly at the grammar's end of a well-formed container; the walker units use skip_container through that contract; ASSUMED there: get_string_bits' contract (= Kani harness string_bits_all, all 64-byte blocks x 4 carry states), u64::count_ones == population count, the 64-lane vector contracts (T2), copy_prefix (slice copy helper); declared substitutions in the two functions: mask temporaries named (`let rm = ..bitmask(); let mut rbrace = rm & !instring`), `lbrace_num < rbrace_num` on the references -> on the values, debug_assert_eq! -> debug_assert!, reader alias, as_array64, `remain[..n].copy_from_slice(..unwrap_unchecked())` -> copy_prefix; get_next_token is proved in unit unchecked (the other units use that contract), with a bounded Kani twin in the thorough tier; three declared substitutions in get_next_token: `r` alias of self.read, `tokens.iter().take(N)` -> `tokens.iter()` (N is the array length), `vor |= x` -> `vor = vor | x` (both operators are proved equal lane-wise under C17)",
                     "decoded()/decodable() of member names are uninterpreted in unit walkers (decoder contracts: C09)"],
    "level_text": "Verus proof that the checked walkers get_from_object_checked / get_from_array_checked stop exactly at the value of the FIRST member whose decoded name equals the key (resp. the i-th element) and only after a well-formed prefix (object_lookup / array_lookup specs); Verus proof that the UNCHECKED walkers get_from_object / get_from_array, started on a well-formed value, give the same answer as the checked ones (same lookup specs); that the bitmap container skipper skip_container / skip_container_loop stops exactly at the closing bracket of its scalar definition, which is the grammar's (theorem_container_scan); that skip_one_unchecked returns exactly what skip_one returns on a well-formed value; Verus proof that skip_string_unchecked — 32-lane loop with the escape carry, early-exit test and scalar tail — and skip_number_unsafe end on every well-formed literal of any length exactly where the validating skipper ends, with the same escape status; Kani/CBMC complete proofs of the unchecked skipper's bit kernels (escaped bits with carry, prefix xor, the 64-byte in-string mask with both carries)",
    "level_note": "unchecked side: walkers, dispatcher skip_one_unchecked, string / number / container skippers and the token search are all proved to agree with the validating code on well-formed input; the 64-byte in-string mask kernel enters through its Kani-proved contract; get_from_with_iter's generic path loop and the input carriers are not under contract",
    "technique": TECH_K,
    "explanation": "bit kernels of the unchecked skipper equal their scalar definitions",
}

PROPS["C05"] = {
    "level": "proof",
    "verus": [{"unit": "formatter", "rlimit": 200}, {"unit": "serializer", "rlimit": 300}],
    "kani": K_QUOTE + K_FORMAT,
    "trusted_base": [KANI, T4, VSTD,
                     "unit formatter: std::io::Write enters as a trait with a ghost byte sequence and the contract of write_all (all bytes on Ok, a prefix on Err); the Formatter trait's default methods are verified inside an inherent impl of CompactFormatter (which uses them unchanged); declared substitution: every byte-string literal b\"..\" becomes the equal array literal (this Verus build gives byte-string literals no value)",
                     "format_string / escape_unchecked (pointer loops, outside the Verus subset): only the bounded Kani twins format_string_len1 / len2 (thorough tier, ~5 min each; check_cross_page stubbed by an arbitrary answer — both answers take the same path under debug_assertions — and fmt::format stubbed) — the 32-lane block loop (strings >= 32 bytes) is NOT decided; NOT under contract: the reserve/commit protocol of WriteExt, MapKeySerializer, SerializeStruct / tuple / variant framing (they delegate to the proved seq / map functions or to serde's default serialize_entry), number formatting (itoa / ryu: T4)",
                     "unit serializer: the formatter and the element / key / value serializers are arbitrary programs — they enter as traits whose only assumed behaviour is: a successful call appends its own events to a ghost call trace, a failed call sets a ghost `failed` flag; declared substitutions: `.map_err(Error::io)` -> `.map_io()` (same Ok/Err), `self` -> `&'a mut self` and `Self::SerializeSeq/Map` -> `Compound<'a, W, F>` (the two methods of `impl ser::Serializer for &mut Serializer` are re-hosted on an inherent impl), `fn end` -> `fn end_seq` / `fn end_map`, `*state == State::First` -> `matches!(*state, State::First)`, `key.serialize(MapKeySerializer { ser: *ser })` -> `key.serialize_as_key(&mut **ser)`; the link from the compound back to its serializer uses Verus' prophetic `mut_ref_future`"],
    "level_text": "Verus proof that the compound state machine (Serializer::serialize_seq / serialize_map, Compound::serialize_element / serialize_key / serialize_value / end) drives exactly the prescribed call sequence into the formatter — Begin, (BeginValue(first) element EndValue)*, End; a container announced empty is closed at once and only then; a failure of any formatter call or element is returned, never swallowed; Verus proof that every control-character method of the compact formatter (Formatter's default methods) and of PrettyFormatter, and `indent`, writes exactly the prescribed bytes (brackets, commas, colon; pretty: newline + indent x depth, `: `, empty containers closed at once) and that on a writer error the error is returned and what was written is a prefix of those bytes; Kani/CBMC complete proofs of the escaper tables (QUOTE_TAB, NEED_ESCAPED == RFC 8259) and the page-crossing guard",
    "level_note": "compound sequencing + per-method layout + tables + guard; the string escaper loop, the writer reserve/commit protocol and the map-key serializer are not decided",
    "technique": TECH_VK,
    "explanation": "wrote(out, out', bytes, ok): out' == out + bytes on Ok, out + prefix(bytes) on Err; every table row equals the RFC escape of its byte",
}

NOT_APPLICABLE = {
    "C06": "whole-pipeline fixpoint law (parser o DOM o serializer, three build configurations); not a per-function contract; ingredients proved under C02/C05/C08",
    "C11": "the statement relates every slot to the result of a single-path get for the path that was added i-th: that needs a specification of the path trie (PointerTree = nested std HashMap<FastStr,_> built through the entry API, per-node `order` lists), which Verus cannot take (no spec for std HashMap entry API) and CBMC cannot finish (SipHash HashMap + parser); with the trie opaque, what a contract CAN state about the real get_many walkers — every filled slot is the exact span of a well-formed value, the remain counter is exact, never underflows, a finished walker has validated its container — is proved in unit getmany and claimed under C14 / C01 (findings F11-F13); get_by_schema_rec works on the mutable DOM (C15 obstacles)",
    "C15": "Value is a tagged union of raw pointers/Arc<Vec>/Arc<AHashMap> with copy-on-write promotion and ref_cast facades; cannot be specified in Verus without replacing it by a model; bounded Kani histories hit the 6-38 GB class",
    "C16": "a whole-history property (every clone / take / drop order, from any thread) over a manual reference count kept through raw Arc pointers in tagged nodes (Arc::from_raw / increment_strong_count, bumpalo arena, ManuallyDrop unions, a thread-local node buffer): Kani has no threads and cannot compile the thread_local used by the parser (internal compiler error), a bounded single-thread history over real parsed Values does not finish in CBMC (DOM parse + bumpalo + Arc), Verus has no permission model for this raw-pointer code without replacing it by a model; the packing/tag kernels it depends on (Meta::pack_*/unpack_*, root tags) are proved under C03",
    "C19": "quantifies over programs (Serialize/Deserialize impls) and relates two serde back ends plus AHashMap-backed equality; same obstacles as C15 (C04 is claimed per entry point only)",
}
