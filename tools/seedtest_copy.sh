#!/bin/sh
# usage: tools/seedtest_copy.sh <patch.diff> <ID> [<ID>...] — like seedtest.sh, but on a scratch copy of /repo
# (VERIF_REPO), so that /repo itself stays untouched while other checks run against it
p=$1; shift
sc=/var/tmp/sonic-seedrepo-$$
rm -rf "$sc"; rsync -a --exclude target --exclude .git /repo/ "$sc"/ || exit 9
(cd "$sc" && patch -s -p1 < "$p") || { echo "patch does not apply"; rm -rf "$sc"; exit 9; }
for id in "$@"; do
  (cd /verif && VERIF_REPO="$sc" VERIF_EVIDENCE_DIR=/verif/.work/seed-evidence ./check $id --tier quick > /verif/.work/seed_$id.out 2>/dev/null; rc=$?; grep -v "^KNOWN-FINDING" /verif/.work/seed_$id.out | tail -4; echo "  -> $id exit $rc")
done
rm -rf "$sc"
