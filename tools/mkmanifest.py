#!/usr/bin/env python3
"""Generate MANIFEST.json from tools/props.py (claimed checks) + NOT_APPLICABLE below."""
import json, os, sys
HERE = os.path.dirname(os.path.abspath(__file__))
sys.path.insert(0, HERE)
import props

M = {
    "version": 1,
    "setup_cmd": "true",
    "hooks": {
        "guard": "kani",
        "enable": "no source hooks: Verus units are extracted from /repo on every run; Kani harness modules (#[cfg(kani)]) are appended to a scratch copy of the working tree under /var/tmp/sonic-verif, never written to /repo",
        "baseline_off_cmd": "cd /repo && cargo test --workspace --no-fail-fast --offline",
        "source_commits": [],
        "add_only": True,
    },
    "engines": [
        {"name": "verus-units", "path": "/verif/units", "kind_free_text": "Verus 0.2026.09.13 (Z3) on functions extracted verbatim from /repo and spliced with contracts (tools/rsx.py, insert-only + logged substitutions, round-trip guard)",
         "serves_properties": sorted(p for p, v in props.PROPS.items() if v.get("verus"))},
        {"name": "kani-harnesses", "path": "/verif/kani", "kind_free_text": "Kani 0.68 / CBMC 6.11 harness modules appended to a scratch copy of the real crate; loop-free full-domain harnesses are complete proofs, bounded ones are labelled bounded(N) and not counted",
         "serves_properties": sorted(p for p, v in props.PROPS.items() if v.get("kani"))},
    ],
    "checks": [],
    "not_applicable": [],
    "notes": "Contract-based deductive verification (Verus + Kani). exit 2 = UNDECIDED (anchor lost / tool limit), never an alarm. Known findings: /verif/KNOWN_FINDINGS.txt. See DESIGN.md.",
}
for pid in sorted(props.PROPS):
    P = props.PROPS[pid]
    M["checks"].append({
        "property_id": pid,
        "quick_cmd": f"./check {pid} --tier quick",
        "thorough_cmd": f"./check {pid} --tier thorough",
        "evidence_file": f"/verif/evidence/{pid}.json",
        "replay_cmd_template": "cat {path}",
        "engine": "+".join((["verus-units"] if P.get("verus") else []) + (["kani-harnesses"] if P.get("kani") else [])),
        "level_claimed": {"category": P.get("level", "proof"), "text": P["level_text"], "design_ref": P.get("design_ref", "DESIGN.md §6 " + pid)},
        "level_note": P["level_note"],
        "technique": P["technique"],
    })
for pid, reason in sorted(props.NOT_APPLICABLE.items()):
    if pid not in props.PROPS:
        M["not_applicable"].append({"property_id": pid, "reason": reason})
allp = [json.loads(l)["id"] for l in open(os.path.join(os.path.dirname(HERE), "properties.jsonl"))]
for pid in allp:
    if pid not in props.PROPS and pid not in props.NOT_APPLICABLE:
        M["not_applicable"].append({"property_id": pid, "reason": "check not built yet (planned in DESIGN.md §6; not claimed until its obligations are discharged on the unchanged tree)"})
json.dump(M, open(os.path.join(os.path.dirname(HERE), "MANIFEST.json"), "w"), indent=1)
print("checks:", [c["property_id"] for c in M["checks"]], "n/a:", [n["property_id"] for n in M["not_applicable"]])
