use vstd::prelude::*;
verus! {

#[derive(Debug)] pub enum ErrorCode { InvalidNumber, EofWhileParsing }
#[derive(Debug)] pub struct Error { pub code: ErrorCode }
use ErrorCode::*;
pub type Result<T> = core::result::Result<T, Error>;

pub assume_specification [u8::is_ascii_digit] (c: &u8) -> (r: bool)
    ensures r == is_digit(*c);

pub open spec fn is_digit(c: u8) -> bool { 0x30 <= c <= 0x39 }

// ---- bit helpers
pub open spec fn bit32(m: u32, j: int) -> bool { 0 <= j < 32 && ((m >> (j as u32)) & 1u32) == 1u32 }

// ---- SIMD stubs (assumed contracts; proved separately by Kani on sonic-simd)
pub struct i8x32 { pub lanes: Seq<u8> }
pub struct m8x32 { pub lanes: Seq<bool> }

impl i8x32 {
    pub const LANES: usize = 32;
    #[verifier::external_body]
    pub unsafe fn from_slice_unaligned_unchecked(slice: &[u8]) -> (v: Self)
        requires slice@.len() >= 32,
        ensures v.lanes == slice@.subrange(0, 32),
    { unimplemented!() }
    #[verifier::external_body]
    pub fn splat(elem: i8) -> (v: Self)
        ensures v.lanes == Seq::new(32, |i: int| elem as u8),
    { unimplemented!() }
    #[verifier::external_body]
    pub fn gt(&self, rhs: &Self) -> (m: m8x32)
        requires self.lanes.len() == 32, rhs.lanes.len() == 32,
        ensures m.lanes == Seq::new(32, |i: int| (self.lanes[i] as i8) > (rhs.lanes[i] as i8)),
    { unimplemented!() }
}
impl m8x32 {
    #[verifier::external_body]
    pub fn bitmask(self) -> (b: u32)
        requires self.lanes.len() == 32,
        ensures forall|i: int| 0 <= i < 32 ==> #[trigger] bit32(b, i) == self.lanes[i],
    { unimplemented!() }
}
impl vstd::std_specs::ops::BitOrSpecImpl for m8x32 {
    open spec fn obeys_bitor_spec() -> bool { false }
    open spec fn bitor_req(self, rhs: Self) -> bool { self.lanes.len() == 32 && rhs.lanes.len() == 32 }
    open spec fn bitor_spec(self, rhs: Self) -> Self { arbitrary() }
}
impl core::ops::BitOr for m8x32 {
    type Output = m8x32;
    #[verifier::external_body]
    fn bitor(self, rhs: Self) -> (m: m8x32)
        ensures m.lanes == Seq::new(32, |i: int| self.lanes[i] || rhs.lanes[i]),
    { unimplemented!() }
}

pub trait Reader<'de> {
    spec fn data(&self) -> Seq<u8>;
    spec fn idx(&self) -> nat;
    spec fn wf(&self) -> bool;

    fn peek(&self) -> (r: Option<u8>)
        requires self.wf(),
        ensures
            self.idx() < self.data().len() ==> r == Some(self.data()[self.idx() as int]),
            self.idx() >= self.data().len() ==> r.is_none();

    fn peek_n(&self, n: usize) -> (r: Option<&'de [u8]>)
        requires self.wf(),
        ensures
            self.idx() + n <= self.data().len() ==> r.is_some() && r.unwrap()@ == self.data().subrange(self.idx() as int, self.idx() + n),
            self.idx() + n > self.data().len() ==> r.is_none();

    fn eat(&mut self, n: usize)
        requires old(self).wf(), old(self).idx() + n <= old(self).data().len(),
        ensures final(self).wf(), final(self).data() == old(self).data(), final(self).idx() == old(self).idx() + n;

    fn next(&mut self) -> (r: Option<u8>)
        requires old(self).wf(),
        ensures final(self).wf(), final(self).data() == old(self).data(),
            old(self).idx() < old(self).data().len() ==> r == Some(old(self).data()[old(self).idx() as int]) && final(self).idx() == old(self).idx() + 1,
            old(self).idx() >= old(self).data().len() ==> r.is_none() && final(self).idx() == old(self).idx();
}

pub struct Parser<R> { pub read: R }

macro_rules! perr {
    ($self:ident, $err:expr) => {{
        Err($self.error($err))
    }};
}

// ===== RFC 8259 number grammar (spec)
pub open spec fn digits_end(s: Seq<u8>, i: int) -> int
    decreases s.len() - i
{
    if 0 <= i < s.len() && is_digit(s[i]) { digits_end(s, i + 1) } else { i }
}
pub open spec fn at(s: Seq<u8>, i: int, c: u8) -> bool { 0 <= i < s.len() && s[i] == c }
pub open spec fn dig_at(s: Seq<u8>, i: int) -> bool { 0 <= i < s.len() && is_digit(s[i]) }

// exponent part starting right after 'e'/'E'
pub open spec fn exp_end(s: Seq<u8>, q: int) -> Option<int> {
    let q1 = if at(s, q, 0x2d) || at(s, q, 0x2b) { q + 1 } else { q };
    if dig_at(s, q1) { Some(digits_end(s, q1)) } else { None }
}
// after the integer part
pub open spec fn frac_exp_end(s: Seq<u8>, p2: int) -> Option<int> {
    if at(s, p2, 0x2e) {
        if dig_at(s, p2 + 1) {
            let p3 = digits_end(s, p2 + 1);
            if at(s, p3, 0x65) || at(s, p3, 0x45) { exp_end(s, p3 + 1) } else { Some(p3) }
        } else { None }
    } else if at(s, p2, 0x65) || at(s, p2, 0x45) { exp_end(s, p2 + 1) } else { Some(p2) }
}
// p1: index of the first digit
pub open spec fn unsigned_end(s: Seq<u8>, p1: int) -> Option<int> {
    if !dig_at(s, p1) { None }
    else if s[p1] == 0x30 {
        if dig_at(s, p1 + 1) { None } else { frac_exp_end(s, p1 + 1) }
    } else { frac_exp_end(s, digits_end(s, p1)) }
}
pub open spec fn number_end(s: Seq<u8>, p: int) -> Option<int> {
    if at(s, p, 0x2d) { unsigned_end(s, p + 1) } else { unsigned_end(s, p) }
}


pub open spec fn tail(s: Seq<u8>, i: int, fl: bool) -> Option<int> {
    let d = digits_end(s, i);
    if !fl { frac_exp_end(s, d) } else if at(s, d, 0x65) || at(s, d, 0x45) { exp_end(s, d + 1) } else { Some(d) }
}
pub proof fn lemma_digits_run(s: Seq<u8>, i: int, k: int)
    requires 0 <= i, 0 <= k, i + k <= s.len(), forall|j: int| i <= j < i + k ==> is_digit(#[trigger] s[j]),
    ensures digits_end(s, i) == digits_end(s, i + k),
    decreases k
{
    if k > 0 { lemma_digits_run(s, i + 1, k - 1); }
}
pub proof fn lemma_tz32(m: u32)
    requires m != 0
    ensures ({ let c = vstd::std_specs::bits::u32_trailing_zeros(m) as int; 0 <= c < 32 && bit32(m, c) && forall|j: int| 0 <= j < c ==> !bit32(m, j) })
{
    vstd::std_specs::bits::axiom_u32_trailing_zeros(m);
}
pub proof fn lemma_zero32(j: u32)
    requires j < 32
    ensures !bit32(0u32, j as int)
{
    assert(((0u32 >> j) & 1u32) == 0u32) by (bit_vector);
}
pub proof fn lemma_shr32(m: u32, c: u32, k: u32)
    requires c < 32, k < 32,
    ensures bit32(m >> c, k as int) == (k + c < 32 && bit32(m, (k + c) as int)),
{
    assert((((m >> c) >> k) & 1u32) == 1u32 <==> (k + c < 32 && ((m >> ((k + c) as u32)) & 1u32) == 1u32)) by (bit_vector)
        requires c < 32, k < 32;
}

impl<'de, R: Reader<'de>> Parser<R> {
    #[verifier::external_body]
    pub fn error(&self, reason: ErrorCode) -> (e: Error) { Error { code: reason } }

    #[inline(always)]
    fn skip_single_digit(&mut self) -> (res: Result<u8>)
        requires old(self).read.wf(),
        ensures final(self).read.wf(), final(self).read.data() == old(self).read.data(),
            res.is_ok() <==> dig_at(old(self).read.data(), old(self).read.idx() as int),
            res.is_ok() ==> final(self).read.idx() == old(self).read.idx() + 1 && res.unwrap() == old(self).read.data()[old(self).read.idx() as int],
    {
        if let Some(ch) = self.read.next() {
            if !ch.is_ascii_digit() {
                perr!(self, InvalidNumber)
            } else {
                Ok(ch)
            }
        } else {
            perr!(self, EofWhileParsing)
        }
    }

    #[inline(always)]
    fn skip_exponent(&mut self) -> (res: Result<()>)
        requires old(self).read.wf(),
        ensures final(self).read.wf(), final(self).read.data() == old(self).read.data(),
            res.is_ok() <==> exp_end(old(self).read.data(), old(self).read.idx() as int).is_some(),
            res.is_ok() ==> final(self).read.idx() == exp_end(old(self).read.data(), old(self).read.idx() as int).unwrap(),
    {
        if let Some(ch) = self.read.peek() {
            if ch == b'-' || ch == b'+' {
                self.read.eat(1);
            }
        }
        self.skip_single_digit()?;
        // skip the remaining digits
        while matches!(self.read.peek(), Some(b'0'..=b'9')) 
            invariant self.read.wf(), self.read.data() == old(self).read.data(),
             
              exp_end(old(self).read.data(), old(self).read.idx() as int) == Some(digits_end(self.read.data(), self.read.idx() as int)),
            decreases self.read.data().len() - self.read.idx(),
        {
            self.read.eat(1);
        }
        Ok(())
    }

    #[inline(always)]
    pub(crate) fn do_skip_number(&mut self, mut first: u8) -> (res: Result<()>)
        requires old(self).read.wf(), old(self).read.idx() >= 1,
            old(self).read.idx() <= old(self).read.data().len(),
            first == old(self).read.data()[old(self).read.idx() - 1],
            first == 0x2d || is_digit(first),
        ensures final(self).read.wf(), final(self).read.data() == old(self).read.data(),
            res.is_ok() <==> number_end(old(self).read.data(), old(self).read.idx() - 1).is_some(),
            res.is_ok() ==> final(self).read.idx() == number_end(old(self).read.data(), old(self).read.idx() - 1).unwrap(),
    {
        // check eof after the sign
        if first == b'-' {
            first = self.skip_single_digit()?;
        }

        // check the leading zeros
        let second = self.read.peek();
        if first == b'0' && matches!(second, Some(b'0'..=b'9')) {
            return perr!(self, InvalidNumber);
        }

        // fast path for the single digit
        let mut is_float: bool = false;
        match second {
            Some(b'0'..=b'9') => self.read.eat(1),
            Some(b'.') => {
                is_float = true;
                self.read.eat(1);
                self.skip_single_digit()?;
            }
            Some(b'e' | b'E') => {
                self.read.eat(1);
                return self.skip_exponent();
            }
            _ => return Ok(()),
        }

        // SIMD path for long number
        const LANES: usize = i8x32::LANES;
        while let Some(chunk) = self.read.peek_n(LANES)
            invariant self.read.wf(), self.read.data() == old(self).read.data(),
                self.read.idx() <= self.read.data().len(),
                number_end(old(self).read.data(), old(self).read.idx() - 1) == tail(self.read.data(), self.read.idx() as int, is_float),
            decreases self.read.data().len() - self.read.idx(),
        {
            let ghost base = self.read.idx() as int;
            let ghost dat = self.read.data();
            let v = unsafe { i8x32::from_slice_unaligned_unchecked(chunk) };
            let zero = i8x32::splat(b'0' as i8);
            let nine = i8x32::splat(b'9' as i8);
            let mut nondigits = (zero.gt(&v) | v.gt(&nine)).bitmask();
            proof {
                assert forall|j: int| 0 <= j < 32 implies bit32(nondigits, j) == !is_digit(#[trigger] chunk@[j]) by {
                    assert(v.lanes[j] == chunk@[j]);
                    assert(zero.lanes[j] == 48u8);
                    assert(nine.lanes[j] == 57u8);
                    assert((48u8 as i8) == 48i8);
                    let x = chunk@[j];
                    assert(((48i8 > (x as i8)) || ((x as i8) > 57i8)) == !is_digit(x)) by (bit_vector);
                }
            }
            proof {
                assert forall|j: int| self.read.idx() <= j < self.read.idx() + 32 implies is_digit(#[trigger] self.read.data()[j]) == !bit32(nondigits, j - self.read.idx()) by {
                    assert(self.read.data()[j] == chunk@[j - self.read.idx()]);
                }
            }
            if nondigits != 0 {
                let mut cnt = nondigits.trailing_zeros() as usize;
                proof {
                    lemma_tz32(nondigits);
                    lemma_digits_run(self.read.data(), self.read.idx() as int, cnt as int);
                }
                let ch = chunk[cnt];
                if ch == b'.' && !is_float {
                    self.read.eat(cnt + 1);
                    // check the first digit after the dot
                    self.skip_single_digit()?;

                    // check the overflow
                    cnt += 2;
                    if cnt >= LANES {
                        is_float = true;
                        continue;
                    }

                    let ghost nd0 = nondigits;
                    nondigits = nondigits.wrapping_shr(cnt as u32);
                    proof {
                        assert forall|k: int| 0 <= k < 32 implies bit32(nondigits, k) == (k + cnt < 32 && bit32(nd0, k + cnt)) by {
                            lemma_shr32(nd0, cnt as u32, k as u32);
                        }
                    }
                    if nondigits != 0 {
                        let offset = nondigits.trailing_zeros() as usize;
                        proof {
                            lemma_tz32(nondigits);
                            assert(self.read.idx() == base + cnt);
                            assert forall|j: int| base + cnt <= j < base + cnt + offset implies is_digit(#[trigger] dat[j]) by {
                                assert(!bit32(nondigits, j - base - cnt));
                                assert(!bit32(nd0, j - base));
                            }
                            assert(!is_digit(dat[base + cnt + offset])) by {
                                assert(bit32(nondigits, offset as int));
                                assert(bit32(nd0, offset + cnt));
                            }
                            lemma_digits_run(dat, base + cnt, offset as int);
                        }
                        let ch = chunk[cnt + offset];
                        if ch == b'e' || ch == b'E' {
                            self.read.eat(offset + 1);
                            return self.skip_exponent();
                        } else {
                            self.read.eat(offset);
                            return Ok(());
                        }
                    } else {
                        proof {
                            assert(self.read.idx() == base + cnt);
                            assert forall|j: int| base + cnt <= j < base + 32 implies is_digit(#[trigger] dat[j]) by {
                                lemma_zero32((j - base - cnt) as u32);
                                assert(!bit32(nondigits, j - base - cnt));
                                assert(!bit32(nd0, j - base));
                            }
                            lemma_digits_run(dat, base + cnt, 32 - cnt);
                        }
                        self.read.eat(32 - cnt);
                        is_float = true;
                        continue;
                    }
                } else if ch == b'e' || ch == b'E' {
                    self.read.eat(cnt + 1);
                    return self.skip_exponent();
                } else {
                    self.read.eat(cnt);
                    return Ok(());
                }
            }
            // long digits
            proof {
                assert forall|j: int| 0 <= j < 32 implies !bit32(nondigits, j) by {
                    lemma_zero32(j as u32);
                }
                lemma_digits_run(self.read.data(), self.read.idx() as int, 32);
            }
            self.read.eat(32);
        }

        // has less than 32 bytes
        while matches!(self.read.peek(), Some(b'0'..=b'9'))
            invariant self.read.wf(), self.read.data() == old(self).read.data(),
                self.read.idx() <= self.read.data().len(),
                number_end(old(self).read.data(), old(self).read.idx() - 1) == tail(self.read.data(), self.read.idx() as int, is_float),
            decreases self.read.data().len() - self.read.idx(),
        {
            self.read.eat(1);
        }

        match self.read.peek() {
            Some(b'.') if !is_float => {
                self.read.eat(1);
                self.skip_single_digit()?;
                while matches!(self.read.peek(), Some(b'0'..=b'9'))
            invariant self.read.wf(), self.read.data() == old(self).read.data(),
                self.read.idx() <= self.read.data().len(),
                number_end(old(self).read.data(), old(self).read.idx() - 1) == tail(self.read.data(), self.read.idx() as int, true),
            decreases self.read.data().len() - self.read.idx(),
                {
                    self.read.eat(1);
                }
                match self.read.peek() {
                    Some(b'e' | b'E') => {
                        self.read.eat(1);
                        return self.skip_exponent();
                    }
                    _ => return Ok(()),
                }
            }
            Some(b'e' | b'E') => {
                self.read.eat(1);
                return self.skip_exponent();
            }
            _ => {}
        }
        Ok(())
    }
}

} // verus!
fn main() {}
