use sonic_rs::{Deserializer, JsonValueMutTrait, JsonValueTrait, JsonContainerTrait, LazyValue, OwnedLazyValue, Value, PointerNode, pointer};
use std::panic::{catch_unwind, AssertUnwindSafe};
static mut P: usize = 0;
fn guard<F: FnOnce()>(what: &str, s: &[u8], f: F) {
    if catch_unwind(AssertUnwindSafe(f)).is_err() { unsafe { P += 1; if P < 40 { println!("PANIC {} on {:?}", what, String::from_utf8_lossy(s)); } } }
}
fn all(b: &[u8]) {
    guard("from_slice::<Value>", b, || { if let Ok(v) = sonic_rs::from_slice::<Value>(b) { let _ = sonic_rs::to_string(&v); let _ = format!("{:?}", v); let _ = v.get("a"); let _ = v.pointer(&pointer!["a", 0]); let mut w = v.clone(); if let Some(o) = w.as_object_mut() { o.insert(&"k", 1); o.remove(&"a"); } if let Some(a) = w.as_array_mut() { a.push(1); a.pop(); a.pop(); } let _ = sonic_rs::to_string_pretty(&w); } });
    guard("from_slice::<LazyValue>", b, || { if let Ok(v) = sonic_rs::from_slice::<LazyValue>(b) { let _ = v.as_raw_str(); let _ = v.get_type(); let _ = v.as_str(); let _ = v.as_f64(); let _ = v.as_raw_number(); let _ = sonic_rs::to_string(&v); } });
    guard("from_slice::<OwnedLazyValue>", b, || { if let Ok(mut v) = sonic_rs::from_slice::<OwnedLazyValue>(b) { let _ = v.get("a").map(|x| x.as_str().map(|s| s.len())); let _ = v.get(0).is_some(); let _ = v.as_f64(); let _ = v.as_str(); if let Some(a) = v.as_array_mut() { let _ = a.len(); } if let Some(o) = v.as_object_mut() { let _ = o.len(); } let c = v.clone(); let _ = sonic_rs::to_string(&c); let _ = sonic_rs::to_string(&v); } });
    guard("get", b, || { let _ = sonic_rs::get(b, &["a"]); let _ = sonic_rs::get(b, &pointer![0]); let _ = sonic_rs::get(b, &pointer!["a", 0, "b"]); let _ = sonic_rs::get(b, &pointer![1, "a"]); let e: [&str; 0] = []; let _ = sonic_rs::get(b, &e); });
    guard("get_many", b, || { let mut t = sonic_rs::PointerTree::new(); t.add_path(&["a"]); t.add_path(&pointer!["a", 0]); t.add_path(&pointer!["b", "c"]); t.add_path(&["a"]); let _ = sonic_rs::get_many(b, &t); let mut t = sonic_rs::PointerTree::new(); t.add_path(&pointer![0]); t.add_path(&pointer![1, 2]); t.add_path(&pointer![1, 0, "a"]); let _ = sonic_rs::get_many(b, &t); let t = sonic_rs::PointerTree::new(); let _ = sonic_rs::get_many(b, &t); });
    guard("iters", b, || { for x in sonic_rs::to_array_iter(b) { if let Ok(v) = x { let _ = v.as_raw_str(); } } for x in sonic_rs::to_object_iter(b) { if let Ok((k, v)) = x { let _ = (k.len(), v.as_raw_str()); } } });
    guard("stream", b, || { let st = Deserializer::from_slice(b).into_stream::<Value>(); for x in st.take(5) { let _ = x.map(|v| v.to_string()); } let st = Deserializer::from_slice(b).into_stream::<LazyValue>(); for x in st.take(5) { let _ = x.map(|v| v.as_raw_str().len()); } });
    guard("lossy", b, || { let r: Result<Value, _> = Deserializer::from_slice(b).utf8_lossy().deserialize(); let _ = r.map(|v| v.to_string()); let r: Result<String, _> = Deserializer::from_slice(b).utf8_lossy().deserialize(); let _ = r; let st = Deserializer::from_slice(b).utf8_lossy().into_stream::<Value>(); for x in st.take(4) { let _ = x.map(|v| v.to_string()); } });
    guard("rawnumber", b, || { let r: Result<Value, _> = Deserializer::from_slice(b).use_rawnumber().deserialize(); let _ = r.map(|v| (v.to_string(), v.as_f64(), v.as_raw_number())); });
    guard("from_reader", b, || { let _ = sonic_rs::from_reader::<_, Value>(b); let _ = sonic_rs::from_reader::<_, Vec<OwnedLazyValue>>(b); });
    guard("typed", b, || { let _ = sonic_rs::from_slice::<Vec<u8>>(b); let _ = sonic_rs::from_slice::<std::collections::HashMap<String, Value>>(b); let _ = sonic_rs::from_slice::<(i8, String)>(b); let _ = sonic_rs::from_slice::<sonic_rs::Number>(b); let _ = sonic_rs::from_slice::<sonic_rs::RawNumber>(b); let _ = sonic_rs::from_slice::<sonic_rs::Object>(b); let _ = sonic_rs::from_slice::<sonic_rs::Array>(b); let _ = sonic_rs::from_slice::<f32>(b); let _ = sonic_rs::from_slice::<i128>(b); });
    if let Ok(s) = std::str::from_utf8(b) { if sonic_rs::from_str::<serde::de::IgnoredAny>(s).is_ok() {
        guard("unchecked", b, || unsafe { let _ = sonic_rs::get_unchecked(s, &["a"]); let _ = sonic_rs::get_unchecked(s, &pointer![0, "a"]); for x in sonic_rs::to_array_iter_unchecked(s) { let _ = x; } for x in sonic_rs::to_object_iter_unchecked(s) { let _ = x; } let mut t = sonic_rs::PointerTree::new(); t.add_path(&["a"]); t.add_path(&pointer!["b", 0]); let _ = sonic_rs::get_many_unchecked(s, &t); let _ = sonic_rs::from_slice_unchecked::<Value>(b); });
    } }
}
fn main() {
    std::panic::set_hook(Box::new(|_| {}));
    let toks: &[&str] = &["{", "}", "[", "]", ",", ":", "\"a\"", "\"b\"", "\"\"", "\"\\u0041\"", "\"\\ud800\"", "\"\\ud83d\\ude00\"", "\"é\"", "\"\\n\"", "\"\\\"", "1", "-1", "0", "1.5", "1e2", "-0", "1e400", "123456789012345678901234567890", "0.000000000000000000000000000001e-400", "true", "false", "null", " ", "\n", "\t", "nul", "01", "1.", "-", "\"", "\\", "\u{0}", "tru", "é", "\"\u{1}\""];
    let n: usize = std::env::args().nth(1).map(|s| s.parse().unwrap()).unwrap_or(3);
    fn rec(toks: &[&str], cur: &mut String, depth: usize, n: usize) { all(cur.as_bytes()); if depth == n { return; } for t in toks { let l = cur.len(); cur.push_str(t); rec(toks, cur, depth + 1, n); cur.truncate(l); } }
    rec(toks, &mut String::new(), 0, n);
    // byte-level mutations of seeds, incl. invalid UTF-8 and long strings crossing SIMD blocks
    let long = format!("{{\"a\":[{}],\"b\":{{\"c\":\"{}\\n{}\"}},\"k\":{}}}", (0..40).map(|i| i.to_string()).collect::<Vec<_>>().join(" , "), "x".repeat(70), "y".repeat(70), "1".repeat(70));
    let seeds: Vec<Vec<u8>> = vec![br#"{"a":[1,{"b":null}],"b":{"c":"d"},"x":1.5e3}"#.to_vec(), br#"[{"a":1},{"a":"\u00e9\n"},[[[]]],"",-0.0]"#.to_vec(), long.into_bytes(), b"  [1 , 2 ]  ".to_vec(), br#"{"a":{"a":{"a":{"a":[0,[0,[0]]]}}}}"#.to_vec()];
    let ins: &[&[u8]] = &[b"", b"\xff", b"\xc3", b"\xf0\x9f", b"\"", b"\\", b"\\u", b"\\ud83d", b"[", b"]", b"{", b"}", b",", b":", b" ", b"-", b"e", b".", b"0", b"\x00", b"\x1f", b"\x7f"];
    for s in &seeds { for i in 0..=s.len() { for x in ins { let mut m = s[..i].to_vec(); m.extend_from_slice(x); m.extend_from_slice(&s[i..]); all(&m); } for j in i+1..=(i+2).min(s.len()) { let mut m = s[..i].to_vec(); m.extend_from_slice(&s[j..]); all(&m); } if i < s.len() { for r in [b'"', b'\\', b'[', b'{', 0xffu8, b' '] { let mut m = s.clone(); m[i] = r; all(&m); } all(&s[..i]); } } }
    println!("panics={}", unsafe { P });
}
