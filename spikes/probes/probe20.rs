use std::collections::BTreeMap;
use serde::Deserialize;
#[derive(Debug, PartialEq, Deserialize, PartialOrd, Ord, Eq)] enum K { A, B }
#[derive(Debug, PartialEq, Deserialize)] enum E { U, N(i32), T(i32, bool), S { a: i32 } }
#[derive(Debug, PartialEq, Deserialize)] struct St { a: i32, #[serde(default)] b: Option<bool>, }
#[derive(Debug, PartialEq, Deserialize)] #[serde(untagged)] enum Un { I(i64), S(String), V(Vec<i32>) }
#[derive(Debug, PartialEq, Deserialize)] struct Fl { a: i32, #[serde(flatten)] rest: BTreeMap<String, i32> }
#[derive(Debug, PartialEq, Deserialize)] struct Unit;
#[derive(Debug, PartialEq, Deserialize)] struct Nt(i32);
#[derive(Debug, PartialEq, Deserialize)] struct Tp(i32, bool);
#[derive(Debug, PartialEq, Deserialize)] #[serde(deny_unknown_fields)] struct Deny { a: i32 }
#[derive(Debug, PartialEq, Deserialize)] #[serde(tag = "t")] enum Tagged { A { x: i32 }, B }
#[derive(Debug, PartialEq, Deserialize)] #[serde(tag = "t", content = "c")] enum Adj { A(i32), B }
static mut POS: usize = 0;
static mut N: usize = 0;
fn t<'a, T: serde::Deserialize<'a> + std::fmt::Debug + PartialEq>(s: &'a str, name: &str) {
    let a: Result<T, _> = match std::panic::catch_unwind(|| sonic_rs::from_str::<T>(s)) { Ok(r) => r, Err(_) => { println!("SONIC PANIC {} {:?}", name, s); return; } };
    unsafe { N += 1; }
    if let Err(e) = &a {
        let (off, l, c) = (e.offset(), e.line(), e.column());
        let bytes = s.as_bytes();
        let (mut el, mut ec) = (1usize, 0usize);
        for &ch in &bytes[..off.min(bytes.len())] { if ch == b'\n' { el += 1; ec = 0; } else { ec += 1; } }
        if off > bytes.len() || (l != 0 && (l, c) != (el, ec)) || l == 0 { unsafe { POS += 1; if POS < 80 { println!("POS {} {:?}: offset={} line={} col={} expected=({}, {}) msg={:?}", name, s, off, l, c, el, ec, e.to_string().lines().next().unwrap()); } } }
    }
}
fn all(s: &str) {
    macro_rules! tt { ($($t:ty),* $(,)?) => { $( t::<$t>(s, stringify!($t)); )* } }
    tt!(i8, u8, i64, u64, i128, u128, f32, f64, bool, char, String, Option<i32>, (), (i32, bool), Vec<i32>, [u8; 2],
        BTreeMap<String, i32>, BTreeMap<i32, i32>, BTreeMap<u128, i32>, BTreeMap<bool, i32>, BTreeMap<K, i32>, BTreeMap<char, i32>,
        E, St, Un, Fl, Unit, Nt, Tp, Deny, Tagged, Adj, K, Option<E>, Vec<E>, Box<str>, sonic_rs::Value, sonic_rs::LazyValue, sonic_rs::OwnedLazyValue, serde_json::Value, serde::de::IgnoredAny);
    t::<&str>(s, "&str");
}
fn main() {
    std::panic::set_hook(Box::new(|_| {}));
    let toks: &[&str] = &["{", "}", "[", "]", ",", ":", "\"a\"", "\"b\"", "\"t\"", "\"c\"", "\"A\"", "\"U\"", "\"N\"", "\"S\"", "\"1\"", "\"true\"", "\"\"", "\"\\u0041\"", "\"é\"", "\"\\n\"",
        "1", "-1", "0", "1.5", "300", "1e400", "18446744073709551616", "true", "null", " ", "\n", "nul", "01", "-", "\"", "\"\\", "\"\\x\"", "\"\u{0}\"", "tru", "é"];
    let n: usize = std::env::args().nth(1).map(|s| s.parse().unwrap()).unwrap_or(3);
    fn rec(toks: &[&str], cur: &mut String, depth: usize, n: usize) {
        all(cur);
        if depth == n { return; }
        for t in toks { let l = cur.len(); cur.push_str(t); rec(toks, cur, depth + 1, n); cur.truncate(l); }
    }
    rec(toks, &mut String::new(), 0, n);
    let seeds = [r#"{"a":1,"b":true}"#, "{\n\"a\":1,\n\"b\":tru}", r#"{"N":1}"#, r#"{"T":[1,true]}"#, r#"{"S":{"a":1}}"#, r#""U""#, r#"{"t":"A","x":1}"#, r#"{"a":1,"z":2}"#, "[1,\n 2,\n x]", "[\"é\",\n\"ü\", x]", "{\"k\":\"a\\nb\",\n\"a\":x}", "[\"a\\u00e9\\n\",\n 1 2]"];
    let ins = ["", " ", ",", "1", "\"", "\\", "null", "[", "]", "{", "}", ":", "-", ".", "e", "0", "\n", "é"];
    for s in seeds { for i in 0..=s.len() { if !s.is_char_boundary(i) { continue; }
        for x in ins { let m = format!("{}{}{}", &s[..i], x, &s[i..]); all(&m); }
        for j in i+1..=(i+3).min(s.len()) { if s.is_char_boundary(j) { let m = format!("{}{}", &s[..i], &s[j..]); all(&m); } } } }
    println!("checked={} pos={}", unsafe { N }, unsafe { POS });
}
