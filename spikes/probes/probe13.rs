use sonic_rs::{JsonContainerTrait, JsonValueMutTrait, JsonValueTrait, LazyValue, OwnedLazyValue, Value};
static mut D: usize = 0; static mut N: usize = 0;
fn rep(msg: String) { unsafe { D += 1; if D < 50 { println!("{}", msg); } } }
fn same<A: JsonValueTrait, B: JsonValueTrait>(what: &str, txt: &str, a: &A, b: &B) {
    if a.get_type() != b.get_type() { rep(format!("{what} {txt:?}: type {:?} vs {:?}", a.get_type(), b.get_type())); }
    if a.as_bool() != b.as_bool() { rep(format!("{what} {txt:?}: as_bool")); }
    if a.as_i64() != b.as_i64() { rep(format!("{what} {txt:?}: as_i64 {:?} vs {:?}", a.as_i64(), b.as_i64())); }
    if a.as_u64() != b.as_u64() { rep(format!("{what} {txt:?}: as_u64 {:?} vs {:?}", a.as_u64(), b.as_u64())); }
    if a.as_f64().map(f64::to_bits) != b.as_f64().map(f64::to_bits) { rep(format!("{what} {txt:?}: as_f64 {:?} vs {:?}", a.as_f64(), b.as_f64())); }
    if a.as_str() != b.as_str() { rep(format!("{what} {txt:?}: as_str {:?} vs {:?}", a.as_str(), b.as_str())); }
    if a.as_number() != b.as_number() { rep(format!("{what} {txt:?}: as_number {:?} vs {:?}", a.as_number(), b.as_number())); }
    if a.is_null() != b.is_null() || a.is_object() != b.is_object() || a.is_array() != b.is_array() || a.is_str() != b.is_str() || a.is_number() != b.is_number() || a.is_boolean() != b.is_boolean() || a.is_true() != b.is_true() || a.is_false() != b.is_false() || a.is_f64() != b.is_f64() || a.is_i64() != b.is_i64() || a.is_u64() != b.is_u64() { rep(format!("{what} {txt:?}: is_* differ")); }
}
fn check(txt: &str) {
    let Ok(v) = sonic_rs::from_str::<Value>(txt) else { return };
    unsafe { N += 1; }
    let lv: LazyValue = match sonic_rs::from_str(txt) { Ok(x) => x, Err(e) => { rep(format!("LazyValue rejects {txt:?}: {e}")); return } };
    same("LazyValue", txt, &lv, &v);
    if lv.as_raw_str() != txt.trim_matches(|c| c == ' ' || c == '\n') { rep(format!("LazyValue raw {txt:?}: {:?}", lv.as_raw_str())); }
    if sonic_rs::to_string(&lv).ok().as_deref() != Some(lv.as_raw_str()) { rep(format!("LazyValue to_string {txt:?}")); }
    let mut ov: OwnedLazyValue = match sonic_rs::from_str(txt) { Ok(x) => x, Err(e) => { rep(format!("OwnedLazyValue rejects {txt:?}: {e}")); return } };
    same("OwnedLazyValue", txt, &ov, &v);
    let ov2 = OwnedLazyValue::from(lv.clone()); same("From<LazyValue>", txt, &ov2, &v);
    if sonic_rs::to_string(&ov2).ok().as_deref() != Some(lv.as_raw_str()) { rep(format!("From<LazyValue> to_string {txt:?}: {:?}", sonic_rs::to_string(&ov2))); }
    for key in ["a", "b", ""] {
        let (x, y, z) = (lv.get(key), ov.get(key), v.get(key));
        if x.is_some() != z.is_some() || y.is_some() != z.is_some() { rep(format!("get({key:?}) presence {txt:?}: lazy {} owned {} dom {}", x.is_some(), y.is_some(), z.is_some())); }
        if let (Some(x), Some(y), Some(z)) = (x, y, z) { same("LazyValue child", txt, &x, z); same("OwnedLazyValue child", txt, y, z); }
    }
    for i in [0usize, 1, 2] {
        let (x, y, z) = (lv.get(i), ov.get(i), v.get(i));
        if x.is_some() != z.is_some() || y.is_some() != z.is_some() { rep(format!("get({i}) presence {txt:?}")); }
        if let (Some(x), Some(y), Some(z)) = (x, y, z) { same("LazyValue elem", txt, &x, z); same("OwnedLazyValue elem", txt, y, z); }
    }
    if sonic_rs::to_string(&ov).ok().as_deref() != Some(lv.as_raw_str()) { rep(format!("OwnedLazyValue to_string after reads {txt:?}: {:?}", sonic_rs::to_string(&ov))); }
    let c = ov.clone(); if sonic_rs::to_string(&c).ok().as_deref() != Some(lv.as_raw_str()) { rep(format!("clone to_string {txt:?}: {:?}", sonic_rs::to_string(&c))); }
    if let Some(a) = ov.as_array_mut() { let n = a.len(); if Some(n) != v.as_array().map(|x| x.len()) { rep(format!("array len {txt:?}")); } }
    if let Some(o) = ov.as_object_mut() { let n = o.len(); if Some(n) != v.as_object().map(|x| x.len()) { rep(format!("object len {txt:?}: {} vs {:?}", n, v.as_object().map(|x| x.len()))); } }
    let t = ov.take(); same("take", txt, &t, &v); if !ov.is_null() { rep(format!("take leaves non-null {txt:?}")); }
}
fn main() {
    let toks: &[&str] = &["{", "}", "[", "]", ",", ":", "\"a\"", "\"b\"", "\"\"", "\"\\u0041\"", "\"\\ud83d\\ude00\"", "\"é\"", "\"x\\ny\"", "1", "-1", "0", "-0", "1.5", "1e2", "1.0", "18446744073709551615", "18446744073709551616", "-9223372036854775808", "-9223372036854775809", "1e400", "0.1e-999", "true", "false", "null", " ", "\n"];
    let n: usize = std::env::args().nth(1).map(|s| s.parse().unwrap()).unwrap_or(4);
    fn rec(toks: &[&str], cur: &mut String, depth: usize, n: usize) { check(cur); if depth == n { return; } for t in toks { let l = cur.len(); cur.push_str(t); rec(toks, cur, depth + 1, n); cur.truncate(l); } }
    rec(toks, &mut String::new(), 0, n);
    for t in toks { for u in toks { for w in toks { check(&format!("[{t},{u} , {w}]")); check(&format!("{{\"a\":{t},\"b\":[{u}],\"\":{{\"a\":{w}}}}}")); check(&format!(" {{ \"a\" : {t} , \"a\" : {u} }} ")); } } }
    println!("checked={} diffs={}", unsafe { N }, unsafe { D });
}
