fn main() {
    let which = std::env::args().nth(1).unwrap();
    let n: usize = std::env::args().nth(2).unwrap().parse().unwrap();
    let s = "[".repeat(n);
    match which.as_str() {
        "value" => println!("{:?}", sonic_rs::from_str::<sonic_rs::Value>(&s).is_ok()),
        "lazy" => println!("{:?}", sonic_rs::from_str::<sonic_rs::LazyValue>(&s).is_ok()),
        "serde" => println!("{:?}", sonic_rs::from_str::<serde_json::Value>(&s).is_ok()),
        _ => {}
    }
}
