use vstd::prelude::*;
verus! {
pub(crate) struct Position {
    pub line: usize,
    pub column: usize,
}
pub open spec fn line_of(s: Seq<u8>, i: int) -> int decreases i {
    if i <= 0 { 1 } else { line_of(s, i - 1) + if s[i - 1] == 0x0a { 1int } else { 0int } }
}
pub open spec fn col_of(s: Seq<u8>, i: int) -> int decreases i {
    if i <= 0 { 0 } else if s[i - 1] == 0x0a { 0 } else { col_of(s, i - 1) + 1 }
}
impl Position {
    pub(crate) fn from_index(mut i: usize, data: &[u8]) -> (p: Self)
        ensures p.column == col_of(data@, if i <= data@.len() { i as int } else { data@.len() as int }), p.line == line_of(data@, if i <= data@.len() { i as int } else { data@.len() as int }),
    {
        // i must not exceed the length of data
        i = i.min(data.len());
        let mut position = Position { line: 1, column: 0 };
        let ghost i0 = i;
        for ch in it: &data[..i]
            invariant
                i <= data@.len(),
                position.line == line_of(data@, it.index@ as int),
                position.column == col_of(data@, it.index@ as int),
                position.line <= it.index@ + 1, position.column <= it.index@,
        {
            match *ch {
                b'\n' => {
                    position.line += 1;
                    position.column = 0;
                }
                _ => {
                    position.column += 1;
                }
            }
        }
        position
    }
}
}
fn main(){}
