use sonic_rs::{JsonValueTrait, LazyValue, OwnedLazyValue, Value};
fn main() {
    // F2: skip path accepts bad \u escapes?
    for s in [r#""\uZZZZ""#, r#""\ud800""#, r#"["\u12G4"]"#, r#"{"a\uXYZW":1}"#] {
        let lv: Result<LazyValue, _> = sonic_rs::from_str(s);
        let v: Result<Value, _> = sonic_rs::from_str(s);
        let olv: Result<OwnedLazyValue, _> = sonic_rs::from_str(s);
        let ig: Result<serde::de::IgnoredAny, _> = sonic_rs::from_str(s);
        println!("{s}: lazy={:?} value={:?} owned={:?} ignored={:?}", lv.is_ok(), v.is_ok(), olv.is_ok(), ig.is_ok());
    }
    let g = sonic_rs::get(r#"{"a":"\uZZZZ"}"#, &["a"]);
    println!("get bad-escape: {:?}", g.map(|x| x.as_raw_str().to_string()));
    // F4
    let r = std::panic::catch_unwind(|| {
        let lv: LazyValue = sonic_rs::get("[true]", &[0]).unwrap();
        let o: OwnedLazyValue = lv.into();
        o.is_boolean()
    });
    println!("F4 owned-from-lazy literal: {:?}", r.is_err());
    // leading/trailing
    for s in ["01", "1.", "-", "1e", "[1,]", "{\"a\":1,}", " 1 x", "\"\t\""] {
        let lv: Result<LazyValue, _> = sonic_rs::from_str(s);
        let v: Result<Value, _> = sonic_rs::from_str(s);
        println!("{s:?}: lazy={} value={}", lv.is_ok(), v.is_ok());
    }
}
