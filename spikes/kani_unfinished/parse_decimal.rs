// parked: CBMC does not finish in 600 s (800-byte input, 768-byte digit buffer), even with only K symbolic

    /// C01 in the float fallback (`decimal::parse_decimal`, the "simple decimal conversion" digit buffer of 768 bytes):
    /// no slice index leaves the buffer whatever the digits are — in particular the 8-digits-at-a-time loop only
    /// runs while 8 more bytes fit. Layout of the inputs: K integer digits (every K in 1..=8), a point, then digits up
    /// to a total length of 800 bytes (so that the block loop starts with num_digits == K and reaches the end of the
    /// buffer in every residue mod 8). Bounded stand-in: one input length, one digit value, K symbolic.
    #[kani::proof]
    #[kani::unwind(802)]
    fn parse_decimal_digit_buffer_in_bounds() {
        let mut buf = [b'5'; 800];
        let k: usize = kani::any();
        kani::assume(k >= 1 && k <= 8);
        buf[k] = b'.';
        let d = crate::decimal::parse_decimal(&buf[..]);
        assert!(d.num_digits <= crate::decimal::Decimal::MAX_DIGITS);
    }

// 2026-10-03, second attempt: the same harness with fully CONCRETE contents (a loop over K = 1..=8, buf = [b'5'; 800],
// buf[K] = b'.') still hits the 400 s CBMC timeout; the leaves is_8digits / read_u64 / write_u64 are proved instead
// (kani/number.rs: is_8digits_all, read_write_u64_window).
