//@append src/serde/ser.rs
// C05, structural half: the real Serializer / Compound / CompactFormatter / PrettyFormatter driven through serde by
// a small document type of symbolic shape, writing into a writer of symbolic capacity.
//   shape: a top-level array or map with 0..=2 entries (length hint exact or absent); each entry is null, a bool,
//   a non-finite or finite float placeholder (NaN -> null), a u8 number, or a nested array / map with 0..=2 scalar
//   entries; map keys are u8 numbers (MapKeySerializer -> quoted).
// Obligations: (1) with enough room the bytes are exactly the reference text (compact: no whitespace; pretty: the
// prescribed newline + two-space indentation, empty containers as `[]` / `{}`); (2) when the writer runs out of room
// the serializer returns Err (never swallowed) and what was written is a prefix of the reference text.
// Strings are excluded on purpose: they go through format_string (pointer loop, CBMC does not finish — DESIGN §9).
#[cfg(kani)]
mod verif_ser {
    use super::*;
    use serde::ser::{SerializeMap, SerializeSeq};
    use std::io;

    const CAP: usize = 96;

    struct Lim { buf: [u8; CAP], len: usize, cap: usize }
    impl io::Write for Lim {
        fn write(&mut self, b: &[u8]) -> io::Result<usize> {
            if self.len >= self.cap { return Err(io::Error::from(io::ErrorKind::WriteZero)); }
            let mut n = 0;
            while n < b.len() && self.len < self.cap { self.buf[self.len] = b[n]; self.len += 1; n += 1; }
            Ok(n)
        }
        fn flush(&mut self) -> io::Result<()> { Ok(()) }
    }
    impl WriteExt for Lim {
        fn reserve_with(&mut self, _additional: usize) -> io::Result<&mut [std::mem::MaybeUninit<u8>]> {
            assert!(false); // only the string escaper reserves
            Err(io::Error::from(io::ErrorKind::Other))
        }
        unsafe fn flush_len(&mut self, _additional: usize) -> io::Result<()> { assert!(false); Ok(()) }
    }

    #[derive(Clone, Copy)]
    struct Leaf { kind: u8, b: bool, n: u8 }          // 0 null, 1 bool, 2 NaN float, 3 u8 number
    #[derive(Clone, Copy)]
    struct Inner { kind: u8, leaf: Leaf, len: u8, hint: bool, items: [Leaf; 2], keys: [u8; 2] } // 0 leaf, 1 array, 2 map
    struct Doc { is_map: bool, len: u8, hint: bool, items: [Inner; 2], keys: [u8; 2] }

    impl Serialize for Leaf {
        fn serialize<S: ser::Serializer>(&self, s: S) -> std::result::Result<S::Ok, S::Error> {
            match self.kind { 0 => s.serialize_unit(), 1 => s.serialize_bool(self.b), 2 => s.serialize_f64(f64::NAN), _ => s.serialize_u8(self.n) }
        }
    }
    impl Serialize for Inner {
        fn serialize<S: ser::Serializer>(&self, s: S) -> std::result::Result<S::Ok, S::Error> {
            match self.kind {
                0 => self.leaf.serialize(s),
                1 => {
                    let mut q = s.serialize_seq(if self.hint { Some(self.len as usize) } else { None })?;
                    let mut i = 0;
                    while i < self.len as usize { q.serialize_element(&self.items[i])?; i += 1; }
                    q.end()
                }
                _ => {
                    let mut m = s.serialize_map(if self.hint { Some(self.len as usize) } else { None })?;
                    let mut i = 0;
                    while i < self.len as usize { m.serialize_key(&self.keys[i])?; m.serialize_value(&self.items[i])?; i += 1; }
                    m.end()
                }
            }
        }
    }
    impl Serialize for Doc {
        fn serialize<S: ser::Serializer>(&self, s: S) -> std::result::Result<S::Ok, S::Error> {
            if !self.is_map {
                let mut q = s.serialize_seq(if self.hint { Some(self.len as usize) } else { None })?;
                let mut i = 0;
                while i < self.len as usize { q.serialize_element(&self.items[i])?; i += 1; }
                q.end()
            } else {
                let mut m = s.serialize_map(if self.hint { Some(self.len as usize) } else { None })?;
                let mut i = 0;
                while i < self.len as usize { m.serialize_key(&self.keys[i])?; m.serialize_value(&self.items[i])?; i += 1; }
                m.end()
            }
        }
    }

    // ---- reference printer
    struct Out { b: [u8; CAP], n: usize }
    impl Out {
        fn put(&mut self, c: u8) { self.b[self.n] = c; self.n += 1; }
        fn lit(&mut self, s: &[u8]) { let mut i = 0; while i < s.len() { self.put(s[i]); i += 1; } }
        fn num(&mut self, v: u8) {
            if v >= 100 { self.put(b'0' + v / 100); }
            if v >= 10 { self.put(b'0' + (v / 10) % 10); }
            self.put(b'0' + v % 10);
        }
        fn nl(&mut self, pretty: bool, level: usize) {
            if pretty { self.put(b'\n'); let mut i = 0; while i < level { self.put(b' '); self.put(b' '); i += 1; } }
        }
        fn leaf(&mut self, l: &Leaf) {
            match l.kind { 0 | 2 => self.lit(b"null"), 1 => if l.b { self.lit(b"true") } else { self.lit(b"false") }, _ => self.num(l.n) }
        }
        fn key(&mut self, k: u8, pretty: bool) { self.put(b'"'); self.num(k); self.put(b'"'); self.put(b':'); if pretty { self.put(b' '); } }
        fn inner(&mut self, x: &Inner, pretty: bool, level: usize) {
            if x.kind == 0 { self.leaf(&x.leaf); return; }
            let (open, close) = if x.kind == 1 { (b'[', b']') } else { (b'{', b'}') };
            self.put(open);
            let mut i = 0;
            while i < x.len as usize {
                if i > 0 { self.put(b','); }
                self.nl(pretty, level + 1);
                if x.kind == 2 { self.key(x.keys[i], pretty); }
                self.leaf(&x.items[i]);
                i += 1;
            }
            if x.len > 0 { self.nl(pretty, level); }
            self.put(close);
        }
        fn doc(&mut self, d: &Doc, pretty: bool) {
            let (open, close) = if !d.is_map { (b'[', b']') } else { (b'{', b'}') };
            self.put(open);
            let mut i = 0;
            while i < d.len as usize {
                if i > 0 { self.put(b','); }
                self.nl(pretty, 1);
                if d.is_map { self.key(d.keys[i], pretty); }
                self.inner(&d.items[i], pretty, 1);
                i += 1;
            }
            if d.len > 0 { self.nl(pretty, 0); }
            self.put(close);
        }
    }

    fn any_leaf(num: bool) -> Leaf { let k: u8 = kani::any(); kani::assume(k <= if num { 3 } else { 2 }); Leaf { kind: k, b: kani::any(), n: kani::any() } }
    fn any_inner(nested: bool, maps: bool, num: bool) -> Inner {
        let k: u8 = kani::any(); kani::assume(k <= if !nested { 0 } else if maps { 2 } else { 1 });
        let len: u8 = kani::any(); kani::assume(len <= 2);
        Inner { kind: k, leaf: any_leaf(num), len, hint: kani::any(), items: [any_leaf(num), any_leaf(num)], keys: kani::any() }
    }
    fn any_doc(nested: bool, maps: bool, num: bool) -> Doc {
        let len: u8 = kani::any(); kani::assume(len <= 2);
        let is_map: bool = kani::any(); kani::assume(maps || !is_map);
        Doc { is_map, len, hint: kani::any(), items: [any_inner(nested, maps, num), any_inner(nested, maps, num)], keys: kani::any() }
    }

    fn run(pretty: bool, nested: bool, maps: bool, num: bool, limited: bool) {
        let d = any_doc(nested, maps, num);
        let mut want = Out { b: [0; CAP], n: 0 };
        want.doc(&d, pretty);
        let cap: usize = if limited { kani::any() } else { CAP };
        kani::assume(cap <= CAP);
        let mut w = Lim { buf: [0; CAP], len: 0, cap };
        let r = if pretty { to_writer_pretty(&mut w, &d) } else { to_writer(&mut w, &d) };
        assert!(w.len <= cap);
        assert!(w.len <= want.n);
        let j: usize = kani::any();
        kani::assume(j < w.len);
        assert!(w.buf[j] == want.b[j]);            // what was written is a prefix of the reference text
        match r {
            Ok(()) => assert!(w.len == want.n),    // complete
            Err(e) => { assert!(cap < want.n); std::mem::forget(e); } // an error only when the writer really ran out of room
        }
        if cap >= want.n { assert!(w.len == want.n); }
        kani::cover!(want.n > 8);
        kani::cover!(!limited || (cap < want.n && w.len > 3));
    }

    /// experiment: fixed shape `[x,y]`, leaves null/true only (fixed width): all output positions are concrete
    #[kani::proof]
    #[kani::unwind(6)]
    fn ser_fixed_pair_compact() {
        let a: bool = kani::any(); let b: bool = kani::any();
        let la = Leaf { kind: if a { 1 } else { 0 }, b: true, n: 0 };
        let lb = Leaf { kind: if b { 1 } else { 2 }, b: true, n: 0 };
        let d = Doc { is_map: false, len: 2, hint: kani::any(), items: [Inner { kind: 0, leaf: la, len: 0, hint: false, items: [la, la], keys: [0, 0] }, Inner { kind: 0, leaf: lb, len: 0, hint: false, items: [lb, lb], keys: [0, 0] }], keys: [0, 0] };
        let mut w = Lim { buf: [0; CAP], len: 0, cap: CAP };
        let r = to_writer(&mut w, &d);
        assert!(r.is_ok());
        assert!(w.len == 11);
        assert!(w.buf[0] == b'[' && w.buf[5] == b',' && w.buf[10] == b']');
        assert!(w.buf[1] == if a { b't' } else { b'n' });
        assert!(w.buf[6] == if b { b't' } else { b'n' });
    }
}
