//@append src/value/node.rs
// C03, arena half: the real DocumentVisitor (node stack, arena copy in visit_container_end with the back-pointer
// header, packed metadata, root allocation) driven with the event list of a small document — the event list the
// Verus units `decoder` / `decoder_inplace` prove the parser produces — and read back through the real
// `as_ref2` / `get_index` view. Scalar payloads are symbolic; the shape is one of a few fixed scripts (bounded).
// CBMC checks every pointer dereference / copy_nonoverlapping / bump allocation on the way.
#[cfg(kani)]
mod verif_dom_visitor {
    use super::*;
    use crate::value::tls_buffer::verif_tls_model::with_capacity_heap;

    fn leaf_is(v: &Value, k: u8, b: bool, n: u64) -> bool {
        match (k, v.as_ref2()) {
            (0, ValueRefInner::Null) => true,
            (1, ValueRefInner::Bool(x)) => x == b,
            (2, ValueRefInner::Number(x)) => x.as_u64() == Some(n),
            _ => false,
        }
    }
    fn push_leaf(vis: &mut DocumentVisitor<'_>, k: u8, b: bool, n: u64) -> bool {
        match k { 0 => vis.visit_null(), 1 => vis.visit_bool(b), _ => vis.visit_u64(n) }
    }

    /// `[x, [y], []]` with symbolic scalars x, y: nesting, sibling order, counts, empty container, root hand-over
    #[kani::proof]
    #[kani::unwind(6)]
    #[kani::stub(crate::value::tls_buffer::TlsBuf::with_capacity, with_capacity_heap)]
    fn dom_visitor_nested_array() {
        let (k1, b1, n1): (u8, bool, u64) = (kani::any(), kani::any(), kani::any());
        let (k2, b2, n2): (u8, bool, u64) = (kani::any(), kani::any(), kani::any());
        kani::assume(k1 <= 2 && k2 <= 2);
        let mut shared = Shared::default();
        let mut vis = DocumentVisitor::new(16, &mut shared);
        let mut ok = vis.visit_dom_start();
        ok = ok && vis.visit_array_start(0);
        ok = ok && push_leaf(&mut vis, k1, b1, n1);
        ok = ok && vis.visit_array_start(0);
        ok = ok && push_leaf(&mut vis, k2, b2, n2);
        ok = ok && vis.visit_array_end(1);
        ok = ok && vis.visit_array_start(0);
        ok = ok && vis.visit_array_end(0);
        ok = ok && vis.visit_array_end(3);
        ok = ok && vis.visit_dom_end();
        assert!(ok);
        let root: &Value = unsafe { vis.root.as_ref() };
        match root.as_ref2() {
            ValueRefInner::Array(s) => {
                assert!(s.len() == 3);
                assert!(leaf_is(&s[0], k1, b1, n1));
                match s[1].as_ref2() {
                    ValueRefInner::Array(t) => { assert!(t.len() == 1); assert!(leaf_is(&t[0], k2, b2, n2)); }
                    _ => assert!(false),
                }
                assert!(matches!(s[2].as_ref2(), ValueRefInner::EmptyArray));
            }
            _ => assert!(false),
        }
        std::mem::forget(vis);
        std::mem::forget(shared);
    }
}
