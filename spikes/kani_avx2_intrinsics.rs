#[cfg(kani)]
mod proofs {
    use std::arch::x86_64::*;
    #[kani::proof]
    fn movemask() {
        let a: [u8; 32] = kani::any();
        unsafe {
            let v = _mm256_loadu_si256(a.as_ptr() as *const __m256i);
            let q = _mm256_set1_epi8(b'"' as i8);
            let m = _mm256_movemask_epi8(_mm256_cmpeq_epi8(v, q)) as u32;
            let i: usize = kani::any();
            kani::assume(i < 32);
            assert_eq!((m >> i) & 1 == 1, a[i] == b'"');
        }
    }
    #[kani::proof]
    fn maxu() {
        let a: [u8; 32] = kani::any();
        unsafe {
            let v = _mm256_loadu_si256(a.as_ptr() as *const __m256i);
            let q = _mm256_set1_epi8(0x1f);
            let max = _mm256_max_epu8(v, q);
            let m = _mm256_movemask_epi8(_mm256_cmpeq_epi8(max, q)) as u32;
            let i: usize = kani::any();
            kani::assume(i < 32);
            assert_eq!((m >> i) & 1 == 1, a[i] <= 0x1f);
        }
    }
    #[kani::proof]
    fn clmul() {
        let x: u64 = kani::any();
        unsafe {
            let all_ones = _mm_set1_epi8(-1i8);
            let result = _mm_clmulepi64_si128(_mm_set_epi64x(0, x as i64), all_ones, 0);
            let r = _mm_cvtsi128_si64(result) as u64;
            assert!(r & 1 == x & 1);
        }
    }
    #[kani::proof]
    fn shuf() {
        let a: [u8; 32] = kani::any();
        unsafe {
            let v = _mm256_loadu_si256(a.as_ptr() as *const __m256i);
            let s = _mm256_shuffle_epi8(v, v);
            let m = _mm256_movemask_epi8(s) as u32;
            assert!(m == 0 || m != 0);
        }
    }
}
