fn main() {
    for s in [r#"{xx"a":1}"#, r#"{,,"a":1}"#, r#"{"b":2 "a":1}"#, r#"[1 2]"#] {
        let g = sonic_rs::get(s, &["a"]);
        println!("{s}: get a = {:?}", g.map(|x| x.as_raw_str().to_string()).map_err(|e| e.to_string().lines().next().unwrap().to_string()));
    }
    let g = sonic_rs::get("[1 2]", &[1usize]);
    println!("[1 2] idx1: {:?}", g.map(|x| x.as_raw_str().to_string()).is_ok());
    let mut schema = sonic_rs::json!({"a": null});
    let r = sonic_rs::get_by_schema(r#"{"a":"\uZZZZ"}"#, schema.clone());
    println!("schema: {:?}", r.is_ok());
    let _ = &mut schema;
}
