// Verus unit `container` (C10): the bitmap container skipper against its scalar definition.
use vstd::prelude::*;
use vstd::string::StringSliceAdditionalSpecFns;
verus! {
//@include specs/prelude.rs
//@include specs/json_number.rs
//@include specs/json_grammar.rs
//@include units/frag_parser.vt.rs
//@include specs/scalar_chars.rs
//@include units/frag_container.vt.rs

} // verus!
fn main() {}
