// Verus unit `typed_de` (C04, per-type entry points of `impl Deserializer for &mut Deserializer<R>`):
// deserialize_bool / unit / option / str / ignored_any / seq / map — what text each entry point accepts and which
// visitor callback it makes with which value. The visitor is an arbitrary program: it enters as a trait whose
// callbacks are deterministic spec functions (`on_bool(b)`, …), so "hands the visitor exactly the denoted value and
// returns what the visitor returns" is expressible. Reference behaviour = the serde data model as serde_json
// implements it: bool <- `true` / `false`; unit <- `null`; option <- `null` is None, anything else is Some(that value);
// str <- a string literal, borrowed exactly when it has no escape; ignored_any <- any one well-formed value.
// Declared substitutions: `self.peek_invalid_type(peek, &visitor)` -> `self.peek_invalid_type_v(peek)` (the `&dyn
// Expected` argument only feeds the error message); functions are re-hosted on an inherent impl (`self` ->
// `&mut self`).
use vstd::prelude::*;
use vstd::string::StringSliceAdditionalSpecFns;
verus! {
//@include specs/prelude.rs
//@include specs/json_number.rs
//@include specs/json_grammar.rs
//@include units/frag_parser.vt.rs
//@include units/frag_space.vt.rs
impl<'de, R: Reader<'de>> Parser<R> {
//@include units/frag_number.vt.rs
}
//@include units/frag_string.vt.rs
//@include units/frag_skip.vt.rs

//@extract file=src/serde/de.rs macro=tri
#[verifier::external_body]
pub struct Shared { _p: core::marker::PhantomData<()> }
use std::sync::Arc;
//@extract file=src/serde/de.rs struct=Deserializer
//@subst /pub\(crate\) parser:/ => pub parser:
//@subst /(?m)^    (scratch|remaining_depth|shared):/ => pub \1: #all
//@end
//@extract file=src/parser.rs enum=Reference
// the decoded text of the string literal whose body is s[i..e) (specified by the decoder contracts, C09)
pub uninterp spec fn decoded(s: Seq<u8>, i: int, e: int) -> Seq<u8>;

//@extract file=src/serde/de.rs struct=SeqAccess
//@subst /(?m)^    (de|first):/ => pub \1: #all
//@end
//@extract file=src/serde/de.rs struct=MapAccess
//@subst /(?m)^    (de|first):/ => pub \1: #all
//@end
impl<'a, R: 'a> SeqAccess<'a, R> {
//@extract file=src/serde/de.rs impl="SeqAccess<'a, R>" fn=new
//@sig
        ensures res.first, mut_ref_current(res.de) == *old(de), mut_ref_future(res.de) == *final(de),
//@end
}
impl<'a, R: 'a> MapAccess<'a, R> {
//@extract file=src/serde/de.rs impl="MapAccess<'a, R>" fn=new
//@sig
        ensures res.first, mut_ref_current(res.de) == *old(de), mut_ref_future(res.de) == *final(de),
//@end
}
//@extract file=src/serde/de.rs struct=VariantAccess
//@subst /^struct VariantAccess/ => pub struct VariantAccess
//@subst /(?m)^    de:/ => pub de:
//@end
//@extract file=src/serde/de.rs struct=UnitVariantAccess
//@subst /^struct UnitVariantAccess/ => pub struct UnitVariantAccess
//@subst /(?m)^    de:/ => pub de:
//@end
impl<'a, R: 'a> VariantAccess<'a, R> {
//@extract file=src/serde/de.rs impl="VariantAccess<'a, R>" fn=new
//@sig
        ensures mut_ref_current(res.de) == *old(de), mut_ref_future(res.de) == *final(de),
//@end
}
impl<'a, R: 'a> UnitVariantAccess<'a, R> {
//@extract file=src/serde/de.rs impl="UnitVariantAccess<'a, R>" fn=new
//@sig
        ensures mut_ref_current(res.de) == *old(de), mut_ref_future(res.de) == *final(de),
//@end
}
//@extract file=sonic-number/src/lib.rs enum=ParserNumber

/// stand-in for serde::de::Visitor: deterministic callbacks
pub trait Visitor<'de>: Sized {
    type Value;
    spec fn on_bool(&self, b: bool) -> Result<Self::Value>;
    spec fn on_unit(&self) -> Result<Self::Value>;
    spec fn on_none(&self) -> Result<Self::Value>;
    spec fn on_str(&self, text: Seq<u8>, borrowed: bool) -> Result<Self::Value>;
    /// what visit_some requires of the position it is started at (uninterpreted per visitor)
    spec fn some_start_ok(&self, s: Seq<u8>, idx: int) -> bool;
    fn visit_bool(self, v: bool) -> (r: Result<Self::Value>) ensures r == self.on_bool(v);
    fn visit_unit(self) -> (r: Result<Self::Value>) ensures r == self.on_unit();
    fn visit_none(self) -> (r: Result<Self::Value>) ensures r == self.on_none();
    fn visit_borrowed_str(self, v: &'de str) -> (r: Result<Self::Value>) ensures r == self.on_str(str_bytes(v), true);
    fn visit_str(self, v: &str) -> (r: Result<Self::Value>) ensures r == self.on_str(str_bytes(v), false);
    spec fn on_u64(&self, v: u64) -> Result<Self::Value>;
    spec fn on_i64(&self, v: i64) -> Result<Self::Value>;
    spec fn on_f64(&self, v: f64) -> Result<Self::Value>;
    fn visit_u64(self, v: u64) -> (r: Result<Self::Value>) ensures r == self.on_u64(v);
    fn visit_i64(self, v: i64) -> (r: Result<Self::Value>) ensures r == self.on_i64(v);
    fn visit_f64(self, v: f64) -> (r: Result<Self::Value>) ensures r == self.on_f64(v);
    /// what visit_seq / visit_map require of the position just after the opening bracket
    spec fn seq_start_ok(&self, s: Seq<u8>, idx: int) -> bool;
    spec fn map_start_ok(&self, s: Seq<u8>, idx: int) -> bool;
    // the access object is a fresh one (first == true) on the deserializer positioned just after the bracket; whatever
    // the visitor does with it, the parser invariant and the document are preserved (prophetic: state when it returns)
    /// a visitor is a deterministic program: what visit_seq / visit_map return when started on a fresh access object
    /// just after the bracket at idx of the document s, and where they leave the reader
    spec fn seq_out(&self, s: Seq<u8>, idx: int) -> (Result<Self::Value>, int);
    spec fn map_out(&self, s: Seq<u8>, idx: int) -> (Result<Self::Value>, int);
    fn visit_seq<'a, R: Reader<'de>>(self, seq: SeqAccess<'a, R>) -> (r: Result<Self::Value>)
        requires seq.de.parser.pinv(), seq.first, self.seq_start_ok(seq.de.parser.read.data(), seq.de.parser.read.idx() as int),
        ensures mut_ref_future(seq.de).parser.pinv(), mut_ref_future(seq.de).parser.same_doc(&mut_ref_current(seq.de).parser),
            r == self.seq_out(mut_ref_current(seq.de).parser.read.data(), mut_ref_current(seq.de).parser.read.idx() as int).0,
            mut_ref_future(seq.de).parser.read.idx() == self.seq_out(mut_ref_current(seq.de).parser.read.data(), mut_ref_current(seq.de).parser.read.idx() as int).1;
    fn visit_map<'a, R: Reader<'de>>(self, map: MapAccess<'a, R>) -> (r: Result<Self::Value>)
        requires map.de.parser.pinv(), map.first, self.map_start_ok(map.de.parser.read.data(), map.de.parser.read.idx() as int),
        ensures mut_ref_future(map.de).parser.pinv(), mut_ref_future(map.de).parser.same_doc(&mut_ref_current(map.de).parser),
            r == self.map_out(mut_ref_current(map.de).parser.read.data(), mut_ref_current(map.de).parser.read.idx() as int).0,
            mut_ref_future(map.de).parser.read.idx() == self.map_out(mut_ref_current(map.de).parser.read.data(), mut_ref_current(map.de).parser.read.idx() as int).1;
    /// what visit_enum requires of the position it is started at: just after `{` (externally tagged), or at the opening
    /// quote of a bare variant name
    spec fn enum_start_ok(&self, s: Seq<u8>, idx: int, tagged: bool) -> bool;
    fn visit_enum_tagged<'a, R: Reader<'de>>(self, data: VariantAccess<'a, R>) -> (r: Result<Self::Value>)
        requires data.de.parser.pinv(), self.enum_start_ok(data.de.parser.read.data(), data.de.parser.read.idx() as int, true),
        ensures mut_ref_future(data.de).parser.pinv(), mut_ref_future(data.de).parser.same_doc(&mut_ref_current(data.de).parser);
    fn visit_enum_unit<'a, R: Reader<'de>>(self, data: UnitVariantAccess<'a, R>) -> (r: Result<Self::Value>)
        requires data.de.parser.pinv(), self.enum_start_ok(data.de.parser.read.data(), data.de.parser.read.idx() as int, false),
        ensures mut_ref_future(data.de).parser.pinv(), mut_ref_future(data.de).parser.same_doc(&mut_ref_current(data.de).parser);
    fn visit_some<R: Reader<'de>>(self, d: &mut Deserializer<R>) -> (r: Result<Self::Value>)
        requires old(d).parser.pinv(), self.some_start_ok(old(d).parser.read.data(), old(d).parser.read.idx() as int),
        ensures final(d).parser.pinv(), final(d).parser.same_doc(&old(d).parser);
}

impl<'de, R: Reader<'de>> Parser<R> {
    // Parser::parse_number: index arithmetic around sonic_number::parse_number (unit `number`)
    #[verifier::external_body]
    pub fn parse_number(&mut self, first: u8) -> (res: Result<ParserNumber>)
        requires old(self).pinv(), old(self).read.idx() >= 1, first == old(self).read.data()[old(self).read.idx() - 1], first == 0x2d || is_digit(first),
            // proved for the real wrapper in unit `typed_num`: the reader steps back one byte, the whitespace cache must not start after it
            old(self).nospace_start == -128 || old(self).nospace_start <= old(self).read.idx() - 1,
        ensures final(self).pinv(), final(self).same_doc(old(self)),
    { unimplemented!() }
//@extract file=src/parser.rs impl="Parser<R>" fn=fix_position
//@sig
        requires self.pinv(),
        // an error without a position gets one (here, at the reader); one that has a position keeps it
        ensures res.has_pos, err.has_pos ==> res == err,
//@end
    // the NON-validating skipper (not called by the code under contract here; present so that a change that swaps it in
    // for the validating one is decided, not undecided): what unit `unchecked` proves about it — it equals skip_one
    // on a well-formed value in a well-formed context, and nothing is known otherwise
    #[verifier::external_body]
    pub fn skip_one_unchecked(&mut self) -> (res: Result<(&'de [u8], ParseStatus)>)
        requires old(self).pinv(),
        ensures final(self).pinv(), final(self).same_doc(old(self)), final(self).read.idx() >= old(self).read.idx(),
            value_end(old(self).read.data(), old(self).read.idx() as int).is_some()
                && follow_ok(old(self).read.data(), value_end(old(self).read.data(), old(self).read.idx() as int).unwrap())
                ==> res.is_ok() && final(self).read.idx() == value_end(old(self).read.data(), old(self).read.idx() as int).unwrap(),
    { unimplemented!() }
    #[verifier::external_body]
    pub fn parse_str<'own>(&mut self, buf: &'own mut Vec<u8>) -> (res: Result<Reference<'de, 'own, str>>)
        requires old(self).pinv(),
        ensures final(self).pinv(), final(self).same_doc(old(self)),
            res.is_ok() ==> str_end(old(self).read.data(), old(self).read.idx() as int) == Some(final(self).read.idx() as int)
                && (match res.unwrap() { Reference::Borrowed(t) => str_bytes(t), Reference::Copied(t) => str_bytes(t) })
                    == decoded(old(self).read.data(), old(self).read.idx() as int, final(self).read.idx() - 1)
                // proved for the real parse_str in unit `strings`: a borrowed result has no escape; in the default
                // configuration it is borrowed exactly when it has no escape (utf8_lossy: a repaired text is a copy)
                && ((res.unwrap() is Borrowed) ==> !has_bs(old(self).read.data(), old(self).read.idx() as int, final(self).read.idx() as int))
                && (!old(self).cfg.utf8_lossy ==> ((res.unwrap() is Borrowed) <==> !has_bs(old(self).read.data(), old(self).read.idx() as int, final(self).read.idx() as int))),
            str_end(old(self).read.data(), old(self).read.idx() as int).is_none() ==> res.is_err(),
            final(self).read.idx() >= old(self).read.idx(),
    { unimplemented!() }
}

/// the callback a string literal makes: its decoded text, borrowed exactly when it has no escape — with utf8_lossy a
/// text that had to be repaired is handed over as a copy even without an escape
pub open spec fn str_call<'de, V: Visitor<'de>>(visitor: V, res: Result<V::Value>, text: Seq<u8>, no_escape: bool, lossy: bool) -> bool {
    res == visitor.on_str(text, no_escape) || (lossy && res == visitor.on_str(text, false))
}

/// the array encoding started at `[` (position p): the visitor's own result, provided the closing bracket follows
/// (after whitespace) what it consumed — nothing else can make it fail, nothing else can make it succeed
pub open spec fn seq_form<'de, V: Visitor<'de>>(visitor: V, s: Seq<u8>, p: int, res: Result<V::Value>, e: int) -> bool {
    let o = visitor.seq_out(s, p + 1);
    let c = ws_end(s, o.1);
    &&& (res.is_ok() <==> o.0.is_ok() && c < s.len() && s[c] == 0x5d)
    &&& (res.is_ok() ==> res == o.0 && e == c + 1)
}
pub open spec fn map_form<'de, V: Visitor<'de>>(visitor: V, s: Seq<u8>, p: int, res: Result<V::Value>, e: int) -> bool {
    let o = visitor.map_out(s, p + 1);
    let c = ws_end(s, o.1);
    &&& (res.is_ok() <==> o.0.is_ok() && c < s.len() && s[c] == 0x7d)
    &&& (res.is_ok() ==> res == o.0 && e == c + 1)
}

//@extract file=src/serde/de.rs fn=visit_number
//@subst /V: de::Visitor<'de>,/ => V: Visitor<'de>,
//@sig
    ensures res == (match *num { ParserNumber::Float(x) => visitor.on_f64(x), ParserNumber::Unsigned(x) => visitor.on_u64(x), ParserNumber::Signed(x) => visitor.on_i64(x) }),
//@end

impl<'de, R: Reader<'de>> Deserializer<R> {
    // substitution target for `let _ = DepthGuard::guard(self);` — the guard is dropped at once (known finding F1a):
    // remaining_depth goes down and up again, nothing else changes
    #[verifier::external_body]
    pub fn depth_guard_tick(&mut self)
        ensures final(self).parser == old(self).parser,
    { unimplemented!() }
    #[verifier::external_body]
    pub fn end_seq(&mut self) -> (res: Result<()>)
        requires old(self).parser.pinv(),
        ensures final(self).parser.pinv(), final(self).parser.same_doc(&old(self).parser),
            ({ let s = old(self).parser.read.data(); let c = ws_end(s, old(self).parser.read.idx() as int);
               (res.is_ok() <==> (c < s.len() && s[c] == 0x5d)) && (res.is_ok() ==> final(self).parser.read.idx() == c + 1) }),
    { unimplemented!() }
    #[verifier::external_body]
    pub fn end_map(&mut self) -> (res: Result<()>)
        requires old(self).parser.pinv(),
        ensures final(self).parser.pinv(), final(self).parser.same_doc(&old(self).parser),
            ({ let s = old(self).parser.read.data(); let c = ws_end(s, old(self).parser.read.idx() as int);
               (res.is_ok() <==> (c < s.len() && s[c] == 0x7d)) && (res.is_ok() ==> final(self).parser.read.idx() == c + 1) }),
    { unimplemented!() }

//@extract file=src/serde/de.rs impl="de::Deserializer<'de> for &'a mut Deserializer<R>" fn=deserialize_seq
//@subst /fn deserialize_seq<V>\(self,/ => fn deserialize_seq<V>(&mut self,
//@subst /self\.peek_invalid_type\(peek, &visitor\)/ => self.peek_invalid_type_v(peek)
//@subst /let _ = DepthGuard::guard\(self\);/ => self.depth_guard_tick();
//@subst /V: de::Visitor<'de>,/ => V: Visitor<'de>,
//@sig
        requires old(self).parser.pinv(),
            ({
                let s = old(self).parser.read.data();
                let p = ws_end(s, old(self).parser.read.idx() as int);
                p < s.len() && s[p] == 0x5b ==> visitor.seq_start_ok(s, p + 1)
            }),
        ensures final(self).parser.pinv(), final(self).parser.same_doc(&old(self).parser),
            res.is_ok() ==> ws_end(old(self).parser.read.data(), old(self).parser.read.idx() as int) < old(self).parser.read.data().len(),
            res.is_ok() ==> old(self).parser.read.data()[ws_end(old(self).parser.read.data(), old(self).parser.read.idx() as int)] == 0x5b,
            res.is_ok() ==> final(self).parser.read.idx() >= 1,
            res.is_ok() ==> old(self).parser.read.data()[final(self).parser.read.idx() - 1] == 0x5d,
            // complete: at a `[` the outcome is exactly the visitor's, given the closing bracket
            ({
                let s = old(self).parser.read.data();
                let p = ws_end(s, old(self).parser.read.idx() as int);
                p < s.len() && s[p] == 0x5b ==> seq_form(visitor, s, p, res, final(self).parser.read.idx() as int)
            }),
//@body
        proof { lemma_ws_end_bounds(self.parser.read.data(), self.parser.read.idx() as int); }
//@before /match \(ret, self\.end_seq\(\)\) \{/
                proof { lemma_ws_end_bounds(self.parser.read.data(), self.parser.read.idx() as int); }
//@end

//@extract file=src/serde/de.rs impl="de::Deserializer<'de> for &'a mut Deserializer<R>" fn=deserialize_map
//@subst /fn deserialize_map<V>\(self,/ => fn deserialize_map<V>(&mut self,
//@subst /self\.peek_invalid_type\(peek, &visitor\)/ => self.peek_invalid_type_v(peek)
//@subst /let _ = DepthGuard::guard\(self\);/ => self.depth_guard_tick();
//@subst /V: de::Visitor<'de>,/ => V: Visitor<'de>,
//@sig
        requires old(self).parser.pinv(),
            ({
                let s = old(self).parser.read.data();
                let p = ws_end(s, old(self).parser.read.idx() as int);
                p < s.len() && s[p] == 0x7b ==> visitor.map_start_ok(s, p + 1)
            }),
        ensures final(self).parser.pinv(), final(self).parser.same_doc(&old(self).parser),
            ({
                let s = old(self).parser.read.data();
                let p = ws_end(s, old(self).parser.read.idx() as int);
                &&& (res.is_ok() ==> p < s.len() && s[p] == 0x7b && final(self).parser.read.idx() >= 1 && s[final(self).parser.read.idx() - 1] == 0x7d)
                // complete: at a `{` the outcome is exactly the visitor's, given the closing brace
                &&& (p < s.len() && s[p] == 0x7b ==> map_form(visitor, s, p, res, final(self).parser.read.idx() as int))
            }),
//@body
        proof { lemma_ws_end_bounds(self.parser.read.data(), self.parser.read.idx() as int); }
//@before /match \(ret, self\.end_map\(\)\) \{/
                proof { lemma_ws_end_bounds(self.parser.read.data(), self.parser.read.idx() as int); }
//@end

//@extract file=src/serde/de.rs impl="de::Deserializer<'de> for &'a mut Deserializer<R>" fn=deserialize_struct
//@subst /fn deserialize_struct<V>\(\s*self,/ => fn deserialize_struct<V>(&mut self,
//@subst /self\.peek_invalid_type\(peek, &visitor\)/ => self.peek_invalid_type_v(peek)
//@subst /let _ = DepthGuard::guard\(self\);/ => self.depth_guard_tick(); #all
//@subst /V: de::Visitor<'de>,/ => V: Visitor<'de>,
//@sig
        requires old(self).parser.pinv(),
            ({
                let s = old(self).parser.read.data();
                let p = ws_end(s, old(self).parser.read.idx() as int);
                &&& (p < s.len() && s[p] == 0x7b ==> visitor.map_start_ok(s, p + 1))
                &&& (p < s.len() && s[p] == 0x5b ==> visitor.seq_start_ok(s, p + 1))
            }),
        ensures final(self).parser.pinv(), final(self).parser.same_doc(&old(self).parser),
            // a struct is read from an object or from an array (serde's two struct encodings), nothing else; the
            // matching closing bracket must follow what the visitor consumed
            res.is_ok() ==> ws_end(old(self).parser.read.data(), old(self).parser.read.idx() as int) < old(self).parser.read.data().len(),
            res.is_ok() ==> final(self).parser.read.idx() >= 1,
            res.is_ok() ==> ({
                let s = old(self).parser.read.data();
                let p = ws_end(s, old(self).parser.read.idx() as int);
                (s[p] == 0x7b && s[final(self).parser.read.idx() - 1] == 0x7d) || (s[p] == 0x5b && s[final(self).parser.read.idx() - 1] == 0x5d)
            }),
            // complete, for BOTH encodings serde_json accepts: object form and array form
            ({
                let s = old(self).parser.read.data();
                let p = ws_end(s, old(self).parser.read.idx() as int);
                &&& (p < s.len() && s[p] == 0x7b ==> map_form(visitor, s, p, res, final(self).parser.read.idx() as int))
                &&& (p < s.len() && s[p] == 0x5b ==> seq_form(visitor, s, p, res, final(self).parser.read.idx() as int))
            }),
//@body
        proof { lemma_ws_end_bounds(self.parser.read.data(), self.parser.read.idx() as int); }
//@before /match \(ret, self\.end_seq\(\)\) \{/
                proof { lemma_ws_end_bounds(self.parser.read.data(), self.parser.read.idx() as int); }
//@before /match \(ret, self\.end_map\(\)\) \{/
                proof { lemma_ws_end_bounds(self.parser.read.data(), self.parser.read.idx() as int); }
//@end

//@extract file=src/serde/de.rs impl="de::Deserializer<'de> for &'a mut Deserializer<R>" fn=deserialize_any
//@subst /fn deserialize_any<V>\(self,/ => fn deserialize_any<V>(&mut self,
//@subst /let _ = DepthGuard::guard\(self\);/ => self.depth_guard_tick(); #all
//@subst /V: de::Visitor<'de>,/ => V: Visitor<'de>,
//@sig
        requires old(self).parser.pinv(),
            ({
                let s = old(self).parser.read.data();
                let p = ws_end(s, old(self).parser.read.idx() as int);
                &&& (p < s.len() && s[p] == 0x7b ==> visitor.map_start_ok(s, p + 1))
                &&& (p < s.len() && s[p] == 0x5b ==> visitor.seq_start_ok(s, p + 1))
            }),
        ensures final(self).parser.pinv(), final(self).parser.same_doc(&old(self).parser),
            // self-describing dispatch on the first byte: literals hand over exactly their value, a string its decoded
            // text (borrowed iff no escape), containers need their closing bracket; any other first byte is an error
            res.is_ok() ==> ({
                let s = old(self).parser.read.data();
                let p = ws_end(s, old(self).parser.read.idx() as int);
                let e = final(self).parser.read.idx() as int;
                &&& p < s.len()
                &&& (s[p] == 0x6e ==> lit_end(s, p + 1, ull()).is_some() && res == visitor.on_unit() && e == p + 4)
                &&& (s[p] == 0x74 ==> lit_end(s, p + 1, rue()).is_some() && res == visitor.on_bool(true) && e == p + 4)
                &&& (s[p] == 0x66 ==> lit_end(s, p + 1, alse()).is_some() && res == visitor.on_bool(false) && e == p + 5)
                &&& (s[p] == 0x22 ==> str_end(s, p + 1) == Some(e) && str_call(visitor, res, decoded(s, p + 1, e - 1), !has_bs(s, p + 1, e), old(self).parser.cfg.utf8_lossy))
                &&& (s[p] == 0x5b ==> e >= 1 && s[e - 1] == 0x5d)
                &&& (s[p] == 0x7b ==> e >= 1 && s[e - 1] == 0x7d)
                &&& (s[p] == 0x6e || s[p] == 0x74 || s[p] == 0x66 || s[p] == 0x22 || s[p] == 0x5b || s[p] == 0x7b || s[p] == 0x2d || is_digit(s[p]))
            }),
//@body
        proof { lemma_ws_end_bounds(self.parser.read.data(), self.parser.read.idx() as int); axiom_lits(); }
//@before /match \(ret, self\.end_seq\(\)\) \{/
                proof { lemma_ws_end_bounds(self.parser.read.data(), self.parser.read.idx() as int); }
//@before /match \(ret, self\.end_map\(\)\) \{/
                proof { lemma_ws_end_bounds(self.parser.read.data(), self.parser.read.idx() as int); }
//@end

//@extract file=src/serde/de.rs impl="de::Deserializer<'de> for &'a mut Deserializer<R>" fn=deserialize_enum
//@subst /fn deserialize_enum<V>\(\s*self,/ => fn deserialize_enum<V>(&mut self,
//@subst /let _ = DepthGuard::guard\(self\);/ => self.depth_guard_tick();
//@subst /visitor\.visit_enum\(VariantAccess::new\(self\)\)/ => visitor.visit_enum_tagged(VariantAccess::new(self))
//@subst /visitor\.visit_enum\(UnitVariantAccess::new\(self\)\)/ => visitor.visit_enum_unit(UnitVariantAccess::new(self))
//@subst /V: de::Visitor<'de>,/ => V: Visitor<'de>,
//@sig
        requires old(self).parser.pinv(),
            ({
                let s = old(self).parser.read.data();
                let p = ws_end(s, old(self).parser.read.idx() as int);
                &&& (p < s.len() && s[p] == 0x7b ==> visitor.enum_start_ok(s, p + 1, true))
                &&& (p < s.len() && s[p] == 0x22 ==> visitor.enum_start_ok(s, p, false))
            }),
        ensures final(self).parser.pinv(), final(self).parser.same_doc(&old(self).parser),
            // an enum is `"Variant"` or `{"Variant": value}` — for the tagged form the closing brace must follow (after
            // whitespace) what the visitor consumed; any other first byte is an error
            res.is_ok() ==> ({
                let s = old(self).parser.read.data();
                let p = ws_end(s, old(self).parser.read.idx() as int);
                &&& p < s.len() && (s[p] == 0x7b || s[p] == 0x22)
                &&& (s[p] == 0x7b ==> final(self).parser.read.idx() >= 1 && s[final(self).parser.read.idx() - 1] == 0x7d)
            }),
//@body
        proof { lemma_ws_end_bounds(self.parser.read.data(), self.parser.read.idx() as int); }
//@before /match self\.parser\.skip_space\(\) \{/
                proof { lemma_ws_end_bounds(self.parser.read.data(), self.parser.read.idx() as int); }
//@end

    #[verifier::external_body]
    pub fn peek_invalid_type_v(&mut self, peek: u8) -> (e: Error)
        // Parser::peek_invalid_type, proved in unit `typed_err`: it may step back one byte (onto `[` / `{`), and the
        // error it returns is positioned inside the input
        requires old(self).parser.pinv(), old(self).parser.read.idx() >= 1, peek == old(self).parser.read.data()[old(self).parser.read.idx() - 1],
            old(self).parser.nospace_start == -128 || old(self).parser.nospace_start <= old(self).parser.read.idx() - 1,
        ensures final(self).parser.pinv(), final(self).parser.same_doc(&old(self).parser), err_ok(e, old(self).parser.read.data()),
    { unimplemented!() }

//@extract file=src/serde/de.rs impl="de::Deserializer<'de> for &'a mut Deserializer<R>" fn=deserialize_bool
//@subst /fn deserialize_bool<V>\(self,/ => fn deserialize_bool<V>(&mut self,
//@subst /self\.peek_invalid_type\(peek, &visitor\)/ => self.peek_invalid_type_v(peek)
//@subst /V: de::Visitor<'de>,/ => V: Visitor<'de>,
//@sig
        requires old(self).parser.pinv(),
        ensures final(self).parser.pinv(), final(self).parser.same_doc(&old(self).parser),
            ({
                let s = old(self).parser.read.data();
                let p = ws_end(s, old(self).parser.read.idx() as int);
                let is_true = p < s.len() && s[p] == 0x74 && lit_end(s, p + 1, rue()).is_some();
                let is_false = p < s.len() && s[p] == 0x66 && lit_end(s, p + 1, alse()).is_some();
                // accepts exactly the two literals, and the visitor sees exactly that boolean
                &&& (res.is_ok() ==> (is_true && res == visitor.on_bool(true) && final(self).parser.read.idx() == p + 4)
                                  || (is_false && res == visitor.on_bool(false) && final(self).parser.read.idx() == p + 5))
                &&& (is_true && visitor.on_bool(true).is_ok() ==> res == visitor.on_bool(true))
                &&& (is_false && visitor.on_bool(false).is_ok() ==> res == visitor.on_bool(false))
            }),
//@body
        proof { lemma_ws_end_bounds(self.parser.read.data(), self.parser.read.idx() as int); axiom_lits(); }
//@end

//@extract file=src/serde/de.rs impl="de::Deserializer<'de> for &'a mut Deserializer<R>" fn=deserialize_unit
//@subst /fn deserialize_unit<V>\(self,/ => fn deserialize_unit<V>(&mut self,
//@subst /self\.peek_invalid_type\(peek, &visitor\)/ => self.peek_invalid_type_v(peek)
//@subst /V: de::Visitor<'de>,/ => V: Visitor<'de>,
//@sig
        requires old(self).parser.pinv(),
        ensures final(self).parser.pinv(), final(self).parser.same_doc(&old(self).parser),
            ({
                let s = old(self).parser.read.data();
                let p = ws_end(s, old(self).parser.read.idx() as int);
                let is_null = p < s.len() && s[p] == 0x6e && lit_end(s, p + 1, ull()).is_some();
                &&& (res.is_ok() ==> is_null && res == visitor.on_unit() && final(self).parser.read.idx() == p + 4)
                &&& (is_null && visitor.on_unit().is_ok() ==> res == visitor.on_unit())
            }),
//@body
        proof { lemma_ws_end_bounds(self.parser.read.data(), self.parser.read.idx() as int); axiom_lits(); }
//@end

//@extract file=src/serde/de.rs impl="de::Deserializer<'de> for &'a mut Deserializer<R>" fn=deserialize_option
//@subst /fn deserialize_option<V>\(self,/ => fn deserialize_option<V>(&mut self,
//@subst /V: de::Visitor<'de>,/ => V: Visitor<'de>,
//@sig
        requires old(self).parser.pinv(),
            // the value deserializer behind `Some` accepts the position of the first non-whitespace byte
            ({
                let s = old(self).parser.read.data();
                let p = ws_end(s, old(self).parser.read.idx() as int);
                !(p < s.len() && s[p] == 0x6e) ==> visitor.some_start_ok(s, p)
            }),
        ensures final(self).parser.pinv(), final(self).parser.same_doc(&old(self).parser),
            ({
                let s = old(self).parser.read.data();
                let p = ws_end(s, old(self).parser.read.idx() as int);
                // `null` (and only a complete `null`) is None; a value starting with `n` that is not `null` is an error
                &&& (p < s.len() && s[p] == 0x6e ==> (res.is_ok() ==> lit_end(s, p + 1, ull()).is_some() && res == visitor.on_none() && final(self).parser.read.idx() == p + 4))
                &&& (p < s.len() && s[p] == 0x6e && lit_end(s, p + 1, ull()).is_some() ==> res == visitor.on_none())
            }),
//@body
        proof { lemma_ws_end_bounds(self.parser.read.data(), self.parser.read.idx() as int); axiom_lits(); }
//@end

//@extract file=src/serde/de.rs impl="de::Deserializer<'de> for &'a mut Deserializer<R>" fn=deserialize_str
//@subst /fn deserialize_str<V>\(self,/ => fn deserialize_str<V>(&mut self,
//@subst /self\.peek_invalid_type\(peek, &visitor\)/ => self.peek_invalid_type_v(peek)
//@subst /V: de::Visitor<'de>,/ => V: Visitor<'de>,
//@sig
        requires old(self).parser.pinv(),
        ensures final(self).parser.pinv(), final(self).parser.same_doc(&old(self).parser),
            ({
                let s = old(self).parser.read.data();
                let p = ws_end(s, old(self).parser.read.idx() as int);
                // only a string literal is accepted; the visitor gets its decoded text, borrowed iff it has no escape
                res.is_ok() ==> p < s.len() && s[p] == 0x22 && str_end(s, p + 1).is_some()
                    && final(self).parser.read.idx() == str_end(s, p + 1).unwrap()
                    && str_call(visitor, res, decoded(s, p + 1, str_end(s, p + 1).unwrap() - 1), !has_bs(s, p + 1, str_end(s, p + 1).unwrap()), old(self).parser.cfg.utf8_lossy)
            }),
//@body
        proof { lemma_ws_end_bounds(self.parser.read.data(), self.parser.read.idx() as int); }
//@end

//@extract file=src/serde/de.rs impl="de::Deserializer<'de> for &'a mut Deserializer<R>" fn=deserialize_ignored_any
//@subst /fn deserialize_ignored_any<V>\(self,/ => fn deserialize_ignored_any<V>(&mut self,
//@subst /V: de::Visitor<'de>,/ => V: Visitor<'de>,
//@sig
        requires old(self).parser.pinv(),
        ensures final(self).parser.pinv(), final(self).parser.same_doc(&old(self).parser),
            // an ignored value must still be one well-formed value (it is skipped with the VALIDATING skipper)
            res.is_ok() ==> value_end(old(self).parser.read.data(), old(self).parser.read.idx() as int) == Some(final(self).parser.read.idx() as int)
                && res == visitor.on_unit(),
            value_end(old(self).parser.read.data(), old(self).parser.read.idx() as int).is_none() ==> res.is_err(),
//@end
}

// ---- the content side of an externally tagged variant `{"Variant": content}`: tuple / struct variants read their content
// with the sequence / struct entry points (a struct variant in BOTH encodings, as serde_json)
impl<'de, 'a, R: Reader<'de> + 'a> VariantAccess<'a, R> {
    #[verifier::prophetic]
    pub open spec fn fut(&self) -> Deserializer<R> { mut_ref_future(self.de) }
    pub open spec fn cur(&self) -> Deserializer<R> { *self.de }
//@extract file=src/serde/de.rs impl="de::VariantAccess<'de> for VariantAccess<'a, R>" fn=tuple_variant
//@subst /de::Deserializer::(\w+)\(self\.de, / => self.de.\1(
//@subst /V: de::Visitor<'de>,/ => V: Visitor<'de>,
//@sig
        requires self.cur().parser.pinv(),
            ({
                let s = self.cur().parser.read.data();
                let p = ws_end(s, self.cur().parser.read.idx() as int);
                p < s.len() && s[p] == 0x5b ==> visitor.seq_start_ok(s, p + 1)
            }),
        ensures self.fut().parser.pinv(), self.fut().parser.same_doc(&self.cur().parser),
            ({
                let s = self.cur().parser.read.data();
                let p = ws_end(s, self.cur().parser.read.idx() as int);
                &&& (res.is_ok() ==> p < s.len() && s[p] == 0x5b)
                &&& (p < s.len() && s[p] == 0x5b ==> seq_form(visitor, s, p, res, self.fut().parser.read.idx() as int))
            }),
//@end
//@extract file=src/serde/de.rs impl="de::VariantAccess<'de> for VariantAccess<'a, R>" fn=struct_variant
//@subst /de::Deserializer::(\w+)\(self\.de, / => self.de.\1(
//@subst /V: de::Visitor<'de>,/ => V: Visitor<'de>,
//@sig
        requires self.cur().parser.pinv(),
            ({
                let s = self.cur().parser.read.data();
                let p = ws_end(s, self.cur().parser.read.idx() as int);
                &&& (p < s.len() && s[p] == 0x7b ==> visitor.map_start_ok(s, p + 1))
                &&& (p < s.len() && s[p] == 0x5b ==> visitor.seq_start_ok(s, p + 1))
            }),
        ensures self.fut().parser.pinv(), self.fut().parser.same_doc(&self.cur().parser),
            ({
                let s = self.cur().parser.read.data();
                let p = ws_end(s, self.cur().parser.read.idx() as int);
                &&& (res.is_ok() ==> p < s.len() && (s[p] == 0x7b || s[p] == 0x5b))
                &&& (p < s.len() && s[p] == 0x7b ==> map_form(visitor, s, p, res, self.fut().parser.read.idx() as int))
                &&& (p < s.len() && s[p] == 0x5b ==> seq_form(visitor, s, p, res, self.fut().parser.read.idx() as int))
            }),
//@end
}

// ---- the entry point behind from_str / from_slice / from_reader-less paths
/// stand-in for serde::Deserialize: some program that consumes a prefix of the rest of the input
pub trait Deserialize<'de>: Sized {
    /// where this type's deserializer stops on the text s when started at 0 (uninterpreted per type)
    spec fn consumed(s: Seq<u8>) -> int;
    fn deserialize<R: Reader<'de>>(d: &mut Deserializer<R>) -> (r: Result<Self>)
        requires old(d).parser.pinv(),
        ensures final(d).parser.pinv(), final(d).parser.same_doc(&old(d).parser),
            (r.is_ok() && old(d).parser.read.idx() == 0) ==> final(d).parser.read.idx() == Self::consumed(old(d).parser.read.data());
}
impl Error {
    // accessors of the real error type (unit `errors`): line 0 means "no position"
    #[verifier::external_body]
    pub fn line(&self) -> (r: usize) ensures (r == 0) <==> !self.has_pos, { unimplemented!() }
    #[verifier::external_body]
    pub fn error_code(&self) -> (r: ErrorCode) { unimplemented!() }
}
impl<'de, R: Reader<'de>> Parser<R> {
    // proved for the real function in unit `strings`
    #[verifier::external_body]
    pub fn check_invalid_utf8(&mut self, allowed: bool) -> (res: Result<bool>)
        requires old(self).pinv(),
        ensures final(self).pinv(), final(self).same_doc(old(self)), final(self).same_cache(old(self)), final(self).read.idx() == old(self).read.idx(),
            old(self).utf8_clean() ==> res.is_ok() && !res.unwrap() && final(self).utf8_clean(),
            !old(self).utf8_clean() && !allowed ==> res.is_err(),
            !old(self).utf8_clean() && allowed ==> res.is_ok() && res.unwrap(),
            res.is_err() ==> res.unwrap_err().has_pos,
    { unimplemented!() }
}
impl<'de, R: Reader<'de>> Deserializer<R> {
//@extract file=src/serde/de.rs impl="Deserializer<R>" fn=deserialize
//@subst /T: de::Deserialize<'de>,/ => T: Deserialize<'de>,
//@subst /de::Deserialize::deserialize\((&mut \*)?self\)/ => T::deserialize(&mut *self)
//@sig
        requires old(self).parser.pinv(),
        ensures final(self).parser.pinv(), final(self).parser.same_doc(&old(self).parser),
            // C02, UTF-8 half (found F22): whatever T's deserializer did — skipped strings and DOM-parsed strings are not
            // validated one by one — a document is handed out in the default configuration only if no invalid UTF-8 lies
            // in what has been consumed
            (res.is_ok() && !old(self).parser.cfg.utf8_lossy) ==> final(self).parser.utf8_clean(),
            // C20 (found F23): whatever made the error — the parser, a visitor, derived code after the deserializer
            // returned — it leaves this entry point with a position
            res.is_err() ==> (res->Err_0).has_pos,
//@end

    #[verifier::external_body]
    pub fn new(read: R) -> (d: Self)
        requires read.wf(), read.idx() == 0, read.data().len() <= 0x3fff_ffff_ffff_ffff,
        ensures d.parser.pinv(), d.parser.read.data() == read.data(), d.parser.read.idx() == 0,
    { unimplemented!() }
}
// substitution target for `crate::error::make_error(format!(..len..))`
#[verifier::external_body]
pub fn too_large_error(len: usize) -> (e: Error) { unimplemented!() }

//@extract file=src/serde/de.rs fn=from_trait
//@subst /T: de::Deserialize<'de>,/ => T: Deserialize<'de>,
//@subst /crate::error::make_error\(format!\(\s*"Only support JSON less than 4 GB, the input JSON is too large here, len is \{len\}"\s*\)\)/ => too_large_error(len)
//@subst /de::Deserialize::deserialize\(&mut de\)/ => T::deserialize(&mut de)
//@sig
    requires read.wf(), read.idx() == 0,
    ensures
        // the 4 GB guard, "the whole input has been consumed" and the deferred UTF-8 verdict: a value is returned only
        // if the input is at most u32::MAX bytes long and nothing but whitespace follows what T's deserializer consumed
        res.is_ok() ==> read.data().len() <= 0xffff_ffff && ws_end(read.data(), T::consumed(read.data())) == read.data().len(),
        // C20 (found F23): every error of an input within the size limit leaves with a position
        (res.is_err() && read.data().len() <= 0xffff_ffff) ==> (res->Err_0).has_pos,
//@end

// ---- LazyValue as a target: the skipped text is handed out as a `str` (found F25: the UTF-8 verdict was never looked at)
pub uninterp spec fn lossy_repair(b: Seq<u8>) -> Seq<u8>;
// `String::from_utf8_lossy(raw)` (std, T4)
pub struct LossyText { pub text: String }
impl LossyText {
    pub uninterp spec fn bytes(&self) -> Seq<u8>;
    #[verifier::external_body]
    pub fn as_str(&self) -> (r: &str) ensures str_bytes(r) == self.bytes(), { unimplemented!() }
}
#[verifier::external_body]
pub fn lossy_cow(raw: &[u8]) -> (r: LossyText) ensures r.bytes() == lossy_repair(raw@), { unimplemented!() }
impl<'de, R: Reader<'de>> Deserializer<R> {
//@extract file=src/serde/de.rs impl="Deserializer<R>" fn=deserialize_lazyvalue
//@subst /V: de::Visitor<'de>,/ => V: Visitor<'de>,
//@subst? /visitor\.visit_str\(&String::from_utf8_lossy\(raw\)\)/ => visitor.visit_str(lossy_cow(raw).as_str())
//@subst /status == ParseStatus::HasEscaped/ => status_is_escaped(status)
//@sig
        requires old(self).parser.pinv(),
        ensures final(self).parser.pinv(), final(self).parser.same_doc(&old(self).parser),
            ({
                let s = old(self).parser.read.data();
                let i = old(self).parser.read.idx() as int;
                let p = ws_end(s, i);
                let lossy = old(self).parser.cfg.utf8_lossy;
                // exactly one well-formed value is skipped (validating skipper) ...
                &&& (res.is_ok() ==> value_end(s, i) == Some(final(self).parser.read.idx() as int))
                // ... and its text is handed out as a `str` only after the UTF-8 verdict: in the default configuration
                // the consumed part is clean, and the visitor gets the exact source span, borrowed unless it is a
                // string with an escape; in lossy mode it gets that or the repaired text as a copy
                &&& (res.is_ok() && !lossy ==> final(self).parser.utf8_clean())
                &&& (res.is_ok() ==> ({
                        let e = value_end(s, i).unwrap();
                        let plain = visitor.on_str(s.subrange(p, e), !(s[p] == 0x22 && has_bs(s, p + 1, e)));
                        res == plain || (lossy && res == visitor.on_str(lossy_repair(s.subrange(p, e)), false))
                    }))
            }),
//@end
}
// ---- OwnedLazyValue as a target
#[verifier::external_body]
pub struct OwnedLazyValue { _p: core::marker::PhantomData<()> }
// `crate::from_str(&String::from_utf8_lossy(raw))`: the value built from the repaired text (another whole-input parse)
#[verifier::external_body]
pub fn owned_from_lossy(raw: &[u8]) -> (r: Result<OwnedLazyValue>) { unimplemented!() }
// `ManuallyDrop::new(v)`: the same value, not dropped at the end of the scope
pub fn no_drop<T>(v: T) -> (r: T) ensures r == v, { v }
// the unsafe hand-over of the finished value to its visitor as raw bytes (`ManuallyDrop` + `visit_bytes`)
#[verifier::external_body]
pub fn hand_over_owned<'de, V: Visitor<'de>>(visitor: V, val: OwnedLazyValue) -> (r: Result<V::Value>) { unimplemented!() }
impl<'de, R: Reader<'de>> Parser<R> {
    // proved in unit `owned_load` (exactly one well-formed value, children kept with their exact spans)
    #[verifier::external_body]
    pub fn get_owned_lazyvalue(&mut self, strict: bool) -> (res: Result<OwnedLazyValue>)
        requires old(self).pinv(),
        ensures final(self).pinv(), final(self).same_doc(old(self)), final(self).read.idx() >= old(self).read.idx(),
    { unimplemented!() }
}
impl<'de, R: Reader<'de>> Deserializer<R> {
//@extract file=src/serde/de.rs impl="Deserializer<R>" fn=deserialize_owned_lazyvalue
//@subst /V: de::Visitor<'de>,/ => V: Visitor<'de>,
//@subst? /crate::from_str\(&String::from_utf8_lossy\(raw\)\)\?/ => owned_from_lossy(raw)?
//@subst /ManuallyDrop::new\(/ => no_drop(
//@subst /unsafe \{\s*let binary = &\*slice_from_raw_parts\(\s*&val as \*const _ as \*const u8,\s*std::mem::size_of::<OwnedLazyValue>\(\),\s*\);\s*visitor\.visit_bytes\(binary\)\s*\}/ => hand_over_owned(visitor, val)
//@sig
        requires old(self).parser.pinv(),
        ensures final(self).parser.pinv(), final(self).parser.same_doc(&old(self).parser),
            // the raw parts are kept as `str`: in the default configuration a value is only handed out when the consumed
            // part holds no invalid UTF-8 (lossy: it is rebuilt from the repaired text)
            res.is_ok() && !old(self).parser.cfg.utf8_lossy ==> final(self).parser.utf8_clean(),
//@end
}
// `status == ParseStatus::HasEscaped` (derived PartialEq on a field-less enum)
#[verifier::external_body]
pub fn status_is_escaped(st: ParseStatus) -> (r: bool) ensures r == is_esc_status(st), { unimplemented!() }

// ---- Value as a target: Deserializer::deserialize_value. The DOM parser itself is units `decoder` /
// `decoder_inplace`; here: the reader arithmetic around it (found F19, F24 at this call site)
#[verifier::external_body]
pub struct Value { _p: core::marker::PhantomData<()> }
/// opaque token for the `&mut Shared` the real code obtains through a raw pointer (`Arc::as_ptr(..) as *mut _`, unsafe:
/// outside Verus)
#[verifier::external_body]
pub struct SharedHandle { _p: core::marker::PhantomData<()> }
impl Value {
    #[verifier::external_body]
    pub fn new() -> (v: Value) { unimplemented!() }
    // the whole-input in-place parse over a padded private copy: the returned offset is what the caller advances its own
    // reader by. `Ok(n) ==> n <= len` is the F24 repair, checked on the real function by Kani
    // (dom_entry_past_end_is_error: the in-place parser may stop inside the padding)
    #[verifier::external_body]
    pub fn parse_with_padding(&mut self, json: &[u8], cfg: DeserializeCfg) -> (res: Result<usize>)
        // an error is located in the text the parser was GIVEN (for the lossy configuration: the repaired copy)
        ensures res.is_ok() ==> res->Ok_0 <= json@.len(), res.is_err() ==> (res->Err_0).has_pos && (res->Err_0).off <= json@.len(),
    { unimplemented!() }
    // the embedded parse (copy-out driver parse_dom2: unit `decoder`) on the caller's own parser
    #[verifier::external_body]
    pub fn parse_without_padding<'de, R: Reader<'de>>(&mut self, shared: SharedHandle, strbuf: &mut Vec<u8>, parser: &mut Parser<R>) -> (res: Result<()>)
        requires old(parser).pinv(),
        ensures final(parser).pinv(), final(parser).same_doc(old(parser)),
    { unimplemented!() }
}
impl Error {
    // Error::syntax (unit `errors`: requires the offset inside the text, stores it, line / column of that offset)
    #[verifier::external_body]
    pub fn syntax(code: ErrorCode, json: &[u8], index: usize) -> (e: Error)
        requires index <= json@.len(),
        ensures e.has_pos, e.off == index,
    { unimplemented!() }
    #[verifier::external_body]
    pub fn offset(&self) -> (r: usize) ensures r == self.off, { unimplemented!() }
}
// `String::from_utf8_lossy(json).as_bytes()`: the repaired text (std, T4)
#[verifier::external_body]
pub fn lossy_text(json: &[u8]) -> (r: Vec<u8>) { unimplemented!() }
// the unsafe hand-over of the finished Value to its visitor as raw bytes (`ManuallyDrop` + `visit_bytes`)
#[verifier::external_body]
// (the visitor is Value's own — the entry point is only reached through Value's TOKEN — and its visit_bytes cannot fail)
pub fn hand_over_value<'de, V: Visitor<'de>>(visitor: V, val: Value) -> (r: Result<V::Value>) ensures r.is_ok(), { unimplemented!() }

impl<'de, R: Reader<'de>> Deserializer<R> {
    #[verifier::external_body]
    pub fn shared_handle(&mut self) -> (h: SharedHandle)
        ensures final(self).parser == old(self).parser,
    { unimplemented!() }

//@extract file=src/serde/de.rs impl="Deserializer<R>" fn=deserialize_value
//@subst /V: de::Visitor<'de>,/ => V: Visitor<'de>,
//@subst /val\.parse_with_padding\(String::from_utf8_lossy\(json\)\.as_bytes\(\), cfg\)/ => val.parse_with_padding(lossy_text(json).as_slice(), cfg)
//@subst /unsafe \{\s*if self\.shared\.is_none\(\) \{\s*self\.shared = Some\(Arc::new\(Shared::default\(\)\)\);\s*\}\s*let shared = self\.shared\.as_mut\(\)\.unwrap\(\);\s*&mut \*\(Arc::as_ptr\(shared\) as \*mut _\)\s*\}/ => self.shared_handle()
//@subst /let val = ManuallyDrop::new\(val\);/ => let val = val;
//@subst /unsafe \{\s*let binary =\s*&\*slice_from_raw_parts\(&val as \*const _ as \*const u8, std::mem::size_of::<Value>\(\)\);\s*visitor\.visit_bytes\(binary\)\s*\}/ => hand_over_value(visitor, val)
//@sig
        requires old(self).parser.pinv(),
        // the reader stays inside the input — `eat(n)` after the whole-input parse is in range in both configurations —
        // and the document is untouched
        ensures final(self).parser.pinv(), final(self).parser.same_doc(&old(self).parser),
            // C20 (found F26): an error of the whole-input parse is located inside the INPUT, also when the text that
            // was parsed is the repaired copy of the lossy configuration
            (res.is_err() && old(self).parser.read.idx() == 0) ==> (res->Err_0).has_pos ==> (res->Err_0).off <= old(self).parser.read.data().len(),
//@end
}

// ---- lossy mode (found F19): the offset consumed in the repaired copy of the input is mapped back to the input
// substitution target for the `match std::str::from_utf8(&json[origin..]) { Ok(s) => (s.len(), 0), Err(e) => (..) }`
// expression: std's UTF-8 validation (T4) splits the rest into a valid prefix and, if it is not everything, one maximal
// invalid sequence of at least one byte
#[verifier::external_body]
pub fn utf8_split(json: &[u8], origin: usize) -> (r: (usize, usize))
    requires origin < json@.len(),
    ensures r.0 + r.1 <= json@.len() - origin, r.0 + r.1 >= 1, r.1 == 0 ==> r.0 == json@.len() - origin,
{ unimplemented!() }
//@extract file=src/serde/de.rs fn=lossy_offset_to_origin
//@attr
#[verifier::loop_isolation(false)]
//@subst /match std::str::from_utf8\(&json\[origin\.\.\]\) \{\s*Ok\(s\) => \(s\.len\(\), 0\),\s*Err\(e\) => \(\s*e\.valid_up_to\(\),\s*e\.error_len\(\)\.unwrap_or\(json\.len\(\) - origin - e\.valid_up_to\(\)\),\s*\),\s*\}/ => utf8_split(json, origin)
//@sig
    requires json@.len() <= 0x3fff_ffff_ffff_ffff,
    // the reader is advanced by this amount: it must stay inside the input
    ensures res <= json@.len(),
//@loop 1
        invariant origin <= json@.len(), lossy <= 3 * origin, lossy <= lossy_off,
        decreases json@.len() - origin,
//@end

} // verus!
fn main() {}
