// Verus unit `serializer` (C05: "compound state machine for commas/colons and empty containers"): the real
// Serializer::serialize_seq / serialize_map and the Compound implementation of SerializeSeq / SerializeMap
// (serialize_element, serialize_key, serialize_value, end) against the CALL TRACE they must drive into the formatter:
//   array of n elements:   BeginArray (BeginArrayValue(i == 0) <element> EndArrayValue)^n EndArray
//   object of n entries:   BeginObject (BeginObjectKey(i == 0) <key> EndObjectKey BeginObjectValue <value> EndObjectValue)^n EndObject
//   a container announced as empty (len == Some(0)) is closed at once and `end` adds nothing.
// The bytes of each formatter call are the subject of unit `formatter`. The formatter and the element / key / value
// serializers are arbitrary programs: they enter as traits whose only assumed behaviour is that a successful call
// appends its own events to the ghost trace and a failed call sets the ghost `failed` flag — so "a writer error is
// returned, never swallowed" is the postcondition `final.failed ==> Err`.
// Declared substitutions: `.map_err(Error::io)` -> `.map_io()` (same Ok/Err), the two method signatures of the
// `impl ser::Serializer for &mut Serializer` block are re-hosted on an inherent impl (`self` -> `&'a mut self`,
// `Self::SerializeSeq/Map` -> `Compound<'a, W, F>`), `key.serialize(MapKeySerializer { ser: *ser })` ->
// `key.serialize_as_key(&mut **ser)` (the map-key serializer is a program of its own, C04).
use vstd::prelude::*;
verus! {
pub enum FCall {
    BeginArray, EndArray, BeginArrayValue(bool), EndArrayValue,
    BeginObject, EndObject, BeginObjectKey(bool), EndObjectKey, BeginObjectValue, EndObjectValue,
    StrValue(Seq<u8>),
    BeginString, EndString, WriteBool(bool), WriteI64(i64), WriteU64(u64), RawValue(Seq<u8>),
    Other(int),
}
pub mod io {
    #[verifier::external_body]
    pub struct Error { _p: core::marker::PhantomData<()> }
    pub type Result<T> = core::result::Result<T, Error>;
}
#[verifier::external_body]
pub struct Error { _p: core::marker::PhantomData<()> }
pub type Result<T> = core::result::Result<T, Error>;
pub trait MapIo { fn map_io(self) -> (r: Result<()>); }
impl MapIo for io::Result<()> {
    #[verifier::external_body]
    fn map_io(self) -> (r: Result<()>) ensures r.is_ok() == self.is_ok(), { unimplemented!() }
}
pub trait WriteExt { }
pub uninterp spec fn sbytes(s: &str) -> Seq<u8>;
pub uninterp spec fn char_utf8(c: char) -> Seq<u8>;
// substitution target for `&value.to_string()` (char -> its UTF-8 text, kept alive by the caller's temporary)
#[verifier::external_body]
pub fn char_as_str<'t>(c: char, tmp: &'t mut [u8; 4]) -> (r: &'t str) ensures sbytes(r) == char_utf8(c), { unimplemented!() }

/// the formatter as a ghost call trace + failure flag (what each call writes: unit `formatter`)
pub trait Formatter {
    spec fn calls(&self) -> Seq<FCall>;
    spec fn failed(&self) -> bool;
    fn begin_array<W: WriteExt>(&mut self, writer: &mut W) -> (r: io::Result<()>)
        ensures final(self).calls() == old(self).calls().push(FCall::BeginArray), final(self).failed() == (old(self).failed() || r.is_err());
    fn end_array<W: WriteExt>(&mut self, writer: &mut W) -> (r: io::Result<()>)
        ensures final(self).calls() == old(self).calls().push(FCall::EndArray), final(self).failed() == (old(self).failed() || r.is_err());
    fn begin_array_value<W: WriteExt>(&mut self, writer: &mut W, first: bool) -> (r: io::Result<()>)
        ensures final(self).calls() == old(self).calls().push(FCall::BeginArrayValue(first)), final(self).failed() == (old(self).failed() || r.is_err());
    fn end_array_value<W: WriteExt>(&mut self, writer: &mut W) -> (r: io::Result<()>)
        ensures final(self).calls() == old(self).calls().push(FCall::EndArrayValue), final(self).failed() == (old(self).failed() || r.is_err());
    fn begin_object<W: WriteExt>(&mut self, writer: &mut W) -> (r: io::Result<()>)
        ensures final(self).calls() == old(self).calls().push(FCall::BeginObject), final(self).failed() == (old(self).failed() || r.is_err());
    fn end_object<W: WriteExt>(&mut self, writer: &mut W) -> (r: io::Result<()>)
        ensures final(self).calls() == old(self).calls().push(FCall::EndObject), final(self).failed() == (old(self).failed() || r.is_err());
    fn begin_object_key<W: WriteExt>(&mut self, writer: &mut W, first: bool) -> (r: io::Result<()>)
        ensures final(self).calls() == old(self).calls().push(FCall::BeginObjectKey(first)), final(self).failed() == (old(self).failed() || r.is_err());
    fn end_object_key<W: WriteExt>(&mut self, writer: &mut W) -> (r: io::Result<()>)
        ensures final(self).calls() == old(self).calls().push(FCall::EndObjectKey), final(self).failed() == (old(self).failed() || r.is_err());
    fn begin_object_value<W: WriteExt>(&mut self, writer: &mut W) -> (r: io::Result<()>)
        ensures final(self).calls() == old(self).calls().push(FCall::BeginObjectValue), final(self).failed() == (old(self).failed() || r.is_err());
    fn end_object_value<W: WriteExt>(&mut self, writer: &mut W) -> (r: io::Result<()>)
        ensures final(self).calls() == old(self).calls().push(FCall::EndObjectValue), final(self).failed() == (old(self).failed() || r.is_err());
    fn begin_string<W: WriteExt>(&mut self, writer: &mut W) -> (r: io::Result<()>)
        ensures final(self).calls() == old(self).calls().push(FCall::BeginString), final(self).failed() == (old(self).failed() || r.is_err());
    fn end_string<W: WriteExt>(&mut self, writer: &mut W) -> (r: io::Result<()>)
        ensures final(self).calls() == old(self).calls().push(FCall::EndString), final(self).failed() == (old(self).failed() || r.is_err());
    fn write_bool<W: WriteExt>(&mut self, writer: &mut W, value: bool) -> (r: io::Result<()>)
        ensures final(self).calls() == old(self).calls().push(FCall::WriteBool(value)), final(self).failed() == (old(self).failed() || r.is_err());
    fn write_i64<W: WriteExt>(&mut self, writer: &mut W, value: i64) -> (r: io::Result<()>)
        ensures final(self).calls() == old(self).calls().push(FCall::WriteI64(value)), final(self).failed() == (old(self).failed() || r.is_err());
    fn write_raw_value<W: WriteExt>(&mut self, writer: &mut W, raw: &str) -> (r: io::Result<()>)
        ensures final(self).calls() == old(self).calls().push(FCall::RawValue(sbytes(raw))), final(self).failed() == (old(self).failed() || r.is_err());
    fn write_u64<W: WriteExt>(&mut self, writer: &mut W, value: u64) -> (r: io::Result<()>)
        ensures final(self).calls() == old(self).calls().push(FCall::WriteU64(value)), final(self).failed() == (old(self).failed() || r.is_err());
}

//@extract file=src/serde/de.rs macro=tri
//@extract file=src/serde/ser.rs struct=Serializer
//@subst /pub struct Serializer<W, F = CompactFormatter>/ => pub struct Serializer<W, F>
//@subst /(?m)^    (writer|formatter):/ => pub \1: #all
//@end
//@extract file=src/serde/ser.rs enum=State
//@subst /#\[derive\(Eq, PartialEq\)\]/ =>
//@subst /#\[doc\(hidden\)\]/ =>
//@end
//@extract file=src/serde/ser.rs enum=Compound
//@subst /#\[doc\(hidden\)\]/ =>
//@end

/// an element / key / value: some program that drives the serializer; on success it appends its own events
pub trait Serialize {
    spec fn events(&self) -> Seq<FCall>;
    spec fn key_events(&self) -> Seq<FCall>;
    fn serialize<W: WriteExt, F: Formatter>(&self, ser: &mut Serializer<W, F>) -> (r: Result<()>)
        ensures r.is_ok() ==> final(ser).formatter.calls() == old(ser).formatter.calls() + self.events(),
            final(ser).formatter.failed() ==> (old(ser).formatter.failed() || r.is_err());
    fn serialize_as_key<W: WriteExt, F: Formatter>(&self, ser: &mut Serializer<W, F>) -> (r: Result<()>)
        ensures r.is_ok() ==> final(ser).formatter.calls() == old(ser).formatter.calls() + self.key_events(),
            final(ser).formatter.failed() ==> (old(ser).formatter.failed() || r.is_err());
}

impl<'a, W: WriteExt, F: Formatter> Compound<'a, W, F> {
    pub open spec fn cur_calls(&self) -> Seq<FCall> {
        match self { Compound::Map { ser, .. } => ser.formatter.calls(), Compound::RawValue { ser } => ser.formatter.calls() }
    }
    pub open spec fn cur_failed(&self) -> bool {
        match self { Compound::Map { ser, .. } => ser.formatter.failed(), Compound::RawValue { ser } => ser.formatter.failed() }
    }
    /// the serializer behind this compound is the one it was opened on (prophetic: its final value is the owner's)
    #[verifier::prophetic]
    pub open spec fn fut_ser(&self) -> Serializer<W, F> {
        match self { Compound::Map { ser, .. } => mut_ref_future(*ser), Compound::RawValue { ser } => mut_ref_future(*ser) }
    }
}

impl<'a, W: WriteExt, F: Formatter> Serializer<W, F> {
    // serialize_str -> write_string_fast -> format_string (the escaper: not under contract, DESIGN §9): one event
    #[verifier::external_body]
    pub fn serialize_str(&mut self, value: &str) -> (r: Result<()>)
        ensures r.is_ok() ==> final(self).formatter.calls() == old(self).formatter.calls().push(FCall::StrValue(sbytes(value))),
            final(self).formatter.failed() ==> (old(self).formatter.failed() || r.is_err()),
    { unimplemented!() }

    /// `{"Variant":` — the frame serde's externally tagged variants open
    pub open spec fn variant_open(variant: &str) -> Seq<FCall> {
        seq![FCall::BeginObject, FCall::BeginObjectKey(true), FCall::StrValue(sbytes(variant)), FCall::EndObjectKey, FCall::BeginObjectValue]
    }

//@extract file=src/serde/ser.rs impl="ser::Serializer for &'a mut Serializer<W, F>" fn=serialize_newtype_variant
//@subst /fn serialize_newtype_variant<T>\(\s*self,/ => fn serialize_newtype_variant<T>(&'a mut self,
//@subst /\.map_err\(Error::io\)/ => .map_io() #all
//@sig
        requires !old(self).formatter.failed(),
        ensures
            res.is_ok() ==> final(self).formatter.calls() == old(self).formatter.calls() + Self::variant_open(variant) + value.events() + seq![FCall::EndObjectValue, FCall::EndObject],
            final(self).formatter.failed() ==> res.is_err(),
//@end

//@extract file=src/serde/ser.rs impl="ser::Serializer for &'a mut Serializer<W, F>" fn=serialize_tuple_variant
//@subst /fn serialize_tuple_variant\(\s*self,/ => fn serialize_tuple_variant(&'a mut self,
//@subst /Self::SerializeTupleVariant/ => Compound<'a, W, F>
//@subst /\.map_err\(Error::io\)/ => .map_io() #all
//@sig
        requires !old(self).formatter.failed(),
        ensures
            res.is_ok() ==> res->Ok_0 is Map && res->Ok_0.fut_ser() == *final(self)
                && res->Ok_0.cur_calls() == old(self).formatter.calls() + Self::variant_open(variant) + seq![FCall::BeginArray] + (if len == 0 { seq![FCall::EndArray] } else { Seq::<FCall>::empty() })
                && (res->Ok_0->state is Empty) == (len == 0) && (len != 0 ==> res->Ok_0->state is First)
                && !res->Ok_0.cur_failed(),
//@end

//@extract file=src/serde/ser.rs impl="ser::Serializer for &'a mut Serializer<W, F>" fn=serialize_struct_variant
//@subst /fn serialize_struct_variant\(\s*self,/ => fn serialize_struct_variant(&'a mut self,
//@subst /Self::SerializeStructVariant/ => Compound<'a, W, F>
//@subst /\.map_err\(Error::io\)/ => .map_io() #all
//@sig
        requires !old(self).formatter.failed(),
        ensures
            res.is_ok() ==> res->Ok_0 is Map && res->Ok_0.fut_ser() == *final(self)
                && res->Ok_0.cur_calls() == old(self).formatter.calls() + Self::variant_open(variant) + seq![FCall::BeginObject] + (if len == 0 { seq![FCall::EndObject] } else { Seq::<FCall>::empty() })
                && (res->Ok_0->state is Empty) == (len == 0) && (len != 0 ==> res->Ok_0->state is First)
                && !res->Ok_0.cur_failed(),
//@end

//@extract file=src/serde/ser.rs impl="ser::Serializer for &'a mut Serializer<W, F>" fn=serialize_seq
//@subst /fn serialize_seq\(self,/ => fn serialize_seq(&'a mut self,
//@subst /Self::SerializeSeq/ => Compound<'a, W, F>
//@subst /\.map_err\(Error::io\)/ => .map_io() #all
//@sig
        ensures
            res.is_ok() ==> res->Ok_0 is Map && res->Ok_0.fut_ser() == *final(self)
                && res->Ok_0.cur_calls() == old(self).formatter.calls().push(FCall::BeginArray) + (if len == Some(0usize) { seq![FCall::EndArray] } else { Seq::<FCall>::empty() })
                && (res->Ok_0->state is Empty) == (len == Some(0usize)) && (len != Some(0usize) ==> res->Ok_0->state is First)
                && res->Ok_0.cur_failed() == old(self).formatter.failed(),
            res.is_err() ==> final(self).formatter.failed(),
//@end

//@extract file=src/serde/ser.rs impl="ser::Serializer for &'a mut Serializer<W, F>" fn=serialize_map
//@subst /fn serialize_map\(self,/ => fn serialize_map(&'a mut self,
//@subst /Self::SerializeMap/ => Compound<'a, W, F>
//@subst /\.map_err\(Error::io\)/ => .map_io() #all
//@sig
        ensures
            res.is_ok() ==> res->Ok_0 is Map && res->Ok_0.fut_ser() == *final(self)
                && res->Ok_0.cur_calls() == old(self).formatter.calls().push(FCall::BeginObject) + (if len == Some(0usize) { seq![FCall::EndObject] } else { Seq::<FCall>::empty() })
                && (res->Ok_0->state is Empty) == (len == Some(0usize)) && (len != Some(0usize) ==> res->Ok_0->state is First)
                && res->Ok_0.cur_failed() == old(self).formatter.failed(),
            res.is_err() ==> final(self).formatter.failed(),
//@end
}

impl<'a, W: WriteExt, F: Formatter> Compound<'a, W, F> {
//@extract file=src/serde/ser.rs impl="ser::SerializeSeq for Compound<'a, W, F>" fn=serialize_element
//@subst /\.map_err\(Error::io\)/ => .map_io() #all
//@subst /\*state == State::First/ => matches!(*state, State::First)
//@sig
        requires *old(self) is Map, !((*old(self))->state is Empty), !old(self).cur_failed(),
        ensures *final(self) is Map, final(self).fut_ser() == old(self).fut_ser(),
            res.is_ok() ==> (*final(self))->state is Rest
                && final(self).cur_calls() == old(self).cur_calls().push(FCall::BeginArrayValue((*old(self))->state is First)) + value.events() + seq![FCall::EndArrayValue],
            final(self).cur_failed() ==> res.is_err(),
//@end

//@extract file=src/serde/ser.rs impl="ser::SerializeSeq for Compound<'a, W, F>" fn=end
//@subst /\.map_err\(Error::io\)/ => .map_io() #all
//@subst /fn end\(self\)/ => fn end_seq(self)
//@sig
        requires self is Map, !self.cur_failed(),
        ensures
            res.is_ok() ==> self.fut_ser().formatter.calls() == self.cur_calls() + (if self->state is Empty { Seq::<FCall>::empty() } else { seq![FCall::EndArray] }),
            self.fut_ser().formatter.failed() ==> res.is_err(),
//@end

//@extract file=src/serde/ser.rs impl="ser::SerializeTupleVariant for Compound<'a, W, F>" fn=end
//@subst /\.map_err\(Error::io\)/ => .map_io() #all
//@subst /fn end\(self\)/ => fn end_tuple_variant(self)
//@sig
        requires self is Map, !self.cur_failed(),
        ensures
            res.is_ok() ==> self.fut_ser().formatter.calls() == self.cur_calls() + (if self->state is Empty { Seq::<FCall>::empty() } else { seq![FCall::EndArray] }) + seq![FCall::EndObjectValue, FCall::EndObject],
            self.fut_ser().formatter.failed() ==> res.is_err(),
//@end

//@extract file=src/serde/ser.rs impl="ser::SerializeStructVariant for Compound<'a, W, F>" fn=end
//@subst /\.map_err\(Error::io\)/ => .map_io() #all
//@subst /fn end\(self\)/ => fn end_struct_variant(self)
//@sig
        requires self is Map, !self.cur_failed(),
        ensures
            res.is_ok() ==> self.fut_ser().formatter.calls() == self.cur_calls() + (if self->state is Empty { Seq::<FCall>::empty() } else { seq![FCall::EndObject] }) + seq![FCall::EndObjectValue, FCall::EndObject],
            self.fut_ser().formatter.failed() ==> res.is_err(),
//@end

//@extract file=src/serde/ser.rs impl="ser::SerializeMap for Compound<'a, W, F>" fn=serialize_key
//@subst /\.map_err\(Error::io\)/ => .map_io() #all
//@subst /\*state == State::First/ => matches!(*state, State::First)
//@subst /key\.serialize\(MapKeySerializer \{ ser: \*ser \}\)/ => key.serialize_as_key(&mut **ser)
//@sig
        requires *old(self) is Map, !((*old(self))->state is Empty), !old(self).cur_failed(),
        ensures *final(self) is Map, final(self).fut_ser() == old(self).fut_ser(),
            res.is_ok() ==> (*final(self))->state is Rest
                && final(self).cur_calls() == old(self).cur_calls().push(FCall::BeginObjectKey((*old(self))->state is First)) + key.key_events() + seq![FCall::EndObjectKey],
            final(self).cur_failed() ==> res.is_err(),
//@end

//@extract file=src/serde/ser.rs impl="ser::SerializeMap for Compound<'a, W, F>" fn=serialize_value
//@subst /\.map_err\(Error::io\)/ => .map_io() #all
//@sig
        requires *old(self) is Map, !old(self).cur_failed(),
        ensures *final(self) is Map, final(self).fut_ser() == old(self).fut_ser(), (*final(self))->state == (*old(self))->state,
            res.is_ok() ==> final(self).cur_calls() == old(self).cur_calls().push(FCall::BeginObjectValue) + value.events() + seq![FCall::EndObjectValue],
            final(self).cur_failed() ==> res.is_err(),
//@end

//@extract file=src/serde/ser.rs impl="ser::SerializeMap for Compound<'a, W, F>" fn=end
//@subst /\.map_err\(Error::io\)/ => .map_io() #all
//@subst /fn end\(self\)/ => fn end_map(self)
//@sig
        requires self is Map, !self.cur_failed(),
        ensures
            res.is_ok() ==> self.fut_ser().formatter.calls() == self.cur_calls() + (if self->state is Empty { Seq::<FCall>::empty() } else { seq![FCall::EndObject] }),
            self.fut_ser().formatter.failed() ==> res.is_err(),
//@end
}

// ---- map keys: bool / integer keys are written as quoted text (BeginString value EndString)
//@extract file=src/serde/ser.rs struct=MapKeySerializer
//@subst /(?m)^    ser:/ => pub ser:
//@subst /^struct MapKeySerializer/ => pub struct MapKeySerializer
//@end
//@extract file=src/serde/ser.rs macro=quote
//@subst /\.map_err\(Error::io\)/ => .map_io() #all
//@end
impl<'a, W: WriteExt, F: Formatter> MapKeySerializer<'a, W, F> {
    #[verifier::prophetic]
    pub open spec fn fut_ser(&self) -> Serializer<W, F> { mut_ref_future(self.ser) }
    pub open spec fn cur_calls(&self) -> Seq<FCall> { self.ser.formatter.calls() }
    pub open spec fn cur_failed(&self) -> bool { self.ser.formatter.failed() }
//@extract file=src/serde/ser.rs impl="ser::Serializer for MapKeySerializer<'a, W, F>" fn=serialize_newtype_struct
//@subst /T: \?Sized \+ Serialize,/ => T: Serialize,
//@subst? /value\.serialize\(self\)/ => value.serialize_as_key(&mut *self.ser)
//@subst? /value\.serialize\(self\.ser\)/ => value.serialize(&mut *self.ser)
//@sig
        requires !self.cur_failed(),
        // a newtype in key position is transparent and STAYS in key position: the inner value is serialized as a key
        // (quoted, escaped, scalar only), not as a value
        ensures res.is_ok() ==> self.fut_ser().formatter.calls() == self.cur_calls() + value.key_events(),
            self.fut_ser().formatter.failed() ==> res.is_err(),
//@end
//@extract file=src/serde/ser.rs impl="ser::Serializer for MapKeySerializer<'a, W, F>" fn=serialize_bool
//@sig
        requires !self.cur_failed(),
        ensures res.is_ok() ==> self.fut_ser().formatter.calls() == self.cur_calls() + seq![FCall::BeginString, FCall::WriteBool(value), FCall::EndString],
            self.fut_ser().formatter.failed() ==> res.is_err(),
//@end
//@extract file=src/serde/ser.rs impl="ser::Serializer for MapKeySerializer<'a, W, F>" fn=serialize_char
//@subst /&value\.to_string\(\)/ => char_as_str(value, &mut [0u8; 4])
//@sig
        requires !self.cur_failed(),
        // a char key is a string: it must go through serialize_str (the escaper), not be written raw
        ensures res.is_ok() ==> self.fut_ser().formatter.calls() == self.cur_calls().push(FCall::StrValue(char_utf8(value))),
            self.fut_ser().formatter.failed() ==> res.is_err(),
//@end
//@extract file=src/serde/ser.rs impl="ser::Serializer for MapKeySerializer<'a, W, F>" fn=serialize_str
//@sig
        requires !self.cur_failed(),
        ensures res.is_ok() ==> self.fut_ser().formatter.calls() == self.cur_calls().push(FCall::StrValue(sbytes(value))),
            self.fut_ser().formatter.failed() ==> res.is_err(),
//@end
//@extract file=src/serde/ser.rs impl="ser::Serializer for MapKeySerializer<'a, W, F>" fn=serialize_i64
//@sig
        requires !self.cur_failed(),
        ensures res.is_ok() ==> self.fut_ser().formatter.calls() == self.cur_calls() + seq![FCall::BeginString, FCall::WriteI64(value), FCall::EndString],
            self.fut_ser().formatter.failed() ==> res.is_err(),
//@end
//@extract file=src/serde/ser.rs impl="ser::Serializer for MapKeySerializer<'a, W, F>" fn=serialize_u64
//@sig
        requires !self.cur_failed(),
        ensures res.is_ok() ==> self.fut_ser().formatter.calls() == self.cur_calls() + seq![FCall::BeginString, FCall::WriteU64(value), FCall::EndString],
            self.fut_ser().formatter.failed() ==> res.is_err(),
//@end
}

// ---- the raw-value channel (RawNumber, LazyValue, OwnedLazyValue serialize themselves as a one-field struct named by
// a private token): the struct opens NO object, and the emitter writes the text verbatim — no quotes, no escaping
//@extract file=src/serde/ser.rs struct=RawValueStrEmitter
//@subst /^struct RawValueStrEmitter<'a, W: 'a \+ WriteExt, F: 'a \+ Formatter>\(&'a mut Serializer<W, F>\);/ => pub struct RawValueStrEmitter<'a, W: 'a + WriteExt, F: 'a + Formatter>(pub &'a mut Serializer<W, F>);
//@end
impl<'a, W: WriteExt, F: Formatter> RawValueStrEmitter<'a, W, F> {
    #[verifier::prophetic]
    pub open spec fn fut_ser(&self) -> Serializer<W, F> { mut_ref_future(self.0) }
    pub open spec fn cur_calls(&self) -> Seq<FCall> { self.0.formatter.calls() }
    pub open spec fn cur_failed(&self) -> bool { self.0.formatter.failed() }
//@extract file=src/serde/ser.rs impl="ser::Serializer for RawValueStrEmitter<'a, W, F>" fn=serialize_str
//@subst /\.map_err\(Error::io\)/ => .map_io()
//@sig
        requires !self.cur_failed(),
        ensures res.is_ok() ==> self.fut_ser().formatter.calls() == self.cur_calls().push(FCall::RawValue(sbytes(value))),
            self.fut_ser().formatter.failed() ==> res.is_err(),
//@end
}
// the two private tokens (src/serde/rawnumber.rs, src/lazyvalue/mod.rs): only their being *some* fixed strings matters
pub uninterp spec fn is_raw_token_spec(name: Seq<u8>) -> bool;
#[verifier::external_body]
pub fn is_raw_token(name: &str) -> (r: bool) ensures r == is_raw_token_spec(sbytes(name)), { unimplemented!() }
impl<'a, W: WriteExt, F: Formatter> Serializer<W, F> {
//@extract file=src/serde/ser.rs impl="ser::Serializer for &'a mut Serializer<W, F>" fn=serialize_struct
//@subst /fn serialize_struct\(self,/ => fn serialize_struct(&'a mut self,
//@subst /Self::SerializeStruct/ => Compound<'a, W, F>
//@subst /match name \{\s*crate::serde::rawnumber::TOKEN \| crate::lazyvalue::TOKEN => \{\s*Ok\(Compound::RawValue \{ ser: self \}\)\s*\}\s*_ => self\.serialize_map\(Some\(len\)\),\s*\}/ => if is_raw_token(name) { Ok(Compound::RawValue { ser: self }) } else { self.serialize_map(Some(len)) }
//@sig
        ensures
            // a raw-value struct writes nothing by itself; any other struct is an object of `len` fields
            res.is_ok() && is_raw_token_spec(sbytes(name)) ==> res->Ok_0 is RawValue && res->Ok_0.fut_ser() == *final(self)
                && res->Ok_0.cur_calls() == old(self).formatter.calls() && res->Ok_0.cur_failed() == old(self).formatter.failed(),
            res.is_ok() && !is_raw_token_spec(sbytes(name)) ==> res->Ok_0 is Map && res->Ok_0.fut_ser() == *final(self)
                && res->Ok_0.cur_calls() == old(self).formatter.calls().push(FCall::BeginObject) + (if len == 0 { seq![FCall::EndObject] } else { Seq::<FCall>::empty() })
                && (res->Ok_0->state is Empty) == (len == 0),
//@end
}

} // verus!
fn main() {}
