// Verus unit `decoder_inplace` (C02 + C03 on the whole-input DOM path): parse_dom, parse_value, parse_array, parse_object.
use vstd::prelude::*;
use vstd::string::StringSliceAdditionalSpecFns;
verus! {
//@include specs/prelude.rs
//@include specs/json_number.rs
//@include specs/json_grammar.rs
//@include specs/json_grammar_lenient.rs
//@include units/frag_parser.vt.rs
//@include units/frag_space.vt.rs
impl<'de, R: Reader<'de>> Parser<R> {
//@include units/frag_number.vt.rs
}
//@include units/frag_string.vt.rs
//@include units/frag_skip.vt.rs
//@include units/frag_decode_inplace.vt.rs
//@include specs/json_events_lemmas.rs
//@include specs/json_lenient_equiv.rs

} // verus!
fn main() {}
