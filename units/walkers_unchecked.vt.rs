// Verus unit `walkers_unchecked` (C10): the unchecked path walkers agree with the checked ones on well-formed input.
use vstd::prelude::*;
use vstd::string::StringSliceAdditionalSpecFns;
verus! {
//@include specs/prelude.rs
//@include specs/json_number.rs
//@include specs/json_grammar.rs
//@include units/frag_parser.vt.rs
//@include units/frag_space.vt.rs
impl<'de, R: Reader<'de>> Parser<R> {
//@include units/frag_number.vt.rs
}
//@include units/frag_string.vt.rs
//@include units/frag_skip.vt.rs
//@include units/frag_walk.vt.rs
//@include units/frag_walk_unchecked.vt.rs

} // verus!
fn main() {}
