// fragment: lazy iterators (C12): per-element drivers in parser.rs + the latching iterator methods
//@include units/frag_iter_read.vt.rs
//@extract file=src/lazyvalue/value.rs enum=HasEsc
//@subst /pub\(crate\) enum/ => pub enum
//@end
impl From<ParseStatus> for HasEsc {
    #[verifier::external_body]
    fn from(value: ParseStatus) -> (r: Self)
        ensures (r is Yes) == (value is HasEscaped), (r is None) == (value is None),
    { unimplemented!() }
}
#[verifier::external_body]
pub struct LazyValue<'a> { _p: core::marker::PhantomData<&'a ()> }
impl<'a> LazyValue<'a> {
    pub uninterp spec fn raw(&self) -> Seq<u8>;
    pub uninterp spec fn esc(&self) -> HasEsc;
    // LazyValue::new only stores its arguments (src/lazyvalue/value.rs)
    #[verifier::external_body]
    pub fn new(raw: JsonSlice<'a>, status: HasEsc) -> (r: Self)
        ensures r.raw() == raw.jbytes(), r.esc() == status,
    { unimplemented!() }
}

//@extract file=src/parser.rs enum=Reference
//@extract file=src/parser.rs struct=Pair
//@subst /pub\(crate\) struct/ => pub struct
//@end
impl<'b, 'c> From<Reference<'b, 'c, str>> for Cow<'b, str> {
    #[verifier::external_body]
    fn from(value: Reference<'b, 'c, str>) -> (r: Self) { unimplemented!() }
}

// what one call of the element driver must do, read off the property statement:
//  - first call: whitespace, '[' ; then (every call) whitespace and either ']' (end), or — not on the first
//    element — ',' ; then one well-formed value whose exact span is yielded
pub open spec fn elem_pos(s: Seq<u8>, i: int, first: bool) -> Option<int> {
    // position where "] or element" is expected, or None if the required '[' is missing
    if first {
        let b = ws_end(s, i);
        if 0 <= b < s.len() && s[b] == 0x5b { Some(b + 1) } else { None }
    } else { Some(i) }
}

impl<'de, R: Reader<'de>> Parser<R> {
    // unchecked variant: proved in unit `unchecked` (== skip_one on a well-formed value followed by whitespace and
    // `,` `]` `}` or the end of input); restated as an implication because the drivers also run on arbitrary input
    #[verifier::external_body]
    pub fn skip_one_unchecked(&mut self) -> (res: Result<(&'de [u8], ParseStatus)>)
        requires old(self).pinv(),
        ensures final(self).pinv(), final(self).same_doc(old(self)),
            value_end(old(self).read.data(), old(self).read.idx() as int).is_some()
                && follow_ok(old(self).read.data(), value_end(old(self).read.data(), old(self).read.idx() as int).unwrap())
                ==> res.is_ok() && final(self).read.idx() == value_end(old(self).read.data(), old(self).read.idx() as int).unwrap()
                    && res.unwrap().0@ == old(self).read.data().subrange(ws_end(old(self).read.data(), old(self).read.idx() as int), value_end(old(self).read.data(), old(self).read.idx() as int).unwrap()),
            res.is_err() ==> err_ok(res->Err_0, old(self).read.data()),
    { unimplemented!() }

//@extract file=src/parser.rs impl="Parser<R>" fn=parse_array_elem_lazy
//@sig
        requires old(self).pinv(),
        ensures final(self).pinv(), final(self).same_doc(old(self)),
            // (the separator logic does not depend on `check`; the value step does: the validating skipper decides
            // well-formedness, the unchecked one is only specified on a well-formed element in a well-formed context —
            // and then yields the same item: "the unchecked iterators agree with the checked ones")
            ({
                let s = old(self).read.data();
                let i = old(self).read.idx() as int;
                match elem_pos(s, i, *old(first)) {
                    None => res.is_err(),
                    Some(i1) => {
                        let p = ws_end(s, i1);
                        if p < s.len() && s[p] == 0x5d {
                            // end of array: nothing yielded, reader just after ']'
                            res.is_ok() && res.unwrap().is_none() && final(self).read.idx() == p + 1
                        } else {
                            let v = if !*old(first) && p < s.len() && s[p] == 0x2c { Some(p + 1) }
                                    else if *old(first) && p < s.len() { Some(p) } else { None };
                            match v {
                                None => res.is_err(),
                                Some(vs) => {
                                    let wf_ctx = value_end(s, vs).is_some() && follow_ok(s, value_end(s, vs).unwrap());
                                    &&& (check ==> (res.is_ok() <==> value_end(s, vs).is_some()))
                                    &&& (!check && wf_ctx ==> res.is_ok())
                                    &&& ((check || wf_ctx) && res.is_ok() ==> res.unwrap().is_some() && !*final(first)
                                        && final(self).read.idx() == value_end(s, vs).unwrap()
                                        && res.unwrap().unwrap().0@ == s.subrange(ws_end(s, vs), value_end(s, vs).unwrap()))
                                }
                            }
                        }
                    }
                }
            }),
            // every error is made by Parser::error: positioned inside the input (C20)
            res.is_err() ==> err_ok(res->Err_0, old(self).read.data()),
//@lowerguards /match self.skip_space_peek\(\) \{/
//@before /match self.skip_space_peek\(\) \{/
        proof { lemma_ws_end_bounds(self.read.data(), self.read.idx() as int); }
//@before /let \(raw, status\) = if check \{/
        proof { lemma_ws_end_bounds(self.read.data(), self.read.idx() as int); }
//@end

    // parse_str (borrow-or-copy string decoder) is under contract in unit `strings` (C09); here its
    // acceptance contract is assumed: it consumes exactly one grammar-valid string literal or fails
    #[verifier::external_body]
    pub fn parse_str<'own>(&mut self, buf: &'own mut Vec<u8>) -> (res: Result<Reference<'de, 'own, str>>)
        requires old(self).pinv(),
        ensures final(self).pinv(), final(self).same_doc(old(self)),
            res.is_ok() ==> str_end(old(self).read.data(), old(self).read.idx() as int) == Some(final(self).read.idx() as int),
            str_end(old(self).read.data(), old(self).read.idx() as int).is_none() ==> res.is_err(),
            final(self).read.idx() >= old(self).read.idx(),
            res.is_err() ==> err_ok(res->Err_0, old(self).read.data()),
    { unimplemented!() }

//@extract file=src/parser.rs impl="Parser<R>" fn=parse_entry_lazy
//@lowerguards /match self.skip_space\(\) \{/
//@sig
        requires old(self).pinv(),
        ensures final(self).pinv(), final(self).same_doc(old(self)),
            ({
                let s = old(self).read.data();
                let i = old(self).read.idx() as int;
                // first call: whitespace then '{'
                let i1 = if *old(first) { ws_end(s, i) + 1 } else { i };
                let open_ok = !*old(first) || (ws_end(s, i) < s.len() && s[ws_end(s, i)] == 0x7b);
                let p = ws_end(s, i1);
                if !open_ok { res.is_err() }
                else if p < s.len() && s[p] == 0x7d {
                    res.is_ok() && res.unwrap().is_none() && final(self).read.idx() == p + 1
                } else {
                    // position just after the opening quote of the member name
                    let k = if *old(first) && p < s.len() && s[p] == 0x22 { Some(p + 1) }
                            else if !*old(first) && p < s.len() && s[p] == 0x2c && ws_end(s, p + 1) < s.len() && s[ws_end(s, p + 1)] == 0x22 { Some(ws_end(s, p + 1) + 1) }
                            else { None };
                    match k {
                        None => res.is_err(),
                        Some(ks) => {
                            // Ok only for: well-formed name, ws, ':', one well-formed value; the yielded raw
                            // text is that value's exact span
                            &&& (check && res.is_ok() ==> res.unwrap().is_some() && !*final(first)
                                && str_end(s, ks).is_some()
                                && ({
                                    let c = ws_end(s, str_end(s, ks).unwrap());
                                    &&& c < s.len() && s[c] == 0x3a
                                    &&& value_end(s, c + 1).is_some()
                                    &&& final(self).read.idx() == value_end(s, c + 1).unwrap()
                                    &&& res.unwrap().unwrap().val@ == s.subrange(ws_end(s, c + 1), value_end(s, c + 1).unwrap())
                                }))
                            // unchecked mode, member well formed and followed by whitespace and `,` `}`: the same item
                            &&& (!check && res.is_ok() && str_end(s, ks).is_some() ==> ({
                                    let c = ws_end(s, str_end(s, ks).unwrap());
                                    (c < s.len() && s[c] == 0x3a && value_end(s, c + 1).is_some() && follow_ok(s, value_end(s, c + 1).unwrap()))
                                    ==> res.unwrap().is_some() && !*final(first)
                                        && final(self).read.idx() == value_end(s, c + 1).unwrap()
                                        && res.unwrap().unwrap().val@ == s.subrange(ws_end(s, c + 1), value_end(s, c + 1).unwrap())
                                }))
                            &&& (str_end(s, ks).is_none() ==> res.is_err())
                            &&& (str_end(s, ks).is_some() ==> ({
                                    let c = ws_end(s, str_end(s, ks).unwrap());
                                    (!(c < s.len() && s[c] == 0x3a) || (check && value_end(s, c + 1).is_none())) ==> res.is_err()
                                }))
                        }
                    }
                }
            }),
            // every error is made by Parser::error: positioned inside the input (C20)
            res.is_err() ==> err_ok(res->Err_0, old(self).read.data()),
//@before /match \(?self.skip_space\(\)/
        proof { lemma_ws_end_bounds(self.read.data(), self.read.idx() as int); }
//@before /let parsed = self.parse_str\(strbuf\)\?;/
        proof { lemma_ws_end_bounds(self.read.data(), self.read.idx() as int); }
//@after /let parsed = self.parse_str\(strbuf\)\?;/
        proof { lemma_ws_end_bounds(self.read.data(), self.read.idx() as int); }
//@end
}

//@extract file=src/lazyvalue/iterator.rs struct=ArrayJsonIter
//@subst /(?m)^    (parser|first|ending|skip_strict):/ => pub \1: #all
//@end

impl<'de> ArrayJsonIter<'de> {
//@extract file=src/lazyvalue/iterator.rs impl="ArrayJsonIter<'de>" fn=next_elem_impl
//@sig
        requires old(self).parser.pinv(),
        ensures final(self).parser.pinv(),
            // the terminal latch: once ended, nothing more and nothing moves
            old(self).ending ==> res.is_none() && final(self).ending
                && final(self).parser.read.idx() == old(self).parser.read.idx() && final(self).first == old(self).first,
            // an error or the end sets the latch; an item does not
            (res.is_none() || res.unwrap().is_err()) ==> final(self).ending,
            (res.is_some() && res.unwrap().is_ok()) ==> !final(self).ending && !old(self).ending,
            // a yielded item is exactly the span the element driver reported
            (res.is_some() && res.unwrap().is_ok() && old(self).skip_strict) ==> ({
                let s = old(self).parser.read.data();
                let i = old(self).parser.read.idx() as int;
                &&& elem_pos(s, i, old(self).first).is_some()
                &&& ({
                    let p = ws_end(s, elem_pos(s, i, old(self).first).unwrap());
                    let vs = if old(self).first { p } else { p + 1 };
                    &&& value_end(s, vs).is_some()
                    &&& res.unwrap().unwrap().raw() == s.subrange(ws_end(s, vs), value_end(s, vs).unwrap())
                    &&& final(self).parser.read.idx() == value_end(s, vs).unwrap()
                })
            }),
            final(self).skip_strict == old(self).skip_strict,
            final(self).parser.read.data() == old(self).parser.read.data(),
//@end
}

//@extract file=src/lazyvalue/iterator.rs struct=ObjectJsonIter
//@subst /(?m)^    (parser|strbuf|first|ending|skip_strict):/ => pub \1: #all
//@end

impl<'de> ObjectJsonIter<'de> {
//@extract file=src/lazyvalue/iterator.rs impl="ObjectJsonIter<'de>" fn=next_entry_impl
//@sig
        requires old(self).parser.pinv(),
        ensures final(self).parser.pinv(),
            old(self).ending ==> res.is_none() && final(self).ending
                && final(self).parser.read.idx() == old(self).parser.read.idx() && final(self).first == old(self).first,
            (res.is_none() || res.unwrap().is_err()) ==> final(self).ending,
            (res.is_some() && res.unwrap().is_ok()) ==> !final(self).ending && !old(self).ending,
            final(self).skip_strict == old(self).skip_strict,
            final(self).parser.read.data() == old(self).parser.read.data(),
//@end
}
