// Verus unit `typed_err` (C01, C20): Parser::peek_invalid_type — the error path of every typed entry point ("invalid
// type: …, expected …"): before it describes what it found it consumes the offending value (a literal, a number, a
// string, or — stepping BACK one byte onto the bracket — a whole array / object with the validating skipper), so
// that a malformed value is reported as such and the error is positioned after the value.
// Declared substitutions: `exp: &dyn Expected` -> an opaque `&Exp` (only feeds the message);
// `de::Error::invalid_type(Unexpected::…, exp)` -> `invalid_type_err(exp)` and `invalid_type_number(&n, exp)` ->
// `invalid_type_number_err(exp)` (serde's message constructor: an error WITHOUT a position, which is why the function
// ends in fix_position); the guard `std::str::from_utf8(s.as_bytes()).is_ok()` -> `ref_is_utf8(&s)`.
use vstd::prelude::*;
use vstd::string::StringSliceAdditionalSpecFns;
verus! {
//@include specs/prelude.rs
//@include specs/json_number.rs
//@include specs/json_grammar.rs
//@include units/frag_parser.vt.rs
//@include units/frag_space.vt.rs
impl<'de, R: Reader<'de>> Parser<R> {
//@include units/frag_number.vt.rs
}
//@include units/frag_string.vt.rs
//@include units/frag_skip.vt.rs
//@extract file=src/parser.rs enum=Reference
//@extract file=sonic-number/src/lib.rs enum=ParserNumber

#[verifier::external_body]
pub struct Exp { _p: core::marker::PhantomData<()> }
// serde::de::Error::invalid_type(..): a message, no position
#[verifier::external_body]
pub fn invalid_type_err(exp: &Exp) -> (e: Error) ensures !e.has_pos, { unimplemented!() }
#[verifier::external_body]
pub fn invalid_type_number_err(n: &ParserNumber, exp: &Exp) -> (e: Error) ensures !e.has_pos, { unimplemented!() }
#[verifier::external_body]
pub fn ref_is_utf8<'b, 'c>(s: &Reference<'b, 'c, str>) -> (r: bool) { unimplemented!() }

impl Error {
    // accessors of the real error type (unit `errors`): line 0 means "no position"
    #[verifier::external_body]
    pub fn line(&self) -> (r: usize) ensures (r == 0) <==> !self.has_pos, { unimplemented!() }
    #[verifier::external_body]
    pub fn error_code(&self) -> (r: ErrorCode) { unimplemented!() }
}

impl<'de, R: Reader<'de>> Parser<R> {
    // contracts proved for the real functions in units `typed_num` (parse_number) and `strings` (parse_str)
    #[verifier::external_body]
    pub fn parse_number(&mut self, first: u8) -> (res: Result<ParserNumber>)
        requires old(self).pinv(), old(self).read.idx() >= 1, first == old(self).read.data()[old(self).read.idx() - 1], first == 0x2d || is_digit(first),
            old(self).nospace_start == -128 || old(self).nospace_start <= old(self).read.idx() - 1,
        ensures final(self).pinv(), final(self).same_doc(old(self)), res.is_err() ==> err_ok(res->Err_0, old(self).read.data()),
    { unimplemented!() }
    #[verifier::external_body]
    pub fn parse_str<'own>(&mut self, buf: &'own mut Vec<u8>) -> (res: Result<Reference<'de, 'own, str>>)
        requires old(self).pinv(),
        ensures final(self).pinv(), final(self).same_doc(old(self)), res.is_err() ==> err_ok(res->Err_0, old(self).read.data()),
    { unimplemented!() }

//@extract file=src/parser.rs impl="Parser<R>" fn=fix_position
//@sig
        requires self.pinv(),
        ensures res.has_pos, err.has_pos ==> res == err, !err.has_pos ==> err_ok(res, self.read.data()),
//@end

//@extract file=src/parser.rs impl="Parser<R>" fn=peek_invalid_type
//@subst /exp: &dyn Expected/ => exp: &Exp
//@subst /de::Error::invalid_type\(Unexpected::\w+(?:\((?:[^()]|\([^()]*\))*\))?, exp\)/ => invalid_type_err(exp) #all
//@subst /invalid_type_number\(&n, exp\)/ => invalid_type_number_err(&n, exp)
//@subst /std::str::from_utf8\(s\.as_bytes\(\)\)\.is_ok\(\)/ => ref_is_utf8(&s)
//@sig
        // called with the byte the reader has just read: the reader stands right after it, and the whitespace cache
        // does not start after that byte (it was found by skip_space, or follows a quote that was)
        requires old(self).pinv(), old(self).read.idx() >= 1, peek == old(self).read.data()[old(self).read.idx() - 1],
            old(self).nospace_start == -128 || old(self).nospace_start <= old(self).read.idx() - 1,
        ensures final(self).pinv(), final(self).same_doc(old(self)),
            // C20: whatever it found, the error leaves with a position, inside the input
            err_ok(res, old(self).read.data()),
//@end
}

} // verus!
fn main() {}
