// fragment: skip_string_unchecked (C10) — on a well-formed literal it ends exactly where the validating skipper
// ends, with the same escape status. Block step via the escaped-bit kernel (get_escaped_branchless_u32, whose
// contract below is the scalar recurrence Kani proves for all 2^33 inputs: escaped_branchless_u32_all).

// scalar scan: end (just after) of the first quote at/after i that is not escaped; `esc`: is position i escaped?
pub open spec fn uq_end(s: Seq<u8>, i: int, esc: bool) -> Option<int>
    decreases s.len() - i
{
    if !(0 <= i < s.len()) { None }
    else if esc { uq_end(s, i + 1, false) }
    else if s[i] == 0x5c { uq_end(s, i + 1, true) }
    else if s[i] == 0x22 { Some(i + 1) }
    else { uq_end(s, i + 1, false) }
}
// is position b+k escaped, given that position b is escaped iff pe
pub open spec fn esc_at(s: Seq<u8>, b: int, pe: bool, k: nat) -> bool
    decreases k
{
    if k == 0 { pe } else { !esc_at(s, b, pe, (k - 1) as nat) && s[b + k - 1] == 0x5c }
}

// the same recurrence over the backslash mask of a block (this is literally the reference loop of the Kani
// harness escaped_branchless_u32_all)
pub open spec fn esc_bits(bs: u32, pe: bool, k: nat) -> bool
    decreases k
{
    if k == 0 { pe } else { !esc_bits(bs, pe, (k - 1) as nat) && bit32(bs, k - 1) }
}
#[verifier::external_body]
pub fn get_escaped_branchless_u32(prev_escaped: &mut u32, backslash: u32) -> (r: u32)
    requires *old(prev_escaped) <= 1,
    ensures *final(prev_escaped) <= 1,
        forall|k: int| 0 <= k < 32 ==> #[trigger] bit32(r, k) == esc_bits(backslash, *old(prev_escaped) == 1, k as nat),
        (*final(prev_escaped) == 1) == esc_bits(backslash, *old(prev_escaped) == 1, 32),
{ unimplemented!() }
pub proof fn lemma_esc_bits_at(s: Seq<u8>, b: int, pe: bool, bs: u32, k: nat)
    requires 0 <= b, b + 32 <= s.len(), k <= 32, forall|j: int| 0 <= j < 32 ==> bit32(bs, j) == (#[trigger] s[b + j] == 0x5c),
    ensures esc_bits(bs, pe, k) == esc_at(s, b, pe, k),
    decreases k
{
    if k > 0 {
        lemma_esc_bits_at(s, b, pe, bs, (k - 1) as nat);
        assert(bit32(bs, k - 1) == (s[b + (k - 1)] == 0x5c));
    }
}

// scanning from b+k with the right carry, skipping lanes that hold no unescaped quote
pub proof fn lemma_uq_skip(s: Seq<u8>, b: int, pe: bool, k: nat, m: nat)
    requires 0 <= b, k <= m, b + m <= s.len(),
        forall|j: int| k <= j < m ==> !(#[trigger] s[b + j] == 0x22 && !esc_at(s, b, pe, j as nat)),
    ensures uq_end(s, b + k, esc_at(s, b, pe, k)) == uq_end(s, b + m, esc_at(s, b, pe, m)),
    decreases m - k
{
    if k < m {
        assert(!(s[b + k] == 0x22 && !esc_at(s, b, pe, k)));
        assert(esc_at(s, b, pe, (k + 1) as nat) == (!esc_at(s, b, pe, k) && s[b + k] == 0x5c));
        lemma_uq_skip(s, b, pe, (k + 1) as nat, m);
    }
}
pub proof fn lemma_uq_hit(s: Seq<u8>, b: int, pe: bool, k: nat)
    requires 0 <= b, b + k < s.len(), s[b + k] == 0x22, !esc_at(s, b, pe, k),
    ensures uq_end(s, b + k, esc_at(s, b, pe, k)) == Some(b + k + 1),
{ }
// no backslash in lanes [0, m) and no carry: nothing is escaped up to and including lane m
pub proof fn lemma_no_esc(s: Seq<u8>, b: int, m: nat)
    requires 0 <= b, b + m <= s.len(), forall|j: int| 0 <= j < m ==> #[trigger] s[b + j] != 0x5c,
    ensures forall|k: nat| k <= m ==> !#[trigger] esc_at(s, b, false, k),
    decreases m
{
    if m > 0 {
        lemma_no_esc(s, b, (m - 1) as nat);
        assert(s[b + (m - 1)] != 0x5c);
        assert(!esc_at(s, b, false, m));
        assert forall|k: nat| k <= m implies !#[trigger] esc_at(s, b, false, k) by {
            if k < m { assert(k <= (m - 1) as nat); }
        }
    }
}
// a well-formed literal ends at its first unescaped quote
pub proof fn lemma_str_end_is_uq(s: Seq<u8>, i: int)
    requires 0 <= i <= s.len(), str_end(s, i).is_some(),
    ensures uq_end(s, i, false) == str_end(s, i),
    decreases s.len() - i
{
    if s[i] == 0x22 { }
    else if s[i] == 0x5c {
        let e = esc_end(s, i).unwrap();
        lemma_str_end_is_uq(s, e);
        reveal_with_fuel(uq_end, 7);
    } else { lemma_str_end_is_uq(s, i + 1); }
}
pub proof fn lemma_uq_bounds(s: Seq<u8>, i: int, esc: bool)
    requires 0 <= i, uq_end(s, i, esc).is_some(),
    ensures i < uq_end(s, i, esc).unwrap() <= s.len(), s[uq_end(s, i, esc).unwrap() - 1] == 0x22,
        esc ==> i + 1 < uq_end(s, i, esc).unwrap(),
    decreases s.len() - i
{
    if esc { lemma_uq_bounds(s, i + 1, false); }
    else if s[i] == 0x5c { lemma_uq_bounds(s, i + 1, true); }
    else if s[i] == 0x22 { }
    else { lemma_uq_bounds(s, i + 1, false); }
}

pub open spec fn tz32(m: u32) -> int { vstd::std_specs::bits::u32_trailing_zeros(m) as int }
// bits of q-1 (wrapping) relative to the lowest set bit t of q (t == 32 <=> q == 0)
pub proof fn lemma_sub1_bits(q: u32, r: u32, t: u32, j: u32)
    requires j < 32, t <= 32, r == sub(q, 1u32),
        t < 32 ==> (((q >> t) & 1u32) == 1u32 && (q & sub(1u32 << t, 1u32)) == 0u32),
        t == 32 ==> q == 0u32,
    ensures ((r >> j) & 1u32) == 1u32 <==> (j < t || (j > t && ((q >> j) & 1u32) == 1u32)),
{
    assert(((r >> j) & 1u32) == 1u32 <==> (j < t || (j > t && ((q >> j) & 1u32) == 1u32))) by (bit_vector)
        requires j < 32, t <= 32, r == sub(q, 1u32),
            t < 32 ==> (((q >> t) & 1u32) == 1u32 && (q & sub(1u32 << t, 1u32)) == 0u32),
            t == 32 ==> q == 0u32;
}
pub proof fn lemma_low_mask(q: u32)
    ensures ({ let t = tz32(q); t < 32 ==> (q & sub(1u32 << (t as u32), 1u32)) == 0u32 && ((q >> (t as u32)) & 1u32) == 1u32 }),
        q == 0 <==> tz32(q) == 32, 0 <= tz32(q) <= 32,
        forall|j: int| 0 <= j < tz32(q) ==> !bit32(q, j),
        q != 0 ==> bit32(q, tz32(q)),
{
    vstd::std_specs::bits::axiom_u32_trailing_zeros(q);
    let t = tz32(q);
    if t < 32 {
        let tt = t as u32;
        assert(q << sub(32u32, tt) == 0u32 ==> (q & sub(1u32 << tt, 1u32)) == 0u32) by (bit_vector) requires tt < 32;
    }
}
// (q - 1) & bs, for disjoint q and bs: exactly the bs bits strictly below the lowest set bit of q
pub proof fn lemma_sub1_and(q: u32, r: u32, bs: u32)
    requires r == sub(q, 1u32), q & bs == 0,
    ensures (r & bs) == 0 <==> (forall|j: int| 0 <= j < tz32(q) ==> !bit32(bs, j)),
        forall|j: int| 0 <= j < 32 && bit32(r & bs, j) ==> j < tz32(q) && #[trigger] bit32(bs, j),
{
    lemma_low_mask(q);
    let t = tz32(q) as u32;
    assert forall|j: int| 0 <= j < 32 implies (#[trigger] bit32(r & bs, j) == (j < t && bit32(bs, j))) by {
        let ju = j as u32;
        lemma_sub1_bits(q, r, t, ju);
        assert((((r & bs) >> ju) & 1u32) == 1u32 <==> ((((r >> ju) & 1u32) == 1u32) && (((bs >> ju) & 1u32) == 1u32))) by (bit_vector) requires ju < 32;
        assert(!((((q >> ju) & 1u32) == 1u32) && (((bs >> ju) & 1u32) == 1u32))) by (bit_vector) requires ju < 32, q & bs == 0;
    }
    if (r & bs) == 0 {
        assert forall|j: int| 0 <= j < tz32(q) implies !bit32(bs, j) by { lemma_zero32(j as u32); assert(!bit32(r & bs, j)); }
    } else {
        lemma_tz32(r & bs);
    }
}
pub proof fn lemma_andnot_bits(q: u32, e: u32, j: u32)
    requires j < 32,
    ensures bit32(q & !e, j as int) == (bit32(q, j as int) && !bit32(e, j as int)),
{
    assert((((q & !e) >> j) & 1u32) == 1u32 <==> ((((q >> j) & 1u32) == 1u32) && !(((e >> j) & 1u32) == 1u32))) by (bit_vector) requires j < 32;
}

// one 32-lane step of skip_string_unchecked, as a lemma over the masks
pub proof fn lemma_uq_block(s: Seq<u8>, i0: int, b: int, pe: bool, bs: u32, q0: u32, analysis: bool, escaped: u32, carry: bool, en: int)
    requires 0 <= i0 <= b, b + 32 <= s.len(),
        forall|j: int| 0 <= j < 32 ==> bit32(bs, j) == (#[trigger] s[b + j] == 0x5c),
        forall|j: int| 0 <= j < 32 ==> bit32(q0, j) == (#[trigger] s[b + j] == 0x22),
        uq_end(s, b, pe) == Some(en),
        pe ==> b > i0 && s[b - 1] == 0x5c,
        analysis == (pe || exists|j: int| 0 <= j < tz32(q0) && bit32(bs, j)),
        analysis ==> (forall|k: int| 0 <= k < 32 ==> #[trigger] bit32(escaped, k) == esc_bits(bs, pe, k as nat)) && carry == esc_bits(bs, pe, 32),
        !analysis ==> !carry,
    ensures ({
        let qb = if analysis { q0 & !escaped } else { q0 };
        let newidx = if qb != 0 { b + tz32(qb) + 1 } else { b + 32 };
        &&& (qb != 0 ==> en == newidx)
        &&& (qb == 0 ==> uq_end(s, b + 32, carry) == Some(en))
        &&& (qb == 0 && carry ==> s[b + 31] == 0x5c)
        &&& (analysis ==> has_bs(s, i0, newidx))
        &&& (!analysis ==> has_bs(s, i0, newidx) == has_bs(s, i0, b))
    }),
{
    lemma_low_mask(q0);
    let qb = if analysis { q0 & !escaped } else { q0 };
    lemma_low_mask(qb);
    assert forall|k: nat| k <= 32 implies esc_bits(bs, pe, k) == esc_at(s, b, pe, k) by { lemma_esc_bits_at(s, b, pe, bs, k); }
    // which lanes hold an unescaped quote (fast path: only up to and including the first raw quote)
    let lim = if analysis { 32int } else if q0 == 0 { 32int } else { tz32(q0) + 1 };
    if !analysis {
        assert(!pe);
        assert(forall|j: int| 0 <= j < tz32(q0) ==> !bit32(bs, j));
        let m = tz32(q0);
        assert forall|j: int| 0 <= j < m implies #[trigger] s[b + j] != 0x5c by { assert(!bit32(bs, j)); }
        lemma_no_esc(s, b, m as nat);
    }
    assert forall|k: int| 0 <= k < lim && k < 32 implies #[trigger] bit32(qb, k) == (s[b + k] == 0x22 && !esc_at(s, b, pe, k as nat)) by {
        if analysis { lemma_andnot_bits(q0, escaped, k as u32); }
        else { assert(!esc_at(s, b, false, k as nat)); }
    }
    if qb != 0 {
        let k = tz32(qb);
        if !analysis { assert(k == tz32(q0)); }
        assert forall|j: int| 0 <= j < k implies !(#[trigger] s[b + j] == 0x22 && !esc_at(s, b, pe, j as nat)) by { assert(!bit32(qb, j)); }
        lemma_uq_skip(s, b, pe, 0, k as nat);
        lemma_uq_hit(s, b, pe, k as nat);
    } else {
        assert forall|j: int| 0 <= j < 32 implies !(#[trigger] s[b + j] == 0x22 && !esc_at(s, b, pe, j as nat)) by {
            lemma_zero32(j as u32); assert(!bit32(qb, j));
        }
        lemma_uq_skip(s, b, pe, 0, 32);
        if analysis { assert(carry == esc_at(s, b, pe, 32)); }
        else {
            // q0 == 0: no backslash at all in the block
            assert(q0 == 0);
            assert(!esc_at(s, b, false, 32));
        }
    }
    let newidx = if qb != 0 { b + tz32(qb) + 1 } else { b + 32 };
    if analysis {
        if pe { lemma_has_bs_witness(s, i0, b - 1, newidx); }
        else {
            let j = choose|j: int| 0 <= j < tz32(q0) && bit32(bs, j);
            // the first unescaped quote is at or after the first raw quote
            if qb != 0 { assert(bit32(qb, tz32(qb))); assert(bit32(q0, tz32(qb))) by { lemma_andnot_bits(q0, escaped, tz32(qb) as u32); } assert(tz32(qb) >= tz32(q0)); }
            lemma_has_bs_witness(s, i0, b + j, newidx);
        }
    } else {
        assert forall|j: int| b <= j < newidx implies #[trigger] s[j] != 0x5c by {
            if j - b < tz32(q0) { assert(!bit32(bs, j - b)); assert(s[b + (j - b)] != 0x5c); }
            else { assert(q0 != 0 && j - b == tz32(q0)); assert(bit32(q0, j - b)); assert(s[b + (j - b)] == 0x22); }
        }
        lemma_has_bs_extend(s, i0, b, newidx);
    }
}

impl<'de, R: Reader<'de>> Parser<R> {
//@extract file=src/parser.rs impl="Parser<R>" fn=skip_string_unchecked
//@attr
    #[verifier::loop_isolation(false)]
//@subst /let r = &mut self\.read;/ => let _r = ();
//@subst /\br\./ => self.read. #all
//@sig
        requires old(self).pinv(),
            // the unsafe contract of the unchecked API: the reader stands inside a well-formed string literal
            str_end(old(self).read.data(), old(self).read.idx() as int).is_some(),
        ensures final(self).pinv(), final(self).same_doc(old(self)), final(self).same_cache(old(self)),
            res.is_ok(),
            final(self).read.idx() == str_end(old(self).read.data(), old(self).read.idx() as int).unwrap(),
            is_esc_status(res.unwrap()) <==> has_bs(old(self).read.data(), old(self).read.idx() as int, final(self).read.idx() as int),
            // every error is made by Parser::error: positioned inside the input (C20)
            res.is_err() ==> err_ok(res->Err_0, old(self).read.data()),
//@after /let mut status = ParseStatus::None;/
        let ghost s = self.read.data();
        let ghost i0 = self.read.idx() as int;
        let ghost en = str_end(s, i0).unwrap();
        proof { lemma_str_end_is_uq(s, i0); lemma_str_end_bounds(s, i0); }
//@loop 1
            invariant self.pinv(), self.same_doc(old(self)), self.same_cache(old(self)), i0 <= self.read.idx(),
                prev_escaped <= 1,
                uq_end(s, self.read.idx() as int, prev_escaped == 1) == Some(en),
                prev_escaped == 1 ==> self.read.idx() > i0 && s[self.read.idx() - 1] == 0x5c,
                is_esc_status(status) <==> has_bs(s, i0, self.read.idx() as int),
            decreases s.len() - self.read.idx(),
//@after /quote_bits = /
            let ghost base = self.read.idx() as int;
            let ghost pe0 = prev_escaped == 1;
            let ghost q0 = quote_bits;
            let ghost mut analysis = false;
            let ghost mut esc_g = 0u32;
            let ghost qm1 = quote_bits.wrapping_sub(1);
            proof {
                assert forall|j: int| 0 <= j < 32 implies bit32(bs_bits, j) == (#[trigger] s[base + j] == 0x5c) by { assert(chunk@[j] == s[base + j]); assert(v.lanes[j] == chunk@[j]); }
                assert forall|j: int| 0 <= j < 32 implies bit32(q0, j) == (#[trigger] s[base + j] == 0x22) by { assert(chunk@[j] == s[base + j]); assert(v.lanes[j] == chunk@[j]); }
                assert(q0 & bs_bits == 0) by {
                    if q0 & bs_bits != 0 {
                        lemma_tz32(q0 & bs_bits);
                        let k = tz32(q0 & bs_bits) as u32;
                        assert((((q0 & bs_bits) >> k) & 1u32) == 1u32 ==> ((((q0 >> k) & 1u32) == 1u32) && (((bs_bits >> k) & 1u32) == 1u32))) by (bit_vector) requires k < 32;
                        assert(s[base + k] == 0x22 && s[base + k] == 0x5c);
                    }
                }
                assert(qm1 == sub(q0, 1u32)) by (bit_vector) requires (q0 == 0u32 ==> qm1 == 0xffff_ffffu32), (q0 != 0u32 ==> qm1 == sub(q0, 1u32));
                lemma_sub1_and(q0, qm1, bs_bits);
                if (qm1 & bs_bits) != 0 { lemma_tz32(qm1 & bs_bits); }
            }
//@after /quote_bits &= !escaped;/
                proof { analysis = true; esc_g = escaped; }
//@before /^            if quote_bits != 0 \{/
            proof {
                assert(analysis == (pe0 || exists|j: int| 0 <= j < tz32(q0) && bit32(bs_bits, j)));
                lemma_uq_block(s, i0, base, pe0, bs_bits, q0, analysis, esc_g, prev_escaped == 1, en);
                if quote_bits != 0 { lemma_tz32(quote_bits); }
            }
//@before /^        if prev_escaped != 0 \{/
        proof { lemma_uq_bounds(s, self.read.idx() as int, prev_escaped == 1); }
//@loop 2
            invariant self.pinv(), self.same_doc(old(self)), self.same_cache(old(self)), i0 <= self.read.idx(),
                uq_end(s, self.read.idx() as int, false) == Some(en),
                is_esc_status(status) <==> has_bs(s, i0, self.read.idx() as int),
            decreases s.len() - self.read.idx(),
//@before /^            if ch == b/ #1
            let ghost ci = self.read.idx() as int;
            proof { reveal_with_fuel(uq_end, 3); lemma_uq_bounds(s, ci, false); }
//@before /^\s+break;/
                    proof { assert(false); }
//@before /^\s+continue;/ #1
                proof { lemma_has_bs_witness(s, i0, ci, ci + 2); }
//@before /^            if ch == b/ #2
            proof { lemma_has_bs_extend(s, i0, ci, ci + 1); }
//@before /^        perr!\(self, EofWhileParsing\)/
        proof { lemma_uq_bounds(s, self.read.idx() as int, false); assert(false); }
//@end
}

// ---- skip_number_unsafe (found F15): on a well-formed number in a well-formed context — after the literal come only
// whitespace and then `,` `]` `}` or the end of input — it ends exactly where the validating skipper ends (the
// literal's last byte), not at the next token.
pub open spec fn is_num_char(c: u8) -> bool { is_digit(c) || c == 0x2d || c == 0x2b || c == 0x2e || c == 0x65 || c == 0x45 }
pub proof fn lemma_digits_chars(s: Seq<u8>, i: int)
    requires 0 <= i <= s.len(),
    ensures forall|j: int| i <= j < digits_end(s, i) ==> is_num_char(#[trigger] s[j]),
{
    lemma_digits_end_bounds(s, i);
}
// every byte of a matched number literal is a number character
pub proof fn lemma_number_chars(s: Seq<u8>, p: int)
    requires 0 <= p <= s.len(), number_end(s, p).is_some(),
    ensures forall|j: int| p <= j < number_end(s, p).unwrap() ==> is_num_char(#[trigger] s[j]),
{
    lemma_number_end_bounds(s, p);
    let p1 = if at(s, p, 0x2d) { p + 1 } else { p };
    lemma_digits_end_bounds(s, p1);
    lemma_digits_chars(s, p1);
    let p2 = if s[p1] == 0x30 { p1 + 1 } else { digits_end(s, p1) };
    // after the integer part: optional fraction, optional exponent
    if at(s, p2, 0x2e) {
        lemma_digits_end_bounds(s, p2 + 1); lemma_digits_chars(s, p2 + 1);
        let p3 = digits_end(s, p2 + 1);
        if at(s, p3, 0x65) || at(s, p3, 0x45) {
            let q1 = if at(s, p3 + 1, 0x2d) || at(s, p3 + 1, 0x2b) { p3 + 2 } else { p3 + 1 };
            lemma_digits_end_bounds(s, q1); lemma_digits_chars(s, q1);
        }
    } else if at(s, p2, 0x65) || at(s, p2, 0x45) {
        let q1 = if at(s, p2 + 1, 0x2d) || at(s, p2 + 1, 0x2b) { p2 + 2 } else { p2 + 1 };
        lemma_digits_end_bounds(s, q1); lemma_digits_chars(s, q1);
    }
}

impl<'de, R: Reader<'de>> Parser<R> {
//@extract file=src/parser.rs impl="Parser<R>" fn=get_next_token
//@attr
    #[verifier::loop_isolation(false)]
//@subst /let r = &mut self\.read;/ => let _r = ();
//@subst /\br\./ => self.read. #all
//@subst /tokens\.iter\(\)\.take\(N\)/ => tokens.iter() #all
//@subst /vor \|= v\.eq\(&u8x32::splat\(\*t\)\);/ => vor = vor | v.eq(&u8x32::splat(*t));
//@subst /let v = unsafe \{ u8x32::from_slice_unaligned_unchecked\(chunk\) \};/ => let v = unsafe { u8x32::from_slice_unaligned_unchecked(chunk) };
//@sig
        requires old(self).pinv(), advance <= 1,
        ensures final(self).pinv(), final(self).same_doc(old(self)), final(self).same_cache(old(self)),
            ({
                let s = old(self).read.data();
                let i = old(self).read.idx() as int;
                match res {
                    Some(ch) => exists|q: int| i <= q < s.len() && s[q] == ch && tokens@.contains(ch)
                        && (forall|j: int| i <= j < q ==> !tokens@.contains(#[trigger] s[j]))
                        && final(self).read.idx() == q + advance,
                    None => final(self).read.idx() == s.len() && (forall|j: int| i <= j < s.len() ==> !tokens@.contains(#[trigger] s[j])),
                }
            }),
//@before /const LANS: usize = u8x32::LANES;/
        let ghost s = self.read.data();
        let ghost i0 = self.read.idx() as int;
//@loop 1
            invariant self.pinv(), self.same_doc(old(self)), self.same_cache(old(self)), i0 <= self.read.idx(),
                forall|j: int| i0 <= j < self.read.idx() ==> !tokens@.contains(#[trigger] s[j]),
            decreases s.len() - self.read.idx(),
//@forname 2 it
//@loop 2
                invariant vor.lanes.len() == 32, v.lanes.len() == 32,
                    forall|l: int| 0 <= l < 32 ==> (#[trigger] vor.lanes[l] <==> exists|k: int| 0 <= k < it.index@ && v.lanes[l] == tokens@[k]),
//@before /let next = vor\.bitmask\(\);/
            let ghost base = self.read.idx() as int;
            proof {
                assert forall|l: int| 0 <= l < 32 implies (#[trigger] vor.lanes[l] <==> tokens@.contains(s[base + l])) by {
                    assert(v.lanes[l] == s[base + l]);
                    if vor.lanes[l] { let k = choose|k: int| 0 <= k < N && v.lanes[l] == tokens@[k]; assert(tokens@[k] == s[base + l]); }
                    if tokens@.contains(s[base + l]) { let k = choose|k: int| 0 <= k < tokens@.len() && tokens@[k] == s[base + l]; assert(v.lanes[l] == tokens@[k]); }
                }
            }
//@before /let cnt = next\.trailing_zeros\(\) as usize;/
                proof { lemma_tz32(next); }
//@before /r\.eat\(cnt \+ advance\);/
                proof {
                    let q = base + cnt as int;
                    assert(bit32(next, cnt as int) == vor.lanes[cnt as int]);
                    assert(tokens@.contains(s[q]));
                    assert forall|j: int| i0 <= j < q implies !tokens@.contains(#[trigger] s[j]) by {
                        if j >= base { assert(bit32(next, j - base) == vor.lanes[j - base]); }
                    }
                }
//@before /r\.eat\(LANS\)/
            proof {
                assert forall|j: int| base <= j < base + 32 implies !tokens@.contains(#[trigger] s[j]) by {
                    lemma_zero32((j - base) as u32);
                    assert(bit32(next, j - base) == vor.lanes[j - base]);
                }
            }
//@loop 3
            invariant self.pinv(), self.same_doc(old(self)), self.same_cache(old(self)), i0 <= self.read.idx(),
                forall|j: int| i0 <= j < self.read.idx() ==> !tokens@.contains(#[trigger] s[j]),
            decreases s.len() - self.read.idx(),
//@forname 4 it2
//@loop 4
                invariant self.pinv(), self.same_doc(old(self)), self.same_cache(old(self)), self.read.idx() < s.len(), ch == s[self.read.idx() as int],
                    ci == self.read.idx(),
                    forall|k: int| 0 <= k < it2.index@ ==> tokens@[k] != ch,
//@before /for t in tokens\.iter\(\)\.take\(N\)/ #2
            let ghost ci = self.read.idx() as int;
//@before /r\.eat\(advance\);/
                    proof { assert(tokens@[it2.index@] == ch); assert(tokens@.contains(ch)); }
//@before /r\.eat\(1\)/
            proof { assert(!tokens@.contains(s[ci])); }
//@end

//@extract file=src/parser.rs impl="Parser<R>" fn=skip_number_unsafe
//@attr
    #[verifier::loop_isolation(false)]
//@sig
        requires old(self).pinv(), old(self).read.idx() >= 1,
            number_end(old(self).read.data(), old(self).read.idx() - 1).is_some(),
            ({
                let s = old(self).read.data();
                let q = ws_end(s, number_end(s, old(self).read.idx() - 1).unwrap());
                q >= s.len() || is_tok(s[q])
            }),
        ensures final(self).pinv(), final(self).same_doc(old(self)), res.is_ok(),
            final(self).read.idx() == number_end(old(self).read.data(), old(self).read.idx() - 1).unwrap(),
            // every error is made by Parser::error: positioned inside the input (C20)
            res.is_err() ==> err_ok(res->Err_0, old(self).read.data()),
//@before /let _ = self\.get_next_token/
        let ghost s = self.read.data();
        let ghost p = self.read.idx() as int - 1;
        let ghost e = number_end(s, p).unwrap();
        let ghost q0 = ws_end(s, e);
        proof {
            lemma_number_end_bounds(s, p);
            lemma_number_chars(s, p);
            lemma_ws_end_bounds(s, e);
            assert forall|j: int| p <= j < q0 implies !seq![0x5du8, 0x7du8, 0x2cu8].contains(#[trigger] s[j]) by {
                if j < e { assert(is_num_char(s[j])); } else { assert(is_ws(s[j])); }
            }
        }
//@after /let _ = self\.get_next_token/
        proof {
            let toks = seq![0x5du8, 0x7du8, 0x2cu8];
            assert([0x5du8, 0x7du8, 0x2cu8]@ =~= toks);
            assert(toks[0] == 0x5d && toks[1] == 0x7d && toks[2] == 0x2c);
            if q0 < s.len() { assert(toks.contains(s[q0])); }
            assert(self.read.idx() == q0);
        }
//@loop? 1
            invariant self.pinv(), self.same_doc(old(self)), self.same_cache(old(self)), e <= self.read.idx() <= q0, 1 <= self.read.idx(),
            decreases self.read.idx(),
//@end
}
