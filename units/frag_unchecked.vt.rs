// fragment: skip_string_unchecked (C10) — on a well-formed literal it ends exactly where the validating skipper
// ends, with the same escape status. Block step via the escaped-bit kernel (get_escaped_branchless_u32, whose
// contract below is the scalar recurrence Kani proves for all 2^33 inputs: escaped_branchless_u32_all).

// scalar scan: end (just after) of the first quote at/after i that is not escaped; `esc`: is position i escaped?
pub open spec fn uq_end(s: Seq<u8>, i: int, esc: bool) -> Option<int>
    decreases s.len() - i
{
    if !(0 <= i < s.len()) { None }
    else if esc { uq_end(s, i + 1, false) }
    else if s[i] == 0x5c { uq_end(s, i + 1, true) }
    else if s[i] == 0x22 { Some(i + 1) }
    else { uq_end(s, i + 1, false) }
}
// is position b+k escaped, given that position b is escaped iff pe
pub open spec fn esc_at(s: Seq<u8>, b: int, pe: bool, k: nat) -> bool
    decreases k
{
    if k == 0 { pe } else { !esc_at(s, b, pe, (k - 1) as nat) && s[b + k - 1] == 0x5c }
}

#[verifier::external_body]
pub fn get_escaped_branchless_u32(prev_escaped: &mut u32, backslash: u32) -> (r: u32)
    requires *old(prev_escaped) <= 1,
    ensures *final(prev_escaped) <= 1,
        // for any byte block whose backslash mask is `backslash`: bit k <=> lane k is escaped; carry = lane 32
        forall|s: Seq<u8>, b: int| #![trigger esc_at(s, b, *old(prev_escaped) == 1, 32)]
            (0 <= b && b + 32 <= s.len() && forall|j: int| 0 <= j < 32 ==> bit32(backslash, j) == (s[b + j] == 0x5c)) ==>
            (forall|k: int| 0 <= k < 32 ==> #[trigger] bit32(r, k) == esc_at(s, b, *old(prev_escaped) == 1, k as nat))
            && (*final(prev_escaped) == 1) == esc_at(s, b, *old(prev_escaped) == 1, 32),
{ unimplemented!() }

// scanning from b+k with the right carry, skipping lanes that hold no unescaped quote
pub proof fn lemma_uq_skip(s: Seq<u8>, b: int, pe: bool, k: nat, m: nat)
    requires 0 <= b, k <= m, b + m <= s.len(),
        forall|j: int| k <= j < m ==> !(#[trigger] s[b + j] == 0x22 && !esc_at(s, b, pe, j as nat)),
    ensures uq_end(s, b + k, esc_at(s, b, pe, k)) == uq_end(s, b + m, esc_at(s, b, pe, m)),
    decreases m - k
{
    if k < m {
        assert(!(s[b + k] == 0x22 && !esc_at(s, b, pe, k)));
        assert(esc_at(s, b, pe, (k + 1) as nat) == (!esc_at(s, b, pe, k) && s[b + k] == 0x5c));
        lemma_uq_skip(s, b, pe, (k + 1) as nat, m);
    }
}
pub proof fn lemma_uq_hit(s: Seq<u8>, b: int, pe: bool, k: nat)
    requires 0 <= b, b + k < s.len(), s[b + k] == 0x22, !esc_at(s, b, pe, k),
    ensures uq_end(s, b + k, esc_at(s, b, pe, k)) == Some(b + k + 1),
{ }
// no backslash in lanes [0, m) and no carry: nothing is escaped up to and including lane m
pub proof fn lemma_no_esc(s: Seq<u8>, b: int, m: nat)
    requires 0 <= b, b + m <= s.len(), forall|j: int| 0 <= j < m ==> #[trigger] s[b + j] != 0x5c,
    ensures forall|k: nat| k <= m ==> !#[trigger] esc_at(s, b, false, k),
    decreases m
{
    if m > 0 {
        lemma_no_esc(s, b, (m - 1) as nat);
        assert forall|k: nat| k <= m implies !#[trigger] esc_at(s, b, false, k) by {
            if k == m { assert(!esc_at(s, b, false, (m - 1) as nat)); }
        }
    }
}
// a well-formed literal ends at its first unescaped quote
pub proof fn lemma_str_end_is_uq(s: Seq<u8>, i: int)
    requires 0 <= i <= s.len(), str_end(s, i).is_some(),
    ensures uq_end(s, i, false) == str_end(s, i),
    decreases s.len() - i
{
    if s[i] == 0x22 { }
    else if s[i] == 0x5c {
        let e = esc_end(s, i).unwrap();
        lemma_str_end_is_uq(s, e);
        reveal_with_fuel(uq_end, 7);
    } else { lemma_str_end_is_uq(s, i + 1); }
}
pub proof fn lemma_uq_bounds(s: Seq<u8>, i: int, esc: bool)
    requires 0 <= i, uq_end(s, i, esc).is_some(),
    ensures i < uq_end(s, i, esc).unwrap() <= s.len(), s[uq_end(s, i, esc).unwrap() - 1] == 0x22,
        esc ==> i + 1 < uq_end(s, i, esc).unwrap(),
    decreases s.len() - i
{
    if esc { lemma_uq_bounds(s, i + 1, false); }
    else if s[i] == 0x5c { lemma_uq_bounds(s, i + 1, true); }
    else if s[i] == 0x22 { }
    else { lemma_uq_bounds(s, i + 1, false); }
}

pub proof fn lemma_sub1_mask(q: u32, bs: u32)
    ensures ((sub(q, 1u32) & bs) == 0) <==> (forall|j: int| 0 <= j < 32 && (q == 0 || j < vstd::std_specs::bits::u32_trailing_zeros(q) as int) ==> !bit32(bs, j)),
{
    admit();
}

impl<'de, R: Reader<'de>> Parser<R> {
//@extract file=src/parser.rs impl="Parser<R>" fn=skip_string_unchecked
//@attr
    #[verifier::loop_isolation(false)]
//@sig
        requires old(self).pinv(),
            // the unsafe contract of the unchecked API: the reader stands inside a well-formed string literal
            str_end(old(self).read.data(), old(self).read.idx() as int).is_some(),
        ensures final(self).pinv(), final(self).same_doc(old(self)), final(self).same_cache(old(self)),
            res.is_ok(),
            final(self).read.idx() == str_end(old(self).read.data(), old(self).read.idx() as int).unwrap(),
            is_esc_status(res.unwrap()) <==> has_bs(old(self).read.data(), old(self).read.idx() as int, final(self).read.idx() as int),
//@end
}
