// types shared with the iterator unit: HasEsc, LazyValue (opaque), Reference
//@extract file=src/lazyvalue/value.rs enum=HasEsc
//@subst /pub\(crate\) enum/ => pub enum
//@end
impl From<ParseStatus> for HasEsc {
    #[verifier::external_body]
    fn from(value: ParseStatus) -> (r: Self)
        ensures (r is Yes) == (value is HasEscaped), (r is None) == (value is None),
    { unimplemented!() }
}
#[verifier::external_body]
pub struct LazyValue<'a> { _p: core::marker::PhantomData<&'a ()> }
impl<'a> LazyValue<'a> {
    pub uninterp spec fn raw(&self) -> Seq<u8>;
    pub uninterp spec fn esc(&self) -> HasEsc;
    // LazyValue::new only stores its arguments (src/lazyvalue/value.rs)
    #[verifier::external_body]
    pub fn new(raw: JsonSlice<'a>, status: HasEsc) -> (r: Self)
        ensures r.raw() == raw.jbytes(), r.esc() == status,
    { unimplemented!() }
}

//@extract file=src/parser.rs enum=Reference
