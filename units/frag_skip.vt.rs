// fragment: the validating value skipper (skip_one / skip_array / skip_object) and its helpers
impl<'de, R: Reader<'de>> Parser<R> {
//@extract file=src/parser.rs impl="Parser<R>" fn=parse_object_clo
//@sig
        requires old(self).pinv(),
        ensures final(self).pinv(), final(self).same_doc(old(self)),
            ({
                let s = old(self).read.data();
                let c = ws_end(s, old(self).read.idx() as int);
                &&& (res.is_ok() <==> (c < s.len() && s[c] == 0x3a))
                &&& (res.is_ok() ==> final(self).read.idx() == c + 1)
                &&& final(self).read.idx() >= old(self).read.idx()
            }),
            // every error is made by Parser::error: positioned inside the input (C20)
            res.is_err() ==> err_ok(res->Err_0, old(self).read.data()),
//@after /if ch ==/
                proof { lemma_ws_end_stop(self.read.data(), self.read.idx() as int, self.read.idx() as int); }
//@before /match self.skip_space\(\) \{/
            proof { lemma_ws_end_bounds(self.read.data(), self.read.idx() as int); }
//@end

//@extract file=src/parser.rs impl="Parser<R>" fn=parse_array_end
//@sig
        requires old(self).pinv(),
        ensures final(self).pinv(), final(self).same_doc(old(self)),
            ({
                let s = old(self).read.data();
                let c = ws_end(s, old(self).read.idx() as int);
                &&& (res.is_ok() <==> (c < s.len() && s[c] == 0x5d))
                &&& (res.is_ok() ==> final(self).read.idx() == c + 1)
            }),
            // every error is made by Parser::error: positioned inside the input (C20)
            res.is_err() ==> err_ok(res->Err_0, old(self).read.data()),
//@end

//@extract file=src/parser.rs impl="Parser<R>" fn=skip_object
//@attr
    #[verifier::loop_isolation(false)]
//@sig
        requires old(self).pinv(),
        ensures final(self).pinv(), final(self).same_doc(old(self)),
            res.is_ok() <==> obj_end(old(self).read.data(), old(self).read.idx() as int).is_some(),
            res.is_ok() ==> final(self).read.idx() == obj_end(old(self).read.data(), old(self).read.idx() as int).unwrap(),
            final(self).read.idx() >= old(self).read.idx(),
            // every error is made by Parser::error: positioned inside the input (C20)
            res.is_err() ==> err_ok(res->Err_0, old(self).read.data()),
        decreases old(self).read.data().len() - old(self).read.idx(), 2nat
//@before /match self.skip_space\(\) \{/ #1
        let ghost s = self.read.data();
        let ghost i0 = self.read.idx() as int;
        proof { lemma_ws_end_bounds(s, i0); }
//@loop 1
            invariant self.pinv(), self.same_doc(old(self)),
                i0 < self.read.idx(),
                obj_end(s, i0) == members_end(s, self.read.idx() as int),
            decreases s.len() - self.read.idx(),
//@before /self.skip_string\(\)\?;/
            let ghost ki = self.read.idx() as int;
//@after /self.skip_string\(\)\?;/
            proof { lemma_str_end_bounds(s, ki); lemma_ws_end_bounds(s, self.read.idx() as int); }
//@after /self.parse_object_clo\(\)\?;/
            let ghost vi = self.read.idx() as int;
//@after /self.skip_one\(\)\?;/
            proof { lemma_value_end_bounds(s, vi); lemma_ws_end_bounds(s, self.read.idx() as int); }
            let ghost ei = self.read.idx() as int;
//@before /Some\(b','\) => match self.skip_space\(\) \{/
                // after the comma only whitespace and the opening quote of the next member name may follow
//@end

//@extract file=src/parser.rs impl="Parser<R>" fn=skip_array
//@attr
    #[verifier::loop_isolation(false)]
//@sig
        requires old(self).pinv(),
        ensures final(self).pinv(), final(self).same_doc(old(self)),
            res.is_ok() <==> arr_end(old(self).read.data(), old(self).read.idx() as int).is_some(),
            res.is_ok() ==> final(self).read.idx() == arr_end(old(self).read.data(), old(self).read.idx() as int).unwrap(),
            final(self).read.idx() >= old(self).read.idx(),
            // every error is made by Parser::error: positioned inside the input (C20)
            res.is_err() ==> err_ok(res->Err_0, old(self).read.data()),
        decreases old(self).read.data().len() - old(self).read.idx(), 2nat
//@before /match self.skip_space_peek\(\) \{/
        let ghost s = self.read.data();
        let ghost i0 = self.read.idx() as int;
        proof { lemma_ws_end_bounds(s, i0); }
//@before /^        loop \{/
        proof { lemma_elems_end_ws(s, i0, self.read.idx() as int); }
//@loop 1
            invariant self.pinv(), self.same_doc(old(self)),
                i0 <= self.read.idx(),
                arr_end(s, i0) == elems_end(s, self.read.idx() as int),
            decreases s.len() - self.read.idx(),
//@before /self.skip_one\(\)\?;/
            let ghost vi = self.read.idx() as int;
//@after /self.skip_one\(\)\?;/
            proof { lemma_value_end_bounds(s, vi); lemma_ws_end_bounds(s, self.read.idx() as int); }
//@end

//@extract file=src/parser.rs impl="Parser<R>" fn=skip_one
//@sig
        requires old(self).pinv(),
        ensures final(self).pinv(), final(self).same_doc(old(self)),
            res.is_ok() <==> value_end(old(self).read.data(), old(self).read.idx() as int).is_some(),
            res.is_ok() ==> ({
                let s = old(self).read.data();
                let p = ws_end(s, old(self).read.idx() as int);
                let e = value_end(s, old(self).read.idx() as int).unwrap();
                &&& final(self).read.idx() == e
                &&& res.unwrap().0@ == s.subrange(p, e)
                &&& (is_esc_status(res.unwrap().1) ==> s[p] == 0x22 && has_bs(s, p + 1, e))
                &&& (s[p] == 0x22 ==> (is_esc_status(res.unwrap().1) <==> has_bs(s, p + 1, e)))
            }),
            final(self).read.idx() >= old(self).read.idx(),
            // every error is made by Parser::error: positioned inside the input (C20)
            res.is_err() ==> err_ok(res->Err_0, old(self).read.data()),
        decreases old(self).read.data().len() - old(self).read.idx(), 0nat
//@before /let ch = self.skip_space\(\);/
        let ghost s = self.read.data();
        let ghost i0 = self.read.idx() as int;
        proof { lemma_ws_end_bounds(s, i0); axiom_lits(); }
//@before /let slice =/
        proof { lemma_value_end_bounds(s, i0); }
//@end

//@extract file=src/parser.rs impl="Parser<R>" fn=parse_trailing
//@sig
        requires old(self).pinv(),
        ensures final(self).pinv(), final(self).same_doc(old(self)),
            // for a checked reader (idx <= len): Ok iff only whitespace is left
            res.is_ok() <==> ws_end(old(self).read.data(), old(self).read.idx() as int) == old(self).read.data().len(),
            res.is_err() ==> res.unwrap_err().has_pos,
            // every error is made by Parser::error: positioned inside the input (C20)
            res.is_err() ==> err_ok(res->Err_0, old(self).read.data()),
//@before /let exceed =/ #1
        proof { lemma_ws_end_bounds(self.read.data(), self.read.idx() as int); }
//@before /let last =/
        proof { lemma_ws_end_stop(self.read.data(), self.read.data().len() as int, self.read.data().len() as int); }
//@end
}
