// fragment: whitespace skipping (skip_space, skip_space_peek) with the SIMD block cache
pub proof fn lemma_mask_from(b: u64, off: u64, j: u64)
    requires off < 64, j < 64,
    ensures bit64(b & !(sub(1u64 << off, 1)), j as int) == (j >= off && bit64(b, j as int)),
{
    assert((((b & !(sub(1u64 << off, 1))) >> j) & 1u64) == 1u64 <==> (j >= off && ((b >> j) & 1u64) == 1u64)) by (bit_vector)
        requires off < 64, j < 64;
}
pub proof fn lemma_shl_ge1(off: u64)
    requires off < 64,
    ensures (1u64 << off) >= 1,
{
    assert((1u64 << off) >= 1) by (bit_vector) requires off < 64;
}

impl<'de, R: Reader<'de>> Parser<R> {
//@extract file=src/parser.rs impl="Parser<R>" fn=skip_space
//@attr
    #[verifier::loop_isolation(false)]
//@sig
        requires old(self).pinv(),
        ensures final(self).pinv(), final(self).same_doc(old(self)),
            ({
                let s = old(self).read.data();
                let p = ws_end(s, old(self).read.idx() as int);
                &&& (p < s.len() ==> res == Some(s[p]) && final(self).read.idx() == p + 1)
                &&& (p >= s.len() ==> res.is_none() && final(self).read.idx() == s.len())
                &&& (final(self).nospace_start == -128 || final(self).nospace_start <= p)
                &&& old(self).read.idx() <= p <= s.len()
                &&& (p < s.len() ==> !is_ws(s[p]))
            }),
//@subst /unsafe \{ &\*\(chunk\.as_ptr\(\) as \*const \[_; 64\]\) \}/ => as_array64(chunk)
//@after /let reader = &mut self.read;/
        let ghost s = reader.data();
        let ghost i0 = reader.idx() as int;
        proof {
            assert(s == old(self).read.data());
            assert(i0 == old(self).read.idx());
            assert(reader.wf());
            assert(self.nospace_start == old(self).nospace_start);
            lemma_ws_end_bounds(s, i0);
        }
//@before /return Some\(ch\);/ #1
                proof { lemma_ws_end_stop(s, i0, i0); }
//@before /return Some\(ch\);/ #2
                proof { lemma_ws_end_stop(s, i0, reader.idx() - 1); }
//@before /return Some\(ch\);/ #5
                proof { lemma_ws_end_stop(s, reader.idx() - 1, reader.idx() - 1); }
//@after /let nospace_offset =/
        proof {
            // both fast-path reads saw whitespace or the end of input
            assert(forall|j: int| i0 <= j < reader.idx() ==> is_ws(#[trigger] s[j]));
            lemma_ws_run(s, i0, reader.idx() - i0);
        }
//@before /let mask =/
                proof { lemma_shl_ge1(nospace_offset as u64); }
//@after /let cnt =/
                proof {
                    lemma_tz64(bitmap);
                    let off = nospace_offset as u64;
                    assert forall|j: int| 0 <= j < 64 implies bit64(bitmap, j) == (j >= off && bit64(self.nospace_bits, j)) by {
                        lemma_mask_from(self.nospace_bits, off, j as u64);
                    }
                    let st = self.nospace_start as int;
                    assert(cnt >= off);
                    assert forall|j: int| reader.idx() <= j < st + cnt implies is_ws(#[trigger] s[j]) by {
                        assert(!bit64(bitmap, j - st));
                        assert(!bit64(self.nospace_bits, j - st));
                    }
                    assert(!is_ws(s[st + cnt])) by { assert(bit64(bitmap, cnt as int)); assert(bit64(self.nospace_bits, cnt as int)); }
                    lemma_ws_end_stop(s, reader.idx() as int, st + cnt);
                }
//@before /reader\.set_index\(/ #2
                proof {
                    let off = nospace_offset as u64;
                    let st = self.nospace_start as int;
                    assert forall|j: int| reader.idx() <= j < st + 64 implies is_ws(#[trigger] s[j]) by {
                        lemma_mask_from(self.nospace_bits, off, (j - st) as u64);
                        lemma_zero64((j - st) as u64);
                        assert(!bit64(bitmap, j - st));
                        assert(!bit64(self.nospace_bits, j - st));
                    }
                    lemma_ws_run(s, reader.idx() as int, st + 64 - reader.idx());
                }
//@loop 1
            invariant reader.wf(), reader.data() == s, reader.idx() <= s.len(), i0 <= reader.idx(),
                s.len() <= 0x3fff_ffff_ffff_ffff,
                ws_end(s, i0) == ws_end(s, reader.idx() as int),
                self.nospace_bits == old(self).nospace_bits, self.nospace_start == old(self).nospace_start,
                self.error_index == old(self).error_index, self.cfg == old(self).cfg,
                old(self).pinv(), s == old(self).read.data(), i0 == old(self).read.idx(),
                self.nospace_start == -128 || self.nospace_start <= reader.idx(),
            decreases s.len() - reader.idx(),
//@after /let bitmap = unsafe \{ get_nonspace_bits\(chunk\) \};/
            proof {
                assert forall|j: int| 0 <= j < 64 implies bit64(bitmap, j) == !is_ws(#[trigger] s[reader.idx() + j]) by {
                    assert(chunk@[j] == s[reader.idx() + j]);
                }
            }
//@after /self\.nospace_start =/
                proof {
                    lemma_tz64(bitmap);
                    let c = vstd::std_specs::bits::u64_trailing_zeros(bitmap) as int;
                    assert forall|j: int| reader.idx() <= j < reader.idx() + c implies is_ws(#[trigger] s[j]) by {
                        assert(!bit64(bitmap, j - reader.idx()));
                    }
                    assert(!is_ws(s[reader.idx() + c])) by { assert(bit64(bitmap, c)); }
                    lemma_ws_end_stop(s, reader.idx() as int, reader.idx() + c);
                }
//@before /reader\.eat\(/ #2
            proof {
                assert forall|j: int| reader.idx() <= j < reader.idx() + 64 implies is_ws(#[trigger] s[j]) by {
                    lemma_zero64((j - reader.idx()) as u64);
                    assert(!bit64(bitmap, j - reader.idx()));
                }
                lemma_ws_run(s, reader.idx() as int, 64);
            }
//@loop 2
            invariant reader.wf(), reader.data() == s, reader.idx() <= s.len(), i0 <= reader.idx(),
                ws_end(s, i0) == ws_end(s, reader.idx() as int),
                self.nospace_bits == old(self).nospace_bits, self.nospace_start == old(self).nospace_start,
                self.error_index == old(self).error_index, self.cfg == old(self).cfg,
                old(self).pinv(), s == old(self).read.data(), i0 == old(self).read.idx(),
                self.nospace_start == -128 || self.nospace_start <= reader.idx(),
            decreases s.len() - reader.idx(),
//@before /^        None$/
        proof { lemma_ws_end_stop(s, reader.idx() as int, reader.idx() as int); lemma_ws_end_bounds(s, i0); }
//@end

//@extract file=src/parser.rs impl="Parser<R>" fn=skip_space_peek
//@sig
        requires old(self).pinv(),
        ensures final(self).pinv(), final(self).same_doc(old(self)),
            ({
                let s = old(self).read.data();
                let p = ws_end(s, old(self).read.idx() as int);
                &&& (p < s.len() ==> res == Some(s[p]) && final(self).read.idx() == p)
                &&& (p >= s.len() ==> res.is_none() && final(self).read.idx() == s.len())
                &&& old(self).read.idx() <= p <= s.len()
                &&& (p < s.len() ==> !is_ws(s[p]))
            }),
//@before /self.read.backward\(1\);/
        proof { lemma_ws_end_bounds(old(self).read.data(), old(self).read.idx() as int); }
//@end
}
