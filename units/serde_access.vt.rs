// Verus unit `serde_access` (C02: "serde seq/map access comma and colon state machine"): SeqAccess::next_element_seed,
// MapAccess::next_key_seed / next_value_seed, Deserializer::end_map. The element deserializer itself is a program
// (any DeserializeSeed): it enters as a trait with a ghost predicate `start_ok` that it REQUIRES of the reader
// position it is started at — so the proof obligation at each call site is that the separator machine hands the
// element/key/value deserializer exactly the position the grammar prescribes, and nothing else.
use vstd::prelude::*;
use vstd::string::StringSliceAdditionalSpecFns;
verus! {
//@include specs/prelude.rs
//@include specs/json_number.rs
//@include specs/json_grammar.rs
//@include units/frag_parser.vt.rs
//@include units/frag_space.vt.rs
impl<'de, R: Reader<'de>> Parser<R> {
//@include units/frag_number.vt.rs
}
//@include units/frag_string.vt.rs
//@include units/frag_skip.vt.rs

//@extract file=src/serde/de.rs macro=tri

#[verifier::external_body]
pub struct Shared { _p: core::marker::PhantomData<()> }
use std::sync::Arc;
//@extract file=src/serde/de.rs struct=Deserializer
//@subst /pub\(crate\) parser:/ => pub parser:
//@subst /(?m)^    (scratch|remaining_depth|shared):/ => pub \1: #all
//@end

pub mod de {
    use super::*;
    /// stand-in for serde::de::DeserializeSeed: some program that decodes one element starting at the reader
    /// position; `start_ok` is what the caller must establish about that position (uninterpreted per seed)
    pub trait DeserializeSeed<'de>: Sized {
        type Value;
        spec fn start_ok(&self, s: Seq<u8>, idx: int) -> bool;
        /// "this seed, started at idx, fails" (uninterpreted per seed): lets the access machine's contract say that
        /// at a grammar-prescribed element position the only possible error is the element's own
        spec fn fails_at(&self, s: Seq<u8>, idx: int) -> bool;
        fn deserialize<R: Reader<'de>>(self, d: &mut Deserializer<R>) -> (r: Result<Self::Value>)
            requires old(d).parser.pinv(), self.start_ok(old(d).parser.read.data(), old(d).parser.read.idx() as int),
            ensures final(d).parser.pinv(), final(d).parser.same_doc(&old(d).parser),
                r.is_err() ==> self.fails_at(old(d).parser.read.data(), old(d).parser.read.idx() as int);
        // substitution target for `seed.deserialize(MapKey { de: &mut *self.de }).map(Some)` (key position: reader
        // just after the opening quote)
        fn deserialize_mapkey<R: Reader<'de>>(self, d: &mut Deserializer<R>) -> (r: Result<Option<Self::Value>>)
            requires old(d).parser.pinv(), self.start_ok(old(d).parser.read.data(), old(d).parser.read.idx() as int),
                // MapKey::after_quote (unit `typed_num`): enum / bytes keys step back onto the opening quote
                old(d).parser.read.idx() >= 1, old(d).parser.read.data()[old(d).parser.read.idx() - 1] == 0x22,
                old(d).parser.nospace_start == -128 || old(d).parser.nospace_start <= old(d).parser.read.idx() - 1,
            ensures final(d).parser.pinv(), final(d).parser.same_doc(&old(d).parser), r.is_ok() ==> r.unwrap().is_some(),
                r.is_err() ==> self.fails_at(old(d).parser.read.data(), old(d).parser.read.idx() as int);
    }
}

pub mod devisit {
    use super::*;
    /// stand-in for serde::de::Visitor restricted to the raw-number channel: `raw_ok` is what the visitor (RawNumber's)
    /// requires of the text it is handed
    pub trait Visitor<'de>: Sized {
        type Value;
        spec fn raw_ok(&self, text: Seq<u8>) -> bool;
        fn visit_borrowed_str(self, v: &'de str) -> (r: Result<Self::Value>)
            requires self.raw_ok(str_bytes(v));
    }
}

//@extract file=src/serde/de.rs struct=SeqAccess
//@subst /(?m)^    (de|first):/ => pub \1: #all
//@end
//@extract file=src/serde/de.rs struct=MapAccess
//@subst /(?m)^    (de|first):/ => pub \1: #all
//@end

// where the next element of an array must start, given the reader position and whether it is the first one
pub open spec fn seq_elem_start(s: Seq<u8>, i: int, first: bool) -> Option<int> {
    let p = ws_end(s, i);
    if !(p < s.len()) || s[p] == 0x5d { None }
    else if first { Some(p) }
    else if s[p] == 0x2c { Some(p + 1) }
    else { None }
}
// where the next member name must start (just after its opening quote)
pub open spec fn map_key_start(s: Seq<u8>, i: int, first: bool) -> Option<int> {
    let p = ws_end(s, i);
    if !(p < s.len()) || s[p] == 0x7d { None }
    else if first { if s[p] == 0x22 { Some(p + 1) } else { None } }
    else if s[p] == 0x2c { let r = ws_end(s, p + 1); if r < s.len() && s[r] == 0x22 { Some(r + 1) } else { None } }
    else { None }
}

impl<'de, 'a, R: Reader<'de> + 'a> SeqAccess<'a, R> {
//@extract file=src/serde/de.rs impl="de::SeqAccess<'de> for SeqAccess" fn=next_element_seed
//@lowerguards /match self\.de\.parser\.skip_space_peek\(\) \{/
//@sig
        requires old(self).de.parser.pinv(),
            // the caller's seed accepts the grammar-prescribed start of the next element
            seq_elem_start(old(self).de.parser.read.data(), old(self).de.parser.read.idx() as int, old(self).first).is_some()
                ==> seed.start_ok(old(self).de.parser.read.data(), seq_elem_start(old(self).de.parser.read.data(), old(self).de.parser.read.idx() as int, old(self).first).unwrap()),
        ensures final(self).de.parser.pinv(),
            ({
                let s = old(self).de.parser.read.data();
                let p = ws_end(s, old(self).de.parser.read.idx() as int);
                // end of the sequence: `]` is seen (and left for end_seq); nothing is decoded
                &&& ((p < s.len() && s[p] == 0x5d) ==> res.is_ok() && res.unwrap().is_none() && final(self).de.parser.read.idx() == p)
                // no element position (missing comma, end of input): an error, never an element
                &&& ((!(p < s.len() && s[p] == 0x5d) && seq_elem_start(s, old(self).de.parser.read.idx() as int, old(self).first).is_none()) ==> res.is_err())
                // completeness: where the grammar has an element, the only error is the element deserializer's own
                &&& (seq_elem_start(s, old(self).de.parser.read.idx() as int, old(self).first).is_some() && res.is_err()
                        ==> seed.fails_at(s, seq_elem_start(s, old(self).de.parser.read.idx() as int, old(self).first).unwrap()))
                &&& (res.is_ok() && res.unwrap().is_some() ==> !final(self).first)
            }),
//@before /match \(?self\.de\.parser\.skip_space_peek\(\)/
        proof { lemma_ws_end_bounds(self.de.parser.read.data(), self.de.parser.read.idx() as int); }
//@end
}

impl<'de, 'a, R: Reader<'de> + 'a> MapAccess<'a, R> {
//@extract file=src/serde/de.rs impl="de::MapAccess<'de> for MapAccess" fn=next_key_seed
//@lowerguards /let peek = match self\.de\.parser\.skip_space_peek\(\) \{/
//@subst /seed\.deserialize\(MapKey \{ de: &mut \*self\.de \}\)\.map\(Some\)/ => seed.deserialize_mapkey(&mut *self.de)
//@sig
        requires old(self).de.parser.pinv(),
            map_key_start(old(self).de.parser.read.data(), old(self).de.parser.read.idx() as int, old(self).first).is_some()
                ==> seed.start_ok(old(self).de.parser.read.data(), map_key_start(old(self).de.parser.read.data(), old(self).de.parser.read.idx() as int, old(self).first).unwrap()),
        ensures final(self).de.parser.pinv(),
            ({
                let s = old(self).de.parser.read.data();
                let p = ws_end(s, old(self).de.parser.read.idx() as int);
                &&& ((p < s.len() && s[p] == 0x7d) ==> res.is_ok() && res.unwrap().is_none() && final(self).de.parser.read.idx() == p)
                // anything but `}` or a correctly separated `"`: an error (trailing comma, missing comma, junk, EOF)
                &&& ((!(p < s.len() && s[p] == 0x7d) && map_key_start(s, old(self).de.parser.read.idx() as int, old(self).first).is_none()) ==> res.is_err())
                &&& (map_key_start(s, old(self).de.parser.read.idx() as int, old(self).first).is_some() && res.is_err()
                        ==> seed.fails_at(s, map_key_start(s, old(self).de.parser.read.idx() as int, old(self).first).unwrap()))
                &&& (res.is_ok() && res.unwrap().is_some() ==> !final(self).first)
            }),
//@before /let peek = match \(?self\.de\.parser\.skip_space_peek\(\)/
        proof { lemma_ws_end_bounds(self.de.parser.read.data(), self.de.parser.read.idx() as int); }
//@before /^        match peek \{/
        proof { lemma_ws_end_bounds(self.de.parser.read.data(), ws_end(old(self).de.parser.read.data(), old(self).de.parser.read.idx() as int) + 1); }
//@end

//@extract file=src/serde/de.rs impl="de::MapAccess<'de> for MapAccess" fn=next_value_seed
//@sig
        requires old(self).de.parser.pinv(),
            // the value deserializer is started just after `ws :`
            ({
                let s = old(self).de.parser.read.data();
                let c = ws_end(s, old(self).de.parser.read.idx() as int);
                (c < s.len() && s[c] == 0x3a) ==> seed.start_ok(s, c + 1)
            }),
        ensures final(self).de.parser.pinv(),
            ({
                let s = old(self).de.parser.read.data();
                let c = ws_end(s, old(self).de.parser.read.idx() as int);
                &&& (!(c < s.len() && s[c] == 0x3a) ==> res.is_err())
                &&& ((c < s.len() && s[c] == 0x3a) && res.is_err() ==> seed.fails_at(s, c + 1))
            }),
//@end
}

//@extract file=src/serde/de.rs struct=VariantAccess
//@subst /^struct VariantAccess/ => pub struct VariantAccess
//@subst /(?m)^    de:/ => pub de:
//@end
impl<'de, 'a, R: Reader<'de> + 'a> VariantAccess<'a, R> {
    #[verifier::prophetic]
    pub open spec fn fut(&self) -> Deserializer<R> { mut_ref_future(self.de) }
//@extract file=src/serde/de.rs impl="de::EnumAccess<'de> for VariantAccess<'a, R>" fn=variant_seed
//@subst /Result<\(V::Value, Self\)>/ => Result<(V::Value, VariantAccess<'a, R>)>
//@sig
        requires self.de.parser.pinv(), seed.start_ok(self.de.parser.read.data(), self.de.parser.read.idx() as int),
        // externally tagged enum `{"Variant": value}`: after the variant name (whatever the seed consumed) only
        // whitespace and then the colon; the reader is left just after the colon for the variant's content
        ensures res.is_ok() ==> res->Ok_0.1.de.parser.pinv()
                && res->Ok_0.1.de.parser.read.idx() >= 1
                && res->Ok_0.1.de.parser.read.data()[res->Ok_0.1.de.parser.read.idx() - 1] == 0x3a
                && res->Ok_0.1.fut() == self.fut(),
//@after /let val = tri!\(seed\.deserialize\(&mut \*self\.de\)\);/
        proof { lemma_ws_end_bounds(self.de.parser.read.data(), self.de.parser.read.idx() as int); }
//@end
}

impl<'de, R: Reader<'de>> Deserializer<R> {
//@extract file=src/serde/de.rs impl="Deserializer<R>" fn=deserialize_rawnumber
//@subst /V: de::Visitor<'de>/ => V: devisit::Visitor<'de>
//@sig
        requires old(self).parser.pinv(),
            // C08: a raw number always holds a grammatically valid JSON number and exactly its source literal:
            // the visitor may only be handed text s[a..b) with number_end(s, a) == Some(b) — bare, or between quotes
            forall|a: int, b: int| 0 <= a <= b <= old(self).parser.read.data().len()
                && number_end(old(self).parser.read.data(), a) == Some(b)
                && ({
                    let s = old(self).parser.read.data();
                    let p = ws_end(s, old(self).parser.read.idx() as int);
                    a == p || (p < s.len() && s[p] == 0x22 && a == p + 1 && b < s.len() && s[b] == 0x22)
                }) ==> #[trigger] visitor.raw_ok(old(self).parser.read.data().subrange(a, b)),
        ensures final(self).parser.pinv(),
            ({
                let s = old(self).parser.read.data();
                let p = ws_end(s, old(self).parser.read.idx() as int);
                // rejected unless a number, or a quoted number closed immediately by a quote
                let bare = p < s.len() && (s[p] == 0x2d || is_digit(s[p])) && number_end(s, p).is_some();
                let quoted = p + 1 < s.len() && s[p] == 0x22 && (s[p + 1] == 0x2d || is_digit(s[p + 1])) && number_end(s, p + 1).is_some()
                    && number_end(s, p + 1).unwrap() < s.len() && s[number_end(s, p + 1).unwrap()] == 0x22;
                !(bare || quoted) ==> res.is_err()
            }),
//@before /let raw = match self\.parser\.skip_space_peek\(\) \{/
        let ghost s = self.parser.read.data();
        proof { lemma_ws_end_bounds(s, self.parser.read.idx() as int); }
//@end

//@extract file=src/serde/de.rs impl="Deserializer<R>" fn=end_map
//@sig
        requires old(self).parser.pinv(),
        ensures final(self).parser.pinv(),
            ({
                let s = old(self).parser.read.data();
                let c = ws_end(s, old(self).parser.read.idx() as int);
                &&& (res.is_ok() <==> (c < s.len() && s[c] == 0x7d))
                &&& (res.is_ok() ==> final(self).parser.read.idx() == c + 1)
            }),
//@end

//@extract file=src/serde/de.rs impl="Deserializer<R>" fn=end_seq
//@sig
        requires old(self).parser.pinv(),
        ensures final(self).parser.pinv(),
            ({
                let s = old(self).parser.read.data();
                let c = ws_end(s, old(self).parser.read.idx() as int);
                &&& (res.is_ok() <==> (c < s.len() && s[c] == 0x5d))
                &&& (res.is_ok() ==> final(self).parser.read.idx() == c + 1)
            }),
//@end
}

} // verus!
fn main() {}
