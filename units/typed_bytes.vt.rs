// Verus unit `typed_bytes` (C04, C01): Deserializer::deserialize_bytes (behind deserialize_byte_buf, &[u8], Vec<u8>
// through serde_bytes, CString, …). serde_json's reference behaviour ("Followed as `serde_json`" in the source):
// a string literal is handed over as its bytes WITHOUT validation — raw control characters and unpaired surrogate
// escapes are accepted — and `[` starts a sequence of integers. sonic-rs scans the literal with the validating
// parse_string_raw: the completeness clause below therefore FAILS, which is known finding F21 (KNOWN_FINDINGS.txt);
// everything else about the function is proved.
// Declared substitutions: `self` -> `&mut self` (re-hosted on an inherent impl), `self.peek_invalid_type(peek,
// &visitor)` -> `self.peek_invalid_type_v(peek)`, `V: de::Visitor` -> the stand-in trait.
use vstd::prelude::*;
use vstd::string::StringSliceAdditionalSpecFns;
verus! {
//@include specs/prelude.rs
//@include specs/json_number.rs
//@include specs/json_grammar.rs
//@include units/frag_parser.vt.rs
//@include units/frag_space.vt.rs

//@extract file=src/serde/de.rs macro=tri
#[verifier::external_body]
pub struct Shared { _p: core::marker::PhantomData<()> }
use std::sync::Arc;
//@extract file=src/serde/de.rs struct=Deserializer
//@subst /pub\(crate\) parser:/ => pub parser:
//@subst /(?m)^    (scratch|remaining_depth|shared):/ => pub \1: #all
//@end
//@extract file=src/parser.rs enum=ParsedSlice
//@subst /pub\(crate\) enum/ => pub enum
//@end

/// stand-in for serde::de::Visitor: deterministic callbacks
pub trait Visitor<'de>: Sized {
    type Value;
    spec fn on_bytes(&self, b: Seq<u8>, borrowed: bool) -> Result<Self::Value>;
    spec fn seq_start_ok(&self, s: Seq<u8>, idx: int) -> bool;
    fn visit_borrowed_bytes(self, v: &'de [u8]) -> (r: Result<Self::Value>) ensures r == self.on_bytes(v@, true);
    fn visit_bytes(self, v: &[u8]) -> (r: Result<Self::Value>) ensures r == self.on_bytes(v@, false);
}

/// an escape-free byte-string literal body starts at i: some quote follows, with neither a quote nor a backslash
/// before it — ANY other byte may occur (serde_json hands such a literal to visit_bytes unvalidated)
pub open spec fn plain_bytes_end(s: Seq<u8>, i: int, e: int) -> bool {
    0 <= i <= e < s.len() && s[e] == 0x22 && forall|j: int| i <= j < e ==> #[trigger] s[j] != 0x22 && s[j] != 0x5c
}

impl<'de, R: Reader<'de>> Parser<R> {
    // fix_position only rewrites the position of an error (unit `errors`)
    #[verifier::external_body]
    pub fn fix_position(&self, err: Error) -> (e: Error) { unimplemented!() }
    // the borrow-or-copy scanner: this is the contract proved for the real function in unit `strings`
    #[verifier::external_body]
    pub fn parse_string_raw<'own>(&mut self, buf: &'own mut Vec<u8>) -> (res: Result<ParsedSlice<'de, 'own>>)
        requires old(self).pinv(),
        ensures final(self).pinv(), final(self).same_doc(old(self)),
            res.is_ok() ==> str_end(old(self).read.data(), old(self).read.idx() as int) == Some(final(self).read.idx() as int),
            str_end(old(self).read.data(), old(self).read.idx() as int).is_none() ==> res.is_err(),
            res.is_ok() ==> ((res.unwrap() is Borrowed) <==> !has_bs(old(self).read.data(), old(self).read.idx() as int, final(self).read.idx() as int)),
            (res.is_ok() && res.unwrap() is Borrowed) ==> res.unwrap()->slice@ == old(self).read.data().subrange(old(self).read.idx() as int, final(self).read.idx() - 1),
            (str_end(old(self).read.data(), old(self).read.idx() as int).is_some()
                && !has_bs(old(self).read.data(), old(self).read.idx() as int, str_end(old(self).read.data(), old(self).read.idx() as int).unwrap())) ==> res.is_ok(),
    { unimplemented!() }
    // deferred UTF-8 verdict (src/reader.rs bookkeeping, T4): with `allowed` it only moves the marker and cannot fail
    #[verifier::external_body]
    pub fn check_invalid_utf8(&mut self, allowed: bool) -> (res: Result<bool>)
        requires old(self).pinv(),
        ensures final(self).pinv(), final(self).same_doc(old(self)), final(self).read.idx() == old(self).read.idx(),
            allowed ==> res.is_ok(),
    { unimplemented!() }
}

impl<'de, R: Reader<'de>> Deserializer<R> {
    #[verifier::external_body]
    pub fn peek_invalid_type_v(&mut self, peek: u8) -> (e: Error)
        // Parser::peek_invalid_type, proved in unit `typed_err`: it may step back one byte (onto `[` / `{`), and the
        // error it returns is positioned inside the input
        requires old(self).parser.pinv(), old(self).parser.read.idx() >= 1, peek == old(self).parser.read.data()[old(self).parser.read.idx() - 1],
            old(self).parser.nospace_start == -128 || old(self).parser.nospace_start <= old(self).parser.read.idx() - 1,
        ensures final(self).parser.pinv(), final(self).parser.same_doc(&old(self).parser), err_ok(e, old(self).parser.read.data()),
    { unimplemented!() }
    // deserialize_seq: unit `typed_de` (started AT the bracket: it skips whitespace and reads the `[` itself)
    #[verifier::external_body]
    pub fn deserialize_seq<V: Visitor<'de>>(&mut self, visitor: V) -> (res: Result<V::Value>)
        requires old(self).parser.pinv(),
            ({
                let s = old(self).parser.read.data();
                let p = ws_end(s, old(self).parser.read.idx() as int);
                p < s.len() && s[p] == 0x5b ==> visitor.seq_start_ok(s, p + 1)
            }),
        ensures final(self).parser.pinv(), final(self).parser.same_doc(&old(self).parser),
            res.is_ok() ==> ws_end(old(self).parser.read.data(), old(self).parser.read.idx() as int) < old(self).parser.read.data().len(),
            res.is_ok() ==> old(self).parser.read.data()[ws_end(old(self).parser.read.data(), old(self).parser.read.idx() as int)] == 0x5b,
            res.is_ok() ==> final(self).parser.read.idx() >= 1,
            res.is_ok() ==> old(self).parser.read.data()[final(self).parser.read.idx() - 1] == 0x5d,
    { unimplemented!() }

//@extract file=src/serde/de.rs impl="de::Deserializer<'de> for &'a mut Deserializer<R>" fn=deserialize_bytes
//@subst /fn deserialize_bytes<V>\(self,/ => fn deserialize_bytes<V>(&mut self,
//@subst /self\.peek_invalid_type\(peek, &visitor\)/ => self.peek_invalid_type_v(peek)
//@subst /V: de::Visitor<'de>,/ => V: Visitor<'de>,
//@sig
        requires old(self).parser.pinv(),
            ({
                let s = old(self).parser.read.data();
                let p = ws_end(s, old(self).parser.read.idx() as int);
                p < s.len() && s[p] == 0x5b ==> visitor.seq_start_ok(s, p + 1)
            }),
        ensures final(self).parser.pinv(), final(self).parser.same_doc(&old(self).parser),
            // only a string literal or an array is accepted; a string ends at its closing quote and, when it has no
            // escape, the visitor gets exactly the bytes between the quotes, borrowed
            res.is_ok() ==> ({
                let s = old(self).parser.read.data();
                let p = ws_end(s, old(self).parser.read.idx() as int);
                let e = final(self).parser.read.idx() as int;
                &&& p < s.len() && (s[p] == 0x22 || s[p] == 0x5b)
                &&& (s[p] == 0x22 ==> str_end(s, p + 1) == Some(e))
                &&& (s[p] == 0x22 && !has_bs(s, p + 1, e) ==> res == visitor.on_bytes(s.subrange(p + 1, e - 1), true))
                &&& (s[p] == 0x5b ==> e >= 1 && s[e - 1] == 0x5d)
            }),
            // C04 completeness for byte buffers, from the statement: where serde_json succeeds this succeeds — an
            // escape-free literal reaches the visitor whatever bytes it holds. FAILS: known finding F21
            forall|e: int| #[trigger] plain_bytes_end(old(self).parser.read.data(), ws_end(old(self).parser.read.data(), old(self).parser.read.idx() as int) + 1, e)
                && ws_end(old(self).parser.read.data(), old(self).parser.read.idx() as int) < old(self).parser.read.data().len()
                && old(self).parser.read.data()[ws_end(old(self).parser.read.data(), old(self).parser.read.idx() as int)] == 0x22
                && visitor.on_bytes(old(self).parser.read.data().subrange(ws_end(old(self).parser.read.data(), old(self).parser.read.idx() as int) + 1, e), true).is_ok()
                    ==> res == visitor.on_bytes(old(self).parser.read.data().subrange(ws_end(old(self).parser.read.data(), old(self).parser.read.idx() as int) + 1, e), true),
//@body
        proof { lemma_ws_end_bounds(self.parser.read.data(), self.parser.read.idx() as int); }
//@before /let _ = self\.parser\.check_invalid_utf8\(true\)\?;/
        proof {
            let s = old(self).parser.read.data();
            let p = ws_end(s, old(self).parser.read.idx() as int);
            assert forall|e: int| #[trigger] plain_bytes_end(s, p + 1, e) && str_end(s, p + 1).is_some() implies str_end(s, p + 1) == Some(e + 1) && !has_bs(s, p + 1, e + 1) by {
                lemma_plain_bytes_str_end(s, p + 1, e);
            }
        }
//@before /self\.parser\.read\.backward\(1\);/
                proof { lemma_ws_end_stop_here(self.parser.read.data(), self.parser.read.idx() as int - 1); }
//@end
}

// an escape-free literal the grammar accepts ends at its first quote
pub proof fn lemma_plain_bytes_str_end(s: Seq<u8>, i: int, e: int)
    requires plain_bytes_end(s, i, e), str_end(s, i).is_some(),
    ensures str_end(s, i) == Some(e + 1), !has_bs(s, i, e + 1),
    decreases e - i
{
    if i < e {
        assert(s[i] != 0x22 && s[i] != 0x5c);
        assert(plain_bytes_end(s, i + 1, e));
        lemma_plain_bytes_str_end(s, i + 1, e);
        assert(!has_bs(s, i, e + 1)) by {
            if has_bs(s, i, e + 1) { let j = choose|j: int| i <= j < e + 1 && 0 <= j < s.len() && s[j] == 0x5c; assert(j < e); assert(s[j] != 0x5c); }
        }
    } else {
        assert(!has_bs(s, i, e + 1)) by {
            if has_bs(s, i, e + 1) { let j = choose|j: int| i <= j < e + 1 && 0 <= j < s.len() && s[j] == 0x5c; assert(j == e); }
        }
    }
}
// whitespace skipping does not move from a non-whitespace byte
pub proof fn lemma_ws_end_stop_here(s: Seq<u8>, i: int)
    requires 0 <= i <= s.len(),
    ensures i < s.len() && !is_ws(s[i]) ==> ws_end(s, i) == i,
{ }

} // verus!
fn main() {}
