// fragment: the bounds-checked reader `Read` as an opaque type meeting the Reader contract (T1)
#[verifier::external_body]
pub struct Read<'a> { _p: core::marker::PhantomData<&'a ()> }
// `Read` is the bounds-checked reader; it meets the Reader contract (T1, Kani harnesses reader_*)
impl<'de> Reader<'de> for Read<'de> {
    uninterp spec fn data(&self) -> Seq<u8>;
    uninterp spec fn idx(&self) -> nat;
    uninterp spec fn wf(&self) -> bool;
    uninterp spec fn next_invalid(&self) -> nat;
    #[verifier::external_body] fn remain(&self) -> (r: usize) { unimplemented!() }
    #[verifier::external_body] fn peek(&self) -> (r: Option<u8>) { unimplemented!() }
    #[verifier::external_body] fn peek_n(&self, n: usize) -> (r: Option<&'de [u8]>) { unimplemented!() }
    #[verifier::external_body] fn next_n(&mut self, n: usize) -> (r: Option<&'de [u8]>) { unimplemented!() }
    #[verifier::external_body] fn eat(&mut self, n: usize) { unimplemented!() }
    #[verifier::external_body] fn backward(&mut self, n: usize) { unimplemented!() }
    #[verifier::external_body] fn next(&mut self) -> (r: Option<u8>) { unimplemented!() }
    #[verifier::external_body] fn index(&self) -> (r: usize) { unimplemented!() }
    #[verifier::external_body] fn at(&self, index: usize) -> (r: u8) { unimplemented!() }
    #[verifier::external_body] fn set_index(&mut self, index: usize) { unimplemented!() }
    #[verifier::external_body] fn slice_unchecked(&self, start: usize, end: usize) -> (r: &'de [u8]) { unimplemented!() }
    #[verifier::external_body] fn as_u8_slice(&self) -> (r: &'de [u8]) { unimplemented!() }
    #[verifier::external_body] fn check_utf8_final(&self) -> (r: Result<()>) { unimplemented!() }
    #[verifier::external_body] fn next_invalid_utf8(&self) -> (r: usize) { unimplemented!() }
    #[verifier::external_body] fn check_invalid_utf8(&mut self) { unimplemented!() }
    #[verifier::external_body] fn slice_ref(&self, subset: &'de [u8]) -> (r: JsonSlice<'de>) { unimplemented!() }
}
impl<'a> Read<'a> {
    // Read::new over a slice starts at index 0 (T1: checked by Kani reader_read_contract)
    #[verifier::external_body]
    pub fn new(slice: &'a [u8], validate_utf8: bool) -> (r: Self)
        ensures r.wf(), r.data() == slice@, r.idx() == 0,
    { unimplemented!() }
}

