// Verus unit `unchecked` (C10): skip_string_unchecked on well-formed literals == the validating skipper.
use vstd::prelude::*;
use vstd::string::StringSliceAdditionalSpecFns;
verus! {
//@include specs/prelude.rs
//@include specs/json_number.rs
//@include specs/json_grammar.rs
//@include units/frag_parser.vt.rs
pub open spec fn is_esc_status(st: ParseStatus) -> bool { st is HasEscaped }
//@include units/frag_unchecked.vt.rs

} // verus!
fn main() {}
