// Verus unit `unchecked` (C10, C12, C13): the non-validating skippers — skip_string_unchecked, skip_number_unsafe,
// get_next_token, and the dispatcher skip_one_unchecked — end on well-formed input exactly where the validating
// skipper ends and hand out the same span and escape status.
use vstd::prelude::*;
use vstd::string::StringSliceAdditionalSpecFns;
verus! {
//@include specs/prelude.rs
//@include specs/json_number.rs
//@include specs/json_grammar.rs
//@include units/frag_parser.vt.rs
//@include units/frag_space.vt.rs
//@include units/frag_string.vt.rs
//@include specs/scan.rs
//@include specs/scalar_chars.rs
//@include specs/scan_grammar.rs
//@include units/frag_unchecked.vt.rs
//@include units/frag_skip_unchecked.vt.rs

} // verus!
fn main() {}
