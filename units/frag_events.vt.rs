// fragment: reference event list of a JSON text + the visitor interface with a ghost trace (shared by the copy-out
// and the in-place decoder units)
pub enum Ev {
    Null, Bool(bool), U64(u64), I64(i64), F64, RawNum(Seq<u8>), Str(Seq<u8>),
    ObjStart, ObjEnd(nat), ArrStart, ArrEnd(nat),
}
// the decoded text of the string literal whose body is s[i..e) (specified by the decoder contracts, C09)
pub uninterp spec fn decoded(s: Seq<u8>, i: int, e: int) -> Seq<u8>;
// the event a number literal starting at p denotes when it is not kept raw (classification/value: C07)
pub uninterp spec fn num_event(s: Seq<u8>, p: int) -> Ev;

pub open spec fn value_events(s: Seq<u8>, i: int, raw: bool) -> Seq<Ev>
    decreases s.len() - i, 0nat
{
    let p = ws_end(s, i);
    if !(0 <= i <= p < s.len()) { seq![] }
    else if s[p] == 0x2d || is_digit(s[p]) {
        if raw { match number_end(s, p) { Some(e) => seq![Ev::RawNum(s.subrange(p, e))], None => seq![] } }
        else { seq![num_event(s, p)] }
    }
    else if s[p] == 0x22 { match str_end(s, p + 1) { Some(e) => seq![Ev::Str(decoded(s, p + 1, e - 1))], None => seq![] } }
    else if s[p] == 0x7b { seq![Ev::ObjStart] + obj_rest_events(s, p + 1, raw) }
    else if s[p] == 0x5b { seq![Ev::ArrStart] + arr_rest_events(s, p + 1, raw) }
    else if s[p] == 0x74 { seq![Ev::Bool(true)] }
    else if s[p] == 0x66 { seq![Ev::Bool(false)] }
    else if s[p] == 0x6e { seq![Ev::Null] }
    else { seq![] }
}
pub open spec fn arr_rest_events(s: Seq<u8>, i: int, raw: bool) -> Seq<Ev>
    decreases s.len() - i, 2nat
{
    let p = ws_end(s, i);
    if !(0 <= i <= p < s.len()) { seq![] }
    else if s[p] == 0x5d { seq![Ev::ArrEnd(0)] }
    else { elems_events(s, i, 0, raw) }
}
// i: where an element is expected; c: elements before it
pub open spec fn elems_events(s: Seq<u8>, i: int, c: nat, raw: bool) -> Seq<Ev>
    decreases s.len() - i, 1nat
{
    if i < 0 { seq![] } else {
    match value_end_l(s, i) {
        None => seq![],
        Some(e) => {
            let q = ws_end(s, e);
            if !(i < e <= q < s.len()) { seq![] }
            else if s[q] == 0x5d { value_events(s, i, raw) + seq![Ev::ArrEnd(c + 1)] }
            else if s[q] == 0x2c { value_events(s, i, raw) + elems_events(s, q + 1, c + 1, raw) }
            else { seq![] }
        }
    } }
}
pub open spec fn obj_rest_events(s: Seq<u8>, i: int, raw: bool) -> Seq<Ev>
    decreases s.len() - i, 2nat
{
    let p = ws_end(s, i);
    if !(0 <= i <= p < s.len()) { seq![] }
    else if s[p] == 0x7d { seq![Ev::ObjEnd(0)] }
    else if s[p] == 0x22 { members_events(s, p + 1, 0, raw) }
    else { seq![] }
}
// i: just after the opening quote of a member name; c: members before it
pub open spec fn members_events(s: Seq<u8>, i: int, c: nat, raw: bool) -> Seq<Ev>
    decreases s.len() - i, 1nat
{
    if i < 0 { seq![] } else {
    match str_end(s, i) {
        None => seq![],
        Some(k) => {
            let cp = ws_end(s, k);
            if !(i < k <= cp < s.len()) || s[cp] != 0x3a { seq![] }
            else {
                match value_end_l(s, cp + 1) {
                    None => seq![],
                    Some(e) => {
                        let q = ws_end(s, e);
                        let head = seq![Ev::Str(decoded(s, i, k - 1))] + value_events(s, cp + 1, raw);
                        if !(cp + 1 < e <= q < s.len()) { seq![] }
                        else if s[q] == 0x7d { head + seq![Ev::ObjEnd(c + 1)] }
                        else if s[q] == 0x2c {
                            let r = ws_end(s, q + 1);
                            if q + 1 <= r < s.len() && s[r] == 0x22 { head + members_events(s, r + 1, c + 1, raw) } else { seq![] }
                        } else { seq![] }
                    }
                }
            }
        }
    } }
}

// ---- the visitor interface with a ghost trace: a successful call appends exactly its event
pub trait JsonVisitor<'de> {
    spec fn trace(&self) -> Seq<Ev>;
    fn visit_null(&mut self) -> (r: bool) ensures r ==> final(self).trace() == old(self).trace().push(Ev::Null);
    fn visit_bool(&mut self, val: bool) -> (r: bool) ensures r ==> final(self).trace() == old(self).trace().push(Ev::Bool(val));
    fn visit_u64(&mut self, val: u64) -> (r: bool) ensures r ==> final(self).trace() == old(self).trace().push(Ev::U64(val));
    fn visit_i64(&mut self, val: i64) -> (r: bool) ensures r ==> final(self).trace() == old(self).trace().push(Ev::I64(val));
    fn visit_f64(&mut self, val: f64) -> (r: bool) ensures r ==> final(self).trace() == old(self).trace().push(Ev::F64);
    fn visit_raw_number(&mut self, val: &str) -> (r: bool) ensures r ==> final(self).trace() == old(self).trace().push(Ev::RawNum(str_bytes(val)));
    fn visit_str(&mut self, value: &str) -> (r: bool) ensures r ==> final(self).trace() == old(self).trace().push(Ev::Str(str_bytes(value)));
    fn visit_borrowed_str(&mut self, value: &'de str) -> (r: bool) ensures r ==> final(self).trace() == old(self).trace().push(Ev::Str(str_bytes(value)));
    fn visit_borrowed_raw_number(&mut self, val: &'de str) -> (r: bool) ensures r ==> final(self).trace() == old(self).trace().push(Ev::RawNum(str_bytes(val)));
    fn visit_dom_start(&mut self) -> (r: bool) ensures r ==> final(self).trace() == old(self).trace();
    fn visit_dom_end(&mut self) -> (r: bool) ensures r ==> final(self).trace() == old(self).trace();
    fn visit_object_start(&mut self, hint: usize) -> (r: bool) ensures r ==> final(self).trace() == old(self).trace().push(Ev::ObjStart);
    fn visit_object_end(&mut self, len: usize) -> (r: bool) ensures r ==> final(self).trace() == old(self).trace().push(Ev::ObjEnd(len as nat));
    fn visit_array_start(&mut self, hint: usize) -> (r: bool) ensures r ==> final(self).trace() == old(self).trace().push(Ev::ArrStart);
    fn visit_array_end(&mut self, len: usize) -> (r: bool) ensures r ==> final(self).trace() == old(self).trace().push(Ev::ArrEnd(len as nat));
}

//@extract file=src/parser.rs macro=check_visit
//@extract file=sonic-number/src/lib.rs enum=ParserNumber

//@extract file=src/parser.rs enum=Reference
impl<'b, 'c> Reference<'b, 'c, str> {
    // substitution target for `rs.as_ref()` (Deref of Reference<str>)
    #[verifier::external_body]
    pub fn as_str_ref(&self) -> (r: &str)
        ensures str_bytes(r) == self.rbytes(),
    { unimplemented!() }
    pub uninterp spec fn rbytes(&self) -> Seq<u8>;
}

pub open spec fn ev_of(n: ParserNumber) -> Ev {
    match n { ParserNumber::Unsigned(v) => Ev::U64(v), ParserNumber::Signed(v) => Ev::I64(v), ParserNumber::Float(_) => Ev::F64 }
}

