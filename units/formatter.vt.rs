// Verus unit `formatter` (C05, structural half at the Formatter level): every control-character method of the
// compact formatter (the `Formatter` trait's default methods, which `impl Formatter for CompactFormatter {}` uses
// unchanged) and of `PrettyFormatter`, plus `indent`, against the exact bytes RFC 8259 / the pretty layout prescribe,
// with the writer as a ghost byte sequence. On a writer error the bytes already written are a prefix of the
// method's correct output and the error is returned (`wrote`).
// Declared substitutions: each byte-string literal `b"…"` becomes the equal array literal `&[b'…', …]` (this Verus
// build gives byte-string literals no value). The default methods are verified inside an inherent impl of
// CompactFormatter (Verus takes no contracts on methods of a foreign trait).
use vstd::prelude::*;
verus! {
pub mod io {
    use super::*;
    #[verifier::external_body]
    pub struct Error { _p: core::marker::PhantomData<()> }
    pub type Result<T> = core::result::Result<T, Error>;
    /// std::io::Write restricted to write_all, with the sink as a ghost byte sequence (T4: std's write_all loop)
    pub trait Write {
        spec fn out(&self) -> Seq<u8>;
        fn write_all(&mut self, buf: &[u8]) -> (r: Result<()>)
            ensures wrote(old(self).out(), final(self).out(), buf@, r.is_ok());
    }
}
use io::Write;
/// `new` is `old` followed by all of `bytes` (ok) or by a prefix of them (error)
pub open spec fn wrote(old: Seq<u8>, new: Seq<u8>, bytes: Seq<u8>, ok: bool) -> bool {
    if ok { new == old + bytes } else { exists|n: int| 0 <= n <= bytes.len() && new == old + #[trigger] bytes.subrange(0, n) }
}
pub proof fn lemma_wrote_seq(o: Seq<u8>, m: Seq<u8>, n: Seq<u8>, a: Seq<u8>, b: Seq<u8>, ok2: bool)
    requires wrote(o, m, a, true), wrote(m, n, b, ok2),
    ensures wrote(o, n, a + b, ok2),
{
    if ok2 { assert(o + a + b =~= o + (a + b)); }
    else {
        let k = choose|k: int| 0 <= k <= b.len() && n == m + #[trigger] b.subrange(0, k);
        assert((a + b).subrange(0, a.len() + k) =~= a + b.subrange(0, k));
        assert(o + a + b.subrange(0, k) =~= o + (a + b.subrange(0, k)));
    }
}
pub proof fn lemma_wrote_first_failed(o: Seq<u8>, m: Seq<u8>, a: Seq<u8>, b: Seq<u8>)
    requires wrote(o, m, a, false),
    ensures wrote(o, m, a + b, false),
{
    let k = choose|k: int| 0 <= k <= a.len() && m == o + #[trigger] a.subrange(0, k);
    assert((a + b).subrange(0, k) =~= a.subrange(0, k));
}
pub proof fn lemma_wrote_nothing(o: Seq<u8>)
    ensures wrote(o, o, Seq::<u8>::empty(), true),
{
    assert(o + Seq::<u8>::empty() =~= o);
}
pub open spec fn repeat(s: Seq<u8>, n: nat) -> Seq<u8>
    decreases n
{
    if n == 0 { Seq::<u8>::empty() } else { repeat(s, (n - 1) as nat) + s }
}
pub proof fn lemma_repeat_split(s: Seq<u8>, k: nat, n: nat)
    requires k <= n,
    ensures repeat(s, n) == repeat(s, k) + repeat(s, (n - k) as nat),
    decreases n - k
{
    if k == n { assert(repeat(s, k) + Seq::<u8>::empty() =~= repeat(s, k)); }
    else {
        lemma_repeat_split(s, k, (n - 1) as nat);
        assert(repeat(s, k) + repeat(s, (n - 1 - k) as nat) + s =~= repeat(s, k) + (repeat(s, (n - 1 - k) as nat) + s));
    }
}
pub proof fn lemma_repeat_head(s: Seq<u8>, n: nat)
    requires n >= 1,
    ensures repeat(s, n) == s + repeat(s, (n - 1) as nat),
    decreases n
{
    if n == 1 { assert(repeat(s, 0) + s =~= s + repeat(s, 0)); }
    else { lemma_repeat_head(s, (n - 1) as nat); assert(s + repeat(s, (n - 2) as nat) + s =~= s + (repeat(s, (n - 2) as nat) + s)); }
}
/// one more write of `b` after `a` has been written completely: on success everything, on failure a prefix of a + b + rest
pub proof fn lemma_step(o: Seq<u8>, m: Seq<u8>, n: Seq<u8>, a: Seq<u8>, b: Seq<u8>, rest: Seq<u8>, ok: bool)
    requires wrote(o, m, a, true), wrote(m, n, b, ok),
    ensures ok ==> wrote(o, n, a + b, true), !ok ==> wrote(o, n, a + b + rest, false),
{
    lemma_wrote_seq(o, m, n, a, b, ok);
    if !ok { lemma_wrote_first_failed(o, n, a + b, rest); }
}
//@extract file=src/serde/de.rs macro=tri

pub struct CompactFormatter;
impl CompactFormatter {
//@extract file=src/format.rs impl="trait Formatter" fn=write_null
//@subst /b"null"/ => &[0x6eu8, 0x75u8, 0x6cu8, 0x6cu8]
//@sig
        ensures wrote(old(writer).out(), final(writer).out(), [0x6eu8, 0x75u8, 0x6cu8, 0x6cu8]@, res.is_ok()),
//@end
//@extract file=src/format.rs impl="trait Formatter" fn=begin_string
//@subst /b"\\""/ => &[0x22u8]
//@sig
        ensures wrote(old(writer).out(), final(writer).out(), [0x22u8]@, res.is_ok()),
//@end
//@extract file=src/format.rs impl="trait Formatter" fn=end_string
//@subst /b"\\""/ => &[0x22u8]
//@sig
        ensures wrote(old(writer).out(), final(writer).out(), [0x22u8]@, res.is_ok()),
//@end
//@extract file=src/format.rs impl="trait Formatter" fn=begin_array
//@subst /b"\["/ => &[0x5bu8]
//@sig
        ensures wrote(old(writer).out(), final(writer).out(), [0x5bu8]@, res.is_ok()),
//@end
//@extract file=src/format.rs impl="trait Formatter" fn=end_array
//@subst /b"\]"/ => &[0x5du8]
//@sig
        ensures wrote(old(writer).out(), final(writer).out(), [0x5du8]@, res.is_ok()),
//@end
//@extract file=src/format.rs impl="trait Formatter" fn=begin_object
//@subst /b"\{"/ => &[0x7bu8]
//@sig
        ensures wrote(old(writer).out(), final(writer).out(), [0x7bu8]@, res.is_ok()),
//@end
//@extract file=src/format.rs impl="trait Formatter" fn=end_object
//@subst /b"\}"/ => &[0x7du8]
//@sig
        ensures wrote(old(writer).out(), final(writer).out(), [0x7du8]@, res.is_ok()),
//@end
//@extract file=src/format.rs impl="trait Formatter" fn=begin_object_value
//@subst /b":"/ => &[0x3au8]
//@sig
        ensures wrote(old(writer).out(), final(writer).out(), [0x3au8]@, res.is_ok()),
//@end
//@extract file=src/format.rs impl="trait Formatter" fn=write_bool
//@subst /b"true"/ => &[0x74u8, 0x72u8, 0x75u8, 0x65u8]
//@subst /b"false"/ => &[0x66u8, 0x61u8, 0x6cu8, 0x73u8, 0x65u8]
//@sig
        ensures wrote(old(writer).out(), final(writer).out(), if value { [0x74u8, 0x72u8, 0x75u8, 0x65u8]@ } else { [0x66u8, 0x61u8, 0x6cu8, 0x73u8, 0x65u8]@ }, res.is_ok()),
//@end
//@extract file=src/format.rs impl="trait Formatter" fn=begin_array_value
//@subst /b","/ => &[0x2cu8]
//@sig
        ensures wrote(old(writer).out(), final(writer).out(), if first { Seq::<u8>::empty() } else { [0x2cu8]@ }, res.is_ok()),
//@before /if first \{/
        proof { lemma_wrote_nothing(writer.out()); }
//@end
//@extract file=src/format.rs impl="trait Formatter" fn=begin_object_key
//@subst /b","/ => &[0x2cu8]
//@sig
        ensures wrote(old(writer).out(), final(writer).out(), if first { Seq::<u8>::empty() } else { [0x2cu8]@ }, res.is_ok()),
//@before /if first \{/
        proof { lemma_wrote_nothing(writer.out()); }
//@end
//@extract file=src/format.rs impl="trait Formatter" fn=end_array_value
//@sig
        ensures res.is_ok(), final(_writer).out() == old(_writer).out(),
//@end
//@extract file=src/format.rs impl="trait Formatter" fn=end_object_key
//@sig
        ensures res.is_ok(), final(_writer).out() == old(_writer).out(),
//@end
//@extract file=src/format.rs impl="trait Formatter" fn=end_object_value
//@sig
        ensures res.is_ok(), final(_writer).out() == old(_writer).out(),
//@end
}

//@extract file=src/format.rs struct=PrettyFormatter
//@subst /(?m)^    (current_indent|has_value|indent):/ => pub \1: #all
//@end

//@extract file=src/format.rs fn=indent
//@attr
#[verifier::loop_isolation(false)]
//@sig
    ensures wrote(old(wr).out(), final(wr).out(), repeat(s@, n as nat), res.is_ok()),
//@before /for _ in 0\.\.n \{/
    let ghost o0 = wr.out();
    proof { lemma_wrote_nothing(o0); }
//@forname 1 it
//@loop 1
        invariant wrote(o0, wr.out(), repeat(s@, it.index@ as nat), true), it.index@ <= n,
//@before /tri!\(wr\.write_all\(s\)\);/
        let ghost m = wr.out();
        let ghost k = it.index@ as nat;
        proof {
            lemma_repeat_split(s@, k + 1, n as nat);
            assert forall|m2: Seq<u8>, ok: bool| wrote(m, m2, s@, ok) implies (ok ==> wrote(o0, m2, repeat(s@, k + 1), true)) && (!ok ==> wrote(o0, m2, repeat(s@, n as nat), false)) by {
                lemma_step(o0, m, m2, repeat(s@, k), s@, repeat(s@, (n - k - 1) as nat), ok);
            }
        }
//@end

impl<'a> PrettyFormatter<'a> {
    /// bytes a pretty separator writes: newline (after a comma unless first) and the indentation of `level`
    pub open spec fn sep(&self, first: bool, level: nat) -> Seq<u8> {
        (if first { [0x0au8]@ } else { [0x2cu8, 0x0au8]@ }) + repeat(self.indent@, level)
    }
//@extract file=src/format.rs impl="Formatter for PrettyFormatter" fn=begin_array
//@subst /b"\["/ => &[0x5bu8]
//@sig
        requires old(self).current_indent < usize::MAX,
        ensures wrote(old(writer).out(), final(writer).out(), [0x5bu8]@, res.is_ok()),
            final(self).current_indent == old(self).current_indent + 1, !final(self).has_value, final(self).indent == old(self).indent,
//@end
//@extract file=src/format.rs impl="Formatter for PrettyFormatter" fn=end_array
//@subst /b"\\n"/ => &[0x0au8]
//@subst /b"\]"/ => &[0x5du8]
//@sig
        requires old(self).current_indent >= 1,
        ensures final(self).current_indent == old(self).current_indent - 1, final(self).indent == old(self).indent,
            final(self).has_value == old(self).has_value,
            // an empty container closes at once; otherwise newline + the parent's indentation come first
            wrote(old(writer).out(), final(writer).out(),
                  (if old(self).has_value { [0x0au8]@ + repeat(old(self).indent@, (old(self).current_indent - 1) as nat) } else { Seq::<u8>::empty() }) + [0x5du8]@,
                  res.is_ok()),
//@after /self\.current_indent -= 1;/
        let ghost o0 = writer.out();
        let ghost nl = [0x0au8]@;
        let ghost ind = repeat(self.indent@, self.current_indent as nat);
        let ghost cl = [0x5du8]@;
        proof {
            lemma_wrote_nothing(o0);
            assert(Seq::<u8>::empty() + cl =~= cl);
            assert forall|m1: Seq<u8>, ok: bool| wrote(o0, m1, nl, ok) implies (!ok ==> wrote(o0, m1, nl + ind + cl, false)) by { if !ok { lemma_wrote_first_failed(o0, m1, nl, ind + cl); assert(nl + (ind + cl) =~= nl + ind + cl); } }
            assert forall|m1: Seq<u8>, m2: Seq<u8>, ok: bool| wrote(o0, m1, nl, true) && wrote(m1, m2, ind, ok) implies (ok ==> wrote(o0, m2, nl + ind, true)) && (!ok ==> wrote(o0, m2, nl + ind + cl, false)) by { lemma_step(o0, m1, m2, nl, ind, cl, ok); }
            assert forall|m2: Seq<u8>, m3: Seq<u8>, ok: bool| wrote(o0, m2, nl + ind, true) && wrote(m2, m3, cl, ok) implies wrote(o0, m3, nl + ind + cl, ok) by { lemma_wrote_seq(o0, m2, m3, nl + ind, cl, ok); }
            assert forall|m3: Seq<u8>, ok: bool| wrote(o0, m3, cl, ok) implies wrote(o0, m3, Seq::<u8>::empty() + cl, ok) by { }
        }
//@end
//@extract file=src/format.rs impl="Formatter for PrettyFormatter" fn=begin_object
//@subst /b"\{"/ => &[0x7bu8]
//@sig
        requires old(self).current_indent < usize::MAX,
        ensures wrote(old(writer).out(), final(writer).out(), [0x7bu8]@, res.is_ok()),
            final(self).current_indent == old(self).current_indent + 1, !final(self).has_value, final(self).indent == old(self).indent,
//@end
//@extract file=src/format.rs impl="Formatter for PrettyFormatter" fn=end_object
//@subst /b"\\n"/ => &[0x0au8]
//@subst /b"\}"/ => &[0x7du8]
//@sig
        requires old(self).current_indent >= 1,
        ensures final(self).current_indent == old(self).current_indent - 1, final(self).indent == old(self).indent,
            final(self).has_value == old(self).has_value,
            // an empty container closes at once; otherwise newline + the parent's indentation come first
            wrote(old(writer).out(), final(writer).out(),
                  (if old(self).has_value { [0x0au8]@ + repeat(old(self).indent@, (old(self).current_indent - 1) as nat) } else { Seq::<u8>::empty() }) + [0x7du8]@,
                  res.is_ok()),
//@after /self\.current_indent -= 1;/
        let ghost o0 = writer.out();
        let ghost nl = [0x0au8]@;
        let ghost ind = repeat(self.indent@, self.current_indent as nat);
        let ghost cl = [0x7du8]@;
        proof {
            lemma_wrote_nothing(o0);
            assert(Seq::<u8>::empty() + cl =~= cl);
            assert forall|m1: Seq<u8>, ok: bool| wrote(o0, m1, nl, ok) implies (!ok ==> wrote(o0, m1, nl + ind + cl, false)) by { if !ok { lemma_wrote_first_failed(o0, m1, nl, ind + cl); assert(nl + (ind + cl) =~= nl + ind + cl); } }
            assert forall|m1: Seq<u8>, m2: Seq<u8>, ok: bool| wrote(o0, m1, nl, true) && wrote(m1, m2, ind, ok) implies (ok ==> wrote(o0, m2, nl + ind, true)) && (!ok ==> wrote(o0, m2, nl + ind + cl, false)) by { lemma_step(o0, m1, m2, nl, ind, cl, ok); }
            assert forall|m2: Seq<u8>, m3: Seq<u8>, ok: bool| wrote(o0, m2, nl + ind, true) && wrote(m2, m3, cl, ok) implies wrote(o0, m3, nl + ind + cl, ok) by { lemma_wrote_seq(o0, m2, m3, nl + ind, cl, ok); }
            assert forall|m3: Seq<u8>, ok: bool| wrote(o0, m3, cl, ok) implies wrote(o0, m3, Seq::<u8>::empty() + cl, ok) by { }
        }
//@end
//@extract file=src/format.rs impl="Formatter for PrettyFormatter" fn=begin_array_value
//@subst /b",\\n"/ => &[0x2cu8, 0x0au8]
//@subst /b"\\n"/ => &[0x0au8]
//@sig
        ensures wrote(old(writer).out(), final(writer).out(), old(self).sep(first, old(self).current_indent as nat), res.is_ok()),
            final(self).current_indent == old(self).current_indent, final(self).indent == old(self).indent, final(self).has_value == old(self).has_value,
//@before /tri!\(writer\.write_all\(if first/
        let ghost o0 = writer.out();
        let ghost hd = if first { [0x0au8]@ } else { [0x2cu8, 0x0au8]@ };
        let ghost ind = repeat(self.indent@, self.current_indent as nat);
        proof {
            assert forall|m1: Seq<u8>, ok: bool| wrote(o0, m1, hd, ok) implies (!ok ==> wrote(o0, m1, hd + ind, false)) by { if !ok { lemma_wrote_first_failed(o0, m1, hd, ind); } }
            assert forall|m1: Seq<u8>, m2: Seq<u8>, ok: bool| wrote(o0, m1, hd, true) && wrote(m1, m2, ind, ok) implies wrote(o0, m2, hd + ind, ok) by { lemma_wrote_seq(o0, m1, m2, hd, ind, ok); }
        }
//@end
//@extract file=src/format.rs impl="Formatter for PrettyFormatter" fn=begin_object_key
//@subst /b",\\n"/ => &[0x2cu8, 0x0au8]
//@subst /b"\\n"/ => &[0x0au8]
//@sig
        ensures wrote(old(writer).out(), final(writer).out(), old(self).sep(first, old(self).current_indent as nat), res.is_ok()),
            final(self).current_indent == old(self).current_indent, final(self).indent == old(self).indent, final(self).has_value == old(self).has_value,
//@before /tri!\(writer\.write_all\(if first/
        let ghost o0 = writer.out();
        let ghost hd = if first { [0x0au8]@ } else { [0x2cu8, 0x0au8]@ };
        let ghost ind = repeat(self.indent@, self.current_indent as nat);
        proof {
            assert forall|m1: Seq<u8>, ok: bool| wrote(o0, m1, hd, ok) implies (!ok ==> wrote(o0, m1, hd + ind, false)) by { if !ok { lemma_wrote_first_failed(o0, m1, hd, ind); } }
            assert forall|m1: Seq<u8>, m2: Seq<u8>, ok: bool| wrote(o0, m1, hd, true) && wrote(m1, m2, ind, ok) implies wrote(o0, m2, hd + ind, ok) by { lemma_wrote_seq(o0, m1, m2, hd, ind, ok); }
        }
//@end
//@extract file=src/format.rs impl="Formatter for PrettyFormatter" fn=end_array_value
//@sig
        ensures res.is_ok(), final(_writer).out() == old(_writer).out(), final(self).has_value,
            final(self).current_indent == old(self).current_indent, final(self).indent == old(self).indent,
//@end
//@extract file=src/format.rs impl="Formatter for PrettyFormatter" fn=end_object_value
//@sig
        ensures res.is_ok(), final(_writer).out() == old(_writer).out(), final(self).has_value,
            final(self).current_indent == old(self).current_indent, final(self).indent == old(self).indent,
//@end
//@extract file=src/format.rs impl="Formatter for PrettyFormatter" fn=begin_object_value
//@subst /b":\ "/ => &[0x3au8, 0x20u8]
//@sig
        ensures wrote(old(writer).out(), final(writer).out(), [0x3au8, 0x20u8]@, res.is_ok()),
            final(self).current_indent == old(self).current_indent, final(self).indent == old(self).indent, final(self).has_value == old(self).has_value,
//@end
}

} // verus!
fn main() {}
