// Verus unit `decoder` (C02 fully-decoding half at parser level, C03 structural half): parse_value2 & co.
use vstd::prelude::*;
use vstd::string::StringSliceAdditionalSpecFns;
verus! {
//@include specs/prelude.rs
//@include specs/json_number.rs
//@include specs/json_grammar.rs
//@include specs/json_grammar_lenient.rs
//@include units/frag_parser.vt.rs
//@include units/frag_space.vt.rs
impl<'de, R: Reader<'de>> Parser<R> {
//@include units/frag_number.vt.rs
}
//@include units/frag_string.vt.rs
//@include units/frag_skip.vt.rs
//@include units/frag_decode.vt.rs
//@include specs/json_events_lemmas.rs
//@include specs/json_lenient_equiv.rs

} // verus!
fn main() {}
