// fragment: checked path walkers (C14 / C10): get_from_object_checked, get_from_array_checked
#[verifier::external_body]
pub struct ParsedSlice<'b, 'c> { _p: core::marker::PhantomData<(&'b (), &'c ())> }
impl<'b, 'c> ParsedSlice<'b, 'c> {
    pub uninterp spec fn pbytes(&self) -> Seq<u8>;
}
// the decoded text of the string literal whose body is s[i..e) (specified by the decoder contracts, C09)
pub uninterp spec fn decoded(s: Seq<u8>, i: int, e: int) -> Seq<u8>;
// whether that literal can be decoded at all (escapes denote scalars, surrogates paired, valid UTF-8 unless lossy)
pub uninterp spec fn decodable(s: Seq<u8>, i: int, e: int) -> bool;

// substitution target for `key.len() == target_key.len() && key.as_ref() == target_key.as_bytes()`
#[verifier::external_body]
pub fn key_matches(key: &ParsedSlice, target_key: &str) -> (r: bool)
    ensures r == (key.pbytes() == target_key.spec_bytes()),
{ unimplemented!() }

// i: offset just after the opening quote of a member name. Offset just after the ':' of the FIRST member
// whose decoded name equals `key`, provided every member before it is well formed; None otherwise.
pub open spec fn find_member(s: Seq<u8>, i: int, key: Seq<u8>) -> Option<int>
    decreases s.len() - i
{
    if i < 0 { None } else {
    match str_end(s, i) {
        None => None,
        Some(k) => {
            let c = ws_end(s, k);
            if !decodable(s, i, k - 1) || !(i < k <= c < s.len()) || s[c] != 0x3a { None }
            else if decoded(s, i, k - 1) == key { Some(c + 1) }
            else {
                match value_end(s, c + 1) {
                    None => None,
                    Some(e) => {
                        let q = ws_end(s, e);
                        if !(c + 1 < e <= q < s.len()) || s[q] != 0x2c { None }
                        else {
                            let r = ws_end(s, q + 1);
                            if q + 1 <= r < s.len() && s[r] == 0x22 { find_member(s, r + 1, key) } else { None }
                        }
                    }
                }
            }
        }
    } }
}
// i: offset where an object value is expected
pub open spec fn object_lookup(s: Seq<u8>, i: int, key: Seq<u8>) -> Option<int> {
    let p = ws_end(s, i);
    if !(0 <= i <= p < s.len()) || s[p] != 0x7b { None } else {
        let q = ws_end(s, p + 1);
        if q < s.len() && s[q] == 0x22 { find_member(s, q + 1, key) } else { None }
    }
}
// p: offset of the first byte of an element. Start offset of the n-th element after it (0 = itself),
// provided every element before it is well formed and followed by a comma.
pub open spec fn nth_elem(s: Seq<u8>, p: int, n: nat) -> Option<int>
    decreases n
{
    if n == 0 { Some(p) } else if p < 0 { None } else {
        match value_end(s, p) {
            None => None,
            Some(e) => {
                let q = ws_end(s, e);
                if !(p < e <= q < s.len()) || s[q] != 0x2c { None }
                else {
                    let p2 = ws_end(s, q + 1);
                    if p2 < s.len() { nth_elem(s, p2, (n - 1) as nat) } else { None }
                }
            }
        }
    }
}
pub open spec fn array_lookup(s: Seq<u8>, i: int, n: nat) -> Option<int> {
    let b = ws_end(s, i);
    if !(0 <= i <= b < s.len()) || s[b] != 0x5b { None } else {
        let p = ws_end(s, b + 1);
        if p < s.len() && s[p] != 0x5d { nth_elem(s, p, n) } else { None }
    }
}

impl<'de, R: Reader<'de>> Parser<R> {
    // borrow-or-copy string decoder: under contract in unit `strings` (C09); assumed here:
    // Ok ==> exactly one grammar-valid literal consumed and the result is its decoded text
    #[verifier::external_body]
    pub fn parse_string_raw<'own>(&mut self, buf: &'own mut Vec<u8>) -> (res: Result<ParsedSlice<'de, 'own>>)
        requires old(self).pinv(),
        ensures final(self).pinv(), final(self).same_doc(old(self)),
            res.is_ok() ==> str_end(old(self).read.data(), old(self).read.idx() as int) == Some(final(self).read.idx() as int)
                && res.unwrap().pbytes() == decoded(old(self).read.data(), old(self).read.idx() as int, final(self).read.idx() - 1),
            res.is_ok() <==> (str_end(old(self).read.data(), old(self).read.idx() as int).is_some()
                && decodable(old(self).read.data(), old(self).read.idx() as int, str_end(old(self).read.data(), old(self).read.idx() as int).unwrap() - 1)),
            final(self).read.idx() >= old(self).read.idx(),
            res.is_err() ==> err_ok(res->Err_0, old(self).read.data()),
    { unimplemented!() }

    // SIMD token search: proved in unit `unchecked` (this is its contract, restated): jumps to the first byte at/after idx that
    // is one of `tokens` — whatever lies in between
    #[verifier::external_body]
    pub fn get_next_token<const N: usize>(&mut self, tokens: [u8; N], advance: usize) -> (res: Option<u8>)
        requires old(self).pinv(), advance <= 1,
        ensures final(self).pinv(), final(self).same_doc(old(self)),
            ({
                let s = old(self).read.data();
                let i = old(self).read.idx() as int;
                match res {
                    Some(ch) => exists|q: int| i <= q < s.len() && s[q] == ch && tokens@.contains(ch)
                        && (forall|j: int| i <= j < q ==> !tokens@.contains(#[trigger] s[j]))
                        && final(self).read.idx() == q + advance,
                    None => final(self).read.idx() == s.len() && (forall|j: int| i <= j < s.len() ==> !tokens@.contains(#[trigger] s[j])),
                }
            }),
    { unimplemented!() }

    // error constructor that first consumes the mistyped value: only totality is used
    #[verifier::external_body]
    pub fn peek_invalid_type(&mut self, peek: u8, exp: &str) -> (e: Error)
        // proved for the real function in unit `typed_err`: it may step back one byte (onto `[` / `{`)
        requires old(self).pinv(), old(self).read.idx() >= 1, peek == old(self).read.data()[old(self).read.idx() - 1],
            old(self).nospace_start == -128 || old(self).nospace_start <= old(self).read.idx() - 1,
        ensures final(self).pinv(), final(self).same_doc(old(self)),
            err_ok(e, old(self).read.data()),
    { unimplemented!() }

//@extract file=src/parser.rs impl="Parser<R>" fn=get_from_object_checked
//@attr
    #[verifier::loop_isolation(false)]
//@subst /key\.len\(\) == target_key\.len\(\) && key\.as_ref\(\) == target_key\.as_bytes\(\)/ => key_matches(&key, target_key)
//@sig
        requires old(self).pinv(),
        ensures final(self).pinv(), final(self).same_doc(old(self)),
            // Ok iff the input up to the sought value is `ws { ws (member ,)* "key" ws :` with every skipped
            // member well formed; the reader then stands just after the colon of the FIRST matching member
            res.is_ok() <==> object_lookup(old(self).read.data(), old(self).read.idx() as int, target_key.spec_bytes()).is_some(),
            res.is_ok() ==> final(self).read.idx() == object_lookup(old(self).read.data(), old(self).read.idx() as int, target_key.spec_bytes()).unwrap(),
            // every error is made by Parser::error: positioned inside the input (C20)
            res.is_err() ==> err_ok(res->Err_0, old(self).read.data()),
//@before /match self.skip_space\(\) \{/ #1
        let ghost s = self.read.data();
        let ghost i0 = self.read.idx() as int;
        let ghost tk = target_key.spec_bytes();
        proof { lemma_ws_end_bounds(s, i0); }
//@loop 1
            invariant self.pinv(), self.same_doc(old(self)),
                i0 < self.read.idx(),
                object_lookup(s, i0, tk) == find_member(s, self.read.idx() as int, tk),
            decreases s.len() - self.read.idx(),
//@before /let key = self.parse_string_raw\(temp_buf\)\?;/
            let ghost ki = self.read.idx() as int;
//@after /let key = self.parse_string_raw\(temp_buf\)\?;/
            proof { lemma_str_end_bounds(s, ki); lemma_ws_end_bounds(s, self.read.idx() as int); }
//@after /self.parse_object_clo\(\)\?;/
            let ghost vi = self.read.idx() as int;
//@after /self.skip_one\(\)\?;/
            proof { lemma_value_end_bounds(s, vi); lemma_ws_end_bounds(s, self.read.idx() as int); }
//@end

//@extract file=src/parser.rs impl="Parser<R>" fn=get_from_array_checked
//@attr
    #[verifier::loop_isolation(false)]
//@sig
        requires old(self).pinv(),
        ensures final(self).pinv(), final(self).same_doc(old(self)),
            // Ok iff `ws [ ws` is followed by `index` well-formed elements each followed by a comma and then at
            // least one more byte; the reader then stands on the first byte of element `index`
            res.is_ok() <==> array_lookup(old(self).read.data(), old(self).read.idx() as int, index as nat).is_some(),
            res.is_ok() ==> final(self).read.idx() == array_lookup(old(self).read.data(), old(self).read.idx() as int, index as nat).unwrap(),
            // every error is made by Parser::error: positioned inside the input (C20)
            res.is_err() ==> err_ok(res->Err_0, old(self).read.data()),
//@before /let mut count =/
        let ghost s = self.read.data();
        let ghost i0 = self.read.idx() as int;
        proof { lemma_ws_end_bounds(s, i0); }
//@before /match self.skip_space_peek\(\) \{/ #1
        proof { lemma_ws_end_bounds(s, self.read.idx() as int); }
//@loop 1
            invariant self.pinv(), self.same_doc(old(self)),
                i0 < self.read.idx(), count <= index,
                self.read.idx() < s.len(), !is_ws(s[self.read.idx() as int]),
                array_lookup(s, i0, index as nat) == nth_elem(s, self.read.idx() as int, count as nat),
            decreases count,
//@before /self.skip_one\(\)\?;/
            let ghost vi = self.read.idx() as int;
            proof { lemma_ws_end_stop(s, vi, vi); }
//@after /self.skip_one\(\)\?;/
            proof { lemma_value_end_bounds(s, vi); lemma_ws_end_bounds(s, self.read.idx() as int); }
//@end
}
