// fragment: the validating number skipper (included by skip_number and recognisers)
//@extract file=src/parser.rs impl="Parser<R>" fn=skip_single_digit
//@sig
        requires old(self).pinv(),
        ensures final(self).pinv(), final(self).same_doc(old(self)), final(self).same_cache(old(self)),
            res.is_ok() <==> dig_at(old(self).read.data(), old(self).read.idx() as int),
            res.is_ok() ==> final(self).read.idx() == old(self).read.idx() + 1 && res.unwrap() == old(self).read.data()[old(self).read.idx() as int],
            final(self).read.idx() <= old(self).read.idx() + 1,
            final(self).read.idx() >= old(self).read.idx(),
            old(self).read.idx() <= old(self).read.data().len() ==> final(self).read.idx() <= old(self).read.data().len(),
            // every error is made by Parser::error: positioned inside the input (C20)
            res.is_err() ==> err_ok(res->Err_0, old(self).read.data()),
//@end

//@extract file=src/parser.rs impl="Parser<R>" fn=skip_exponent
//@sig
        requires old(self).pinv(),
        ensures final(self).pinv(), final(self).same_doc(old(self)), final(self).same_cache(old(self)),
            final(self).read.idx() >= old(self).read.idx(),
            res.is_ok() <==> exp_end(old(self).read.data(), old(self).read.idx() as int).is_some(),
            res.is_ok() ==> final(self).read.idx() == exp_end(old(self).read.data(), old(self).read.idx() as int).unwrap(),
            final(self).read.idx() <= old(self).read.data().len(),
            // every error is made by Parser::error: positioned inside the input (C20)
            res.is_err() ==> err_ok(res->Err_0, old(self).read.data()),
//@loop 1
            invariant self.pinv(), self.same_doc(old(self)), self.same_cache(old(self)), self.read.idx() >= old(self).read.idx(),
              self.read.idx() <= self.read.data().len(),
              exp_end(old(self).read.data(), old(self).read.idx() as int) == Some(digits_end(self.read.data(), self.read.idx() as int)),
            decreases self.read.data().len() - self.read.idx(),
//@end

//@extract file=src/parser.rs impl="Parser<R>" fn=do_skip_number
//@sig
        requires old(self).pinv(), old(self).read.idx() >= 1,
            first == old(self).read.data()[old(self).read.idx() - 1],
            first == 0x2d || is_digit(first),
        ensures final(self).pinv(), final(self).same_doc(old(self)), final(self).same_cache(old(self)),
            final(self).read.idx() >= old(self).read.idx(),
            res.is_ok() <==> number_end(old(self).read.data(), old(self).read.idx() - 1).is_some(),
            res.is_ok() ==> final(self).read.idx() == number_end(old(self).read.data(), old(self).read.idx() - 1).unwrap(),
            final(self).read.idx() <= old(self).read.data().len(),
            // every error is made by Parser::error: positioned inside the input (C20)
            res.is_err() ==> err_ok(res->Err_0, old(self).read.data()),
//@loop 1
            invariant self.pinv(), self.same_doc(old(self)), self.same_cache(old(self)), self.read.idx() >= old(self).read.idx(),
                self.read.idx() <= self.read.data().len(),
                number_end(old(self).read.data(), old(self).read.idx() - 1) == num_tail(self.read.data(), self.read.idx() as int, is_float),
            decreases self.read.data().len() - self.read.idx(),
//@after /let v =/
            let ghost base = self.read.idx() as int;
            let ghost dat = self.read.data();
//@after /let mut nondigits =/
            proof {
                assert forall|j: int| 0 <= j < 32 implies bit32(nondigits, j) == !is_digit(#[trigger] chunk@[j]) by {
                    assert(v.lanes[j] == chunk@[j]);
                    assert(zero.lanes[j] == 48u8);
                    assert(nine.lanes[j] == 57u8);
                    assert((48u8 as i8) == 48i8);
                    let x = chunk@[j];
                    assert(((48i8 > (x as i8)) || ((x as i8) > 57i8)) == !is_digit(x)) by (bit_vector);
                }
                assert forall|j: int| self.read.idx() <= j < self.read.idx() + 32 implies is_digit(#[trigger] self.read.data()[j]) == !bit32(nondigits, j - self.read.idx()) by {
                    assert(self.read.data()[j] == chunk@[j - self.read.idx()]);
                }
            }
//@after /let mut cnt =/
                proof {
                    lemma_tz32(nondigits);
                    lemma_digits_run(self.read.data(), self.read.idx() as int, cnt as int);
                }
//@before /^\s+nondigits = nondigits\./
                    let ghost nd0 = nondigits;
//@after /^\s+nondigits = nondigits\./
                    proof {
                        assert forall|k: int| 0 <= k < 32 implies bit32(nondigits, k) == (k + cnt < 32 && bit32(nd0, k + cnt)) by {
                            lemma_shr32(nd0, cnt as u32, k as u32);
                        }
                    }
//@after /let offset =/
                        proof {
                            lemma_tz32(nondigits);
                            assert(self.read.idx() == base + cnt);
                            assert forall|j: int| base + cnt <= j < base + cnt + offset implies is_digit(#[trigger] dat[j]) by {
                                assert(!bit32(nondigits, j - base - cnt));
                                assert(!bit32(nd0, j - base));
                            }
                            assert(!is_digit(dat[base + cnt + offset])) by {
                                assert(bit32(nondigits, offset as int));
                                assert(bit32(nd0, offset + cnt));
                            }
                            lemma_digits_run(dat, base + cnt, offset as int);
                        }
//@before /self\.read\.eat\(/ #7
                        proof {
                            assert(self.read.idx() == base + cnt);
                            assert forall|j: int| base + cnt <= j < base + 32 implies is_digit(#[trigger] dat[j]) by {
                                lemma_zero32((j - base - cnt) as u32);
                                assert(!bit32(nondigits, j - base - cnt));
                                assert(!bit32(nd0, j - base));
                            }
                            lemma_digits_run(dat, base + cnt, 32 - cnt);
                        }
//@before /self\.read\.eat\(/ #10
            proof {
                assert forall|j: int| 0 <= j < 32 implies !bit32(nondigits, j) by {
                    lemma_zero32(j as u32);
                }
                lemma_digits_run(self.read.data(), self.read.idx() as int, 32);
            }
//@loop 2
            invariant self.pinv(), self.same_doc(old(self)), self.same_cache(old(self)), self.read.idx() >= old(self).read.idx(),
                self.read.idx() <= self.read.data().len(),
                number_end(old(self).read.data(), old(self).read.idx() - 1) == num_tail(self.read.data(), self.read.idx() as int, is_float),
            decreases self.read.data().len() - self.read.idx(),
//@loop 3
            invariant self.pinv(), self.same_doc(old(self)), self.same_cache(old(self)), self.read.idx() >= old(self).read.idx(),
                self.read.idx() <= self.read.data().len(),
                number_end(old(self).read.data(), old(self).read.idx() - 1) == num_tail(self.read.data(), self.read.idx() as int, true),
            decreases self.read.data().len() - self.read.idx(),
//@end

//@extract file=src/parser.rs impl="Parser<R>" fn=skip_number
//@sig
        requires old(self).pinv(), old(self).read.idx() >= 1,
            first == old(self).read.data()[old(self).read.idx() - 1],
            first == 0x2d || is_digit(first),
        ensures final(self).pinv(), final(self).same_doc(old(self)), final(self).same_cache(old(self)),
            final(self).read.idx() >= old(self).read.idx(),
            res.is_ok() <==> number_end(old(self).read.data(), old(self).read.idx() - 1).is_some(),
            res.is_ok() ==> final(self).read.idx() == number_end(old(self).read.data(), old(self).read.idx() - 1).unwrap()
                && str_bytes(res.unwrap()) == old(self).read.data().subrange(old(self).read.idx() - 1, final(self).read.idx() as int),
            final(self).read.idx() <= old(self).read.data().len(),
            // every error is made by Parser::error: positioned inside the input (C20)
            res.is_err() ==> err_ok(res->Err_0, old(self).read.data()),
//@before /let end =/
        proof { lemma_number_end_bounds(self.read.data(), start as int); }
//@end
