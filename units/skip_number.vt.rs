// Verus unit `skip_number`: the validating number skipper of src/parser.rs against the RFC 8259
// number grammar. Serves C02 (accept iff grammar), C08 (raw number == verbatim grammatical literal),
// C14 (skipped number is well formed), C01 (no reader precondition violated, no overflow).
use vstd::prelude::*;
verus! {
//@include specs/prelude.rs
//@include specs/json_number.rs

//@include specs/json_grammar.rs
//@include units/frag_parser.vt.rs

impl<'de, R: Reader<'de>> Parser<R> {
//@include units/frag_number.vt.rs
}

} // verus!
fn main() {}
