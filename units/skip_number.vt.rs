// Verus unit `skip_number`: the validating number skipper of src/parser.rs against the RFC 8259
// number grammar. Serves C02 (accept iff grammar), C08 (raw number == verbatim grammatical literal),
// C14 (skipped number is well formed), C01 (no reader precondition violated, no overflow).
use vstd::prelude::*;
verus! {
//@include specs/prelude.rs
//@include specs/json_number.rs

#[derive(Debug)]
pub struct Error { pub code: ErrorCode }

// `as_str` is `from_utf8_unchecked` (unsafe, outside Verus): assumed to return a view of the same bytes.
pub uninterp spec fn str_bytes(s: &str) -> Seq<u8>;
#[verifier::external_body]
pub fn as_str(data: &[u8]) -> (r: &str)
    ensures str_bytes(r) == data@,
{ unimplemented!() }

pub struct Parser<R> { pub read: R }

//@extract file=src/parser.rs macro=perr

impl<'de, R: Reader<'de>> Parser<R> {
    // Parser::error is verified in unit `errors`; here only its totality is used.
    #[verifier::external_body]
    pub fn error(&self, reason: ErrorCode) -> (e: Error) { Error { code: reason } }

//@include units/frag_number.vt.rs
}

} // verus!
fn main() {}
