// fragment: owned lazy values built by the parser (C13): get_owned_lazyvalue (raw span + literal handling captured at
// skip time) and load_owned_lazyvalue (the on-demand ONE-LEVEL parse of a lazily kept container), against the
// reference "one-level view" of the text: the children of a container are exactly the source spans of its
// elements / members, in order, keys decoded, literals kept parsed.
//
// `OwnedLazyValue` (tagged union over FastStr / Arc / AtomicPtr in src/lazyvalue/owned.rs) is opaque here: it enters
// through a ghost `shape()` and the contracts of its one-line constructors (each is `Self(LazyPacked::…(arg))`;
// `new` additionally keeps `true/false/null` parsed — Kani harnesses owned_new_* under this property).

pub enum Olv {
    Raw(Seq<u8>),            // text kept lazily (numbers, strings, containers): exactly these bytes
    True, False, Null,
    Num(ParserNumber),
    Str(Seq<u8>),            // decoded string
    Arr(Seq<Olv>),
    Obj(Seq<(Seq<u8>, Olv)>),
}

#[verifier::external_body]
pub struct FastStr { _p: core::marker::PhantomData<()> }
impl FastStr {
    pub uninterp spec fn fbytes(&self) -> Seq<u8>;
    #[verifier::external_body]
    pub fn new(s: &str) -> (r: Self) ensures r.fbytes() == str_bytes(s), { unimplemented!() }
}
impl<'a> JsonSlice<'a> {
    // JsonSlice::as_faststr copies / re-shares the same bytes (src/input.rs)
    #[verifier::external_body]
    pub fn as_faststr(&self) -> (r: FastStr) ensures r.fbytes() == self.jbytes(), { unimplemented!() }
}
impl<'a> From<FastStr> for JsonSlice<'a> {
    #[verifier::external_body]
    fn from(value: FastStr) -> (r: Self) ensures r.jbytes() == value.fbytes(), { unimplemented!() }
}
#[verifier::external_body]
pub struct Number { _p: core::marker::PhantomData<()> }
impl Number { pub uninterp spec fn pn(&self) -> ParserNumber; }
impl From<ParserNumber> for Number {
    #[verifier::external_body]
    fn from(value: ParserNumber) -> (r: Self) ensures r.pn() == value, { unimplemented!() }
}

pub open spec fn lit_true() -> Seq<u8> { seq![0x74u8, 0x72u8, 0x75u8, 0x65u8] }
pub open spec fn lit_false() -> Seq<u8> { seq![0x66u8, 0x61u8, 0x6cu8, 0x73u8, 0x65u8] }
pub open spec fn lit_null() -> Seq<u8> { seq![0x6eu8, 0x75u8, 0x6cu8, 0x6cu8] }

#[verifier::external_body]
pub struct OwnedLazyValue { _p: core::marker::PhantomData<()> }
impl OwnedLazyValue {
    pub uninterp spec fn shape(&self) -> Olv;
    #[verifier::external_body]
    pub fn from_non_esc_str(raw: FastStr) -> (r: Self) ensures r.shape() == Olv::Raw(raw.fbytes()), { unimplemented!() }
    #[verifier::external_body]
    pub fn from_faststr(str: FastStr) -> (r: Self) ensures r.shape() == Olv::Str(str.fbytes()), { unimplemented!() }
    // literals are kept parsed (F4), everything else keeps the raw text
    #[verifier::external_body]
    pub fn new(raw: JsonSlice, status: HasEsc) -> (r: Self)
        ensures r.shape() == (if raw.jbytes() == lit_true() { Olv::True } else if raw.jbytes() == lit_false() { Olv::False }
                              else if raw.jbytes() == lit_null() { Olv::Null } else { Olv::Raw(raw.jbytes()) }),
    { unimplemented!() }
}
impl From<Number> for OwnedLazyValue {
    #[verifier::external_body]
    fn from(number: Number) -> (r: Self) ensures r.shape() == Olv::Num(number.pn()), { unimplemented!() }
}
impl From<bool> for OwnedLazyValue {
    #[verifier::external_body]
    fn from(v: bool) -> (r: Self) ensures r.shape() == (if v { Olv::True } else { Olv::False }), { unimplemented!() }
}
impl From<()> for OwnedLazyValue {
    #[verifier::external_body]
    fn from(v: ()) -> (r: Self) ensures r.shape() == Olv::Null, { unimplemented!() }
}
pub open spec fn shapes(v: Seq<OwnedLazyValue>) -> Seq<Olv> { Seq::new(v.len(), |i: int| v[i].shape()) }
pub open spec fn pair_shapes(v: Seq<(FastStr, OwnedLazyValue)>) -> Seq<(Seq<u8>, Olv)> { Seq::new(v.len(), |i: int| (v[i].0.fbytes(), v[i].1.shape())) }
impl From<Vec<OwnedLazyValue>> for OwnedLazyValue {
    #[verifier::external_body]
    fn from(v: Vec<OwnedLazyValue>) -> (r: Self) ensures r.shape() == Olv::Arr(shapes(v@)), { unimplemented!() }
}
impl From<Vec<(FastStr, OwnedLazyValue)>> for OwnedLazyValue {
    #[verifier::external_body]
    fn from(v: Vec<(FastStr, OwnedLazyValue)>) -> (r: Self) ensures r.shape() == Olv::Obj(pair_shapes(v@)), { unimplemented!() }
}

// ---- reference one-level view of a well-formed text
// the decoded text of the string literal whose body is s[i..e) (specified by the decoder contracts, C09)
pub uninterp spec fn decoded(s: Seq<u8>, i: int, e: int) -> Seq<u8>;
/// what get_owned_lazyvalue must build for the well-formed value that starts (after whitespace) at i
pub open spec fn child_shape(s: Seq<u8>, i: int) -> Olv {
    let p = ws_end(s, i);
    match value_end(s, i) {
        None => Olv::Null,
        Some(e) => if !(0 <= i <= p < s.len()) { Olv::Null }
            else if s[p] == 0x74 { Olv::True } else if s[p] == 0x66 { Olv::False } else if s[p] == 0x6e { Olv::Null }
            else { Olv::Raw(s.subrange(p, e)) },
    }
}
/// children of an array: i is where an element is expected
pub open spec fn arr_shapes(s: Seq<u8>, i: int) -> Seq<Olv>
    decreases s.len() - i
{
    if i < 0 { seq![] } else {
    match value_end(s, i) {
        None => seq![],
        Some(e) => {
            let q = ws_end(s, e);
            if !(i < e <= q < s.len()) { seq![] }
            else if s[q] == 0x2c { seq![child_shape(s, i)] + arr_shapes(s, q + 1) }
            else { seq![child_shape(s, i)] }
        }
    } }
}
/// members of an object: i is just after the opening quote of a member name
pub open spec fn obj_shapes(s: Seq<u8>, i: int) -> Seq<(Seq<u8>, Olv)>
    decreases s.len() - i
{
    if i < 0 { seq![] } else {
    match str_end(s, i) {
        None => seq![],
        Some(k) => {
            let cp = ws_end(s, k);
            if !(i < k <= cp < s.len()) || s[cp] != 0x3a { seq![] }
            else { match value_end(s, cp + 1) {
                None => seq![],
                Some(e) => {
                    let q = ws_end(s, e);
                    let head = seq![(decoded(s, i, k - 1), child_shape(s, cp + 1))];
                    if !(cp + 1 < e <= q < s.len()) { seq![] }
                    else if s[q] == 0x2c {
                        let r = ws_end(s, q + 1);
                        if q + 1 <= r < s.len() && s[r] == 0x22 { head + obj_shapes(s, r + 1) } else { head }
                    } else { head }
                }
            } }
        }
    } }
}

pub proof fn lemma_child_shape_ws(s: Seq<u8>, i: int, p: int)
    requires 0 <= i <= p <= ws_end(s, i), i <= s.len(),
    ensures child_shape(s, i) == child_shape(s, p),
{
    lemma_value_end_ws(s, i, p); lemma_ws_end_idem(s, i, p); lemma_ws_end_bounds(s, i);
}
pub proof fn lemma_arr_shapes_ws(s: Seq<u8>, i: int, p: int)
    requires 0 <= i <= p <= ws_end(s, i), i <= s.len(),
    ensures arr_shapes(s, i) == arr_shapes(s, p),
{
    lemma_value_end_ws(s, i, p); lemma_child_shape_ws(s, i, p); lemma_ws_end_bounds(s, i);
    if value_end(s, p).is_some() { lemma_value_end_bounds(s, p); }
}
pub proof fn lemma_shapes_push(v: Seq<OwnedLazyValue>, x: OwnedLazyValue)
    ensures shapes(v.push(x)) == shapes(v).push(x.shape()),
{
    assert(shapes(v.push(x)) =~= shapes(v).push(x.shape()));
}
pub proof fn lemma_pair_shapes_push(v: Seq<(FastStr, OwnedLazyValue)>, x: (FastStr, OwnedLazyValue))
    ensures pair_shapes(v.push(x)) == pair_shapes(v).push((x.0.fbytes(), x.1.shape())),
{
    assert(pair_shapes(v.push(x)) =~= pair_shapes(v).push((x.0.fbytes(), x.1.shape())));
}

//@extract file=src/parser.rs enum=Reference
impl<'b, 'c> Reference<'b, 'c, str> {
    pub open spec fn rbytes(&self) -> Seq<u8> {
        match self { Reference::Borrowed(s) => str_bytes(s), Reference::Copied(s) => str_bytes(s) }
    }
}
#[verifier::external_body]
pub fn str_as_bytes<'a>(s: &'a str) -> (r: &'a [u8]) ensures r@ == str_bytes(s), { unimplemented!() }

impl<'de, R: Reader<'de>> Parser<R> {
    // Parser::parse_number: verified in unit `number` (consumes exactly the number, classification exact); assumed here
    #[verifier::external_body]
    pub fn parse_number(&mut self, first: u8) -> (res: Result<ParserNumber>)
        requires old(self).pinv(), old(self).read.idx() >= 1,
            first == old(self).read.data()[old(self).read.idx() - 1], first == 0x2d || is_digit(first),
            // proved for the real wrapper in unit `typed_num`: the reader steps back one byte, the whitespace cache must not start after it
            old(self).nospace_start == -128 || old(self).nospace_start <= old(self).read.idx() - 1,
        ensures final(self).pinv(), final(self).same_doc(old(self)),
            number_end(old(self).read.data(), old(self).read.idx() - 1).is_some() ==> res.is_ok()
                && final(self).read.idx() == number_end(old(self).read.data(), old(self).read.idx() - 1).unwrap(),
            final(self).read.idx() >= old(self).read.idx(),
            res.is_err() ==> err_ok(res->Err_0, old(self).read.data()),
    { unimplemented!() }

    // parse_str: scanning half verified in unit `strings`; acceptance + decoded text assumed here
    #[verifier::external_body]
    pub fn parse_str<'own>(&mut self, buf: &'own mut Vec<u8>) -> (res: Result<Reference<'de, 'own, str>>)
        requires old(self).pinv(),
        ensures final(self).pinv(), final(self).same_doc(old(self)),
            res.is_ok() ==> str_end(old(self).read.data(), old(self).read.idx() as int) == Some(final(self).read.idx() as int)
                && res.unwrap().rbytes() == decoded(old(self).read.data(), old(self).read.idx() as int, final(self).read.idx() - 1),
            // completeness on what this unit needs: a literal the grammar accepts and the decoder can decode
            final(self).read.idx() >= old(self).read.idx(),
            res.is_err() ==> err_ok(res->Err_0, old(self).read.data()),
    { unimplemented!() }

    // non-validating skipper: proved in unit `unchecked` (skip_one_unchecked == skip_one on a well-formed value that is
    // followed by whitespace and `,` `]` `}` or the end of input — the unsafe API's precondition); restated here as an
    // implication because this unit also calls it on arbitrary input
    #[verifier::external_body]
    pub fn skip_one_unchecked(&mut self) -> (res: Result<(&'de [u8], ParseStatus)>)
        requires old(self).pinv(),
        ensures final(self).pinv(), final(self).same_doc(old(self)), final(self).read.idx() >= old(self).read.idx(),
            value_end(old(self).read.data(), old(self).read.idx() as int).is_some()
                && follow_ok(old(self).read.data(), value_end(old(self).read.data(), old(self).read.idx() as int).unwrap())
                ==> res.is_ok() && final(self).read.idx() == value_end(old(self).read.data(), old(self).read.idx() as int).unwrap(),
            res.is_err() ==> err_ok(res->Err_0, old(self).read.data()),
    { unimplemented!() }

//@extract file=src/parser.rs impl="Parser<R>" fn=match_literal
//@subst /literal\.len\(\)/ => literal.as_bytes().len()
//@subst /chunk != literal\.as_bytes\(\)/ => !slice_eq(chunk, literal.as_bytes())
//@sig
        requires old(self).pinv(),
        ensures final(self).pinv(), final(self).same_doc(old(self)),
            res.is_ok() ==> res == Ok::<bool, Error>(true) && lit_end(old(self).read.data(), old(self).read.idx() as int, literal.spec_bytes()) == Some(final(self).read.idx() as int),
            lit_end(old(self).read.data(), old(self).read.idx() as int, literal.spec_bytes()).is_some() ==> res.is_ok(),
            final(self).read.idx() >= old(self).read.idx(),
            // every error is made by Parser::error: positioned inside the input (C20)
            res.is_err() ==> err_ok(res->Err_0, old(self).read.data()),
//@end

//@extract file=src/parser.rs impl="Parser<R>" fn=get_owned_lazyvalue
//@subst /Some\(b't'\) if self\.match_literal\("rue"\)\? => return Ok\(true\.into\(\)\),/ => Some(b't') => { if self.match_literal("rue")? { return Ok(true.into()); } unreachable!() }
//@subst /Some\(b'f'\) if self\.match_literal\("alse"\)\? => return Ok\(false\.into\(\)\),/ => Some(b'f') => { if self.match_literal("alse")? { return Ok(false.into()); } unreachable!() }
//@subst /Some\(b'n'\) if self\.match_literal\("ull"\)\? => return Ok\(\(\)\.into\(\)\),/ => Some(b'n') => { if self.match_literal("ull")? { return Ok(().into()); } unreachable!() }
//@subst /unsafe \{ self\.read\.slice_ref\(slice\)\.as_faststr\(\) \}/ => self.read.slice_ref(slice).as_faststr()
//@subst /unsafe \{ self\.read\.slice_ref\(sub\)\.as_faststr\(\) \}/ => self.read.slice_ref(sub).as_faststr()
//@sig
        requires old(self).pinv(),
        ensures final(self).pinv(), final(self).same_doc(old(self)), final(self).read.idx() >= old(self).read.idx(),
            ({
                let s = old(self).read.data();
                let i = old(self).read.idx() as int;
                // validating mode: succeeds only on a well-formed value
                &&& (strict && res.is_ok() ==> value_end(s, i).is_some())
                // on a well-formed value (non-strict mode: followed by whitespace and `,` `]` `}` or the end): succeeds, stops just after it, and the value built is its
                // one-level view: the exact source span (no surrounding whitespace), literals parsed
                &&& (value_end(s, i).is_some() && (strict || follow_ok(s, value_end(s, i).unwrap()))
                        ==> res.is_ok() && final(self).read.idx() == value_end(s, i).unwrap() && res.unwrap().shape() == child_shape(s, i))
            }),
            // every error is made by Parser::error: positioned inside the input (C20)
            res.is_err() ==> err_ok(res->Err_0, old(self).read.data()),
//@before /let c = self\.skip_space\(\);/
        let ghost s = self.read.data();
        let ghost i0 = self.read.idx() as int;
        proof {
            lemma_ws_end_bounds(s, i0); axiom_lits();
            if value_end(s, i0).is_some() { lemma_value_end_bounds(s, i0); }
        }
//@end

//@extract file=src/parser.rs impl="Parser<R>" fn=parse_faststr
//@subst /unsafe \{ self\.read\.slice_ref\(s\.as_bytes\(\)\)\.as_faststr\(\) \}/ => self.read.slice_ref(str_as_bytes(s)).as_faststr()
//@sig
        requires old(self).pinv(),
        ensures final(self).pinv(), final(self).same_doc(old(self)), final(self).read.idx() >= old(self).read.idx(),
            res.is_ok() ==> str_end(old(self).read.data(), old(self).read.idx() as int) == Some(final(self).read.idx() as int)
                && res.unwrap().fbytes() == decoded(old(self).read.data(), old(self).read.idx() as int, final(self).read.idx() - 1),
            // every error is made by Parser::error: positioned inside the input (C20)
            res.is_err() ==> err_ok(res->Err_0, old(self).read.data()),
//@end

//@extract file=src/parser.rs impl="Parser<R>" fn=load_owned_lazyvalue
//@attr
    #[verifier::loop_isolation(false)]
//@subst /unsafe \{ self\.read\.slice_ref\(s\.as_bytes\(\)\)\.as_faststr\(\) \}/ => self.read.slice_ref(str_as_bytes(s)).as_faststr()
//@sig
        requires old(self).pinv(),
        ensures final(self).pinv(), final(self).same_doc(old(self)),
            ({
                let s = old(self).read.data();
                let i = old(self).read.idx() as int;
                let p = ws_end(s, i);
                // soundness of the one-level view on a well-formed container / string: whatever it returns Ok with is
                // exactly the reference view (children = exact source spans in order, keys decoded)
                &&& (value_end(s, i).is_some() && res.is_ok() && p < s.len() && s[p] == 0x5b ==>
                        res.unwrap().shape() == Olv::Arr(if ws_end(s, p + 1) < s.len() && s[ws_end(s, p + 1)] == 0x5d { seq![] } else { arr_shapes(s, p + 1) }))
                // completeness for arrays: a well-formed array is never refused (its children are only skipped)
                &&& (value_end(s, i).is_some() && p < s.len() && s[p] == 0x5b ==> res.is_ok())
                &&& (value_end(s, i).is_some() && res.is_ok() && p < s.len() && s[p] == 0x7b ==>
                        res.unwrap().shape() == Olv::Obj(if ws_end(s, p + 1) < s.len() && s[ws_end(s, p + 1)] == 0x7d { seq![] } else { obj_shapes(s, ws_end(s, p + 1) + 1) }))
                &&& (value_end(s, i).is_some() && res.is_ok() && p < s.len() && s[p] == 0x22 ==>
                        res.unwrap().shape() == Olv::Str(decoded(s, p + 1, str_end(s, p + 1).unwrap() - 1)))
            }),
            // every error is made by Parser::error: positioned inside the input (C20)
            res.is_err() ==> err_ok(res->Err_0, old(self).read.data()),
//@before /match self\.skip_space\(\) \{/ #1
        proof {
            assert(pair_shapes(Seq::<(FastStr, OwnedLazyValue)>::empty()) =~= Seq::<(Seq<u8>, Olv)>::empty());
            assert(shapes(Seq::<OwnedLazyValue>::empty()) =~= Seq::<Olv>::empty());
        }
        let ghost s = self.read.data();
        let ghost i0 = self.read.idx() as int;
        let ghost p0 = ws_end(s, i0);
        let ghost wf = value_end(s, i0).is_some();
        proof { lemma_ws_end_bounds(s, i0); if p0 < s.len() { lemma_ws_end_bounds(s, p0 + 1); } }
//@before /Some\(b'\}'\) => return Ok\(Vec::<\(FastStr, OwnedLazyValue\)>::new\(\)\.into\(\)\),/
                    // (empty object: the empty member list)
//@before /let mut vec = Vec::with_capacity\(32\);/ #1
                proof { assert(pair_shapes(Seq::<(FastStr, OwnedLazyValue)>::empty()) =~= Seq::<(Seq<u8>, Olv)>::empty()); }
//@loop 1
                    invariant self.pinv(), self.same_doc(old(self)), p0 < self.read.idx(), p0 < s.len(), s[p0] == 0x7b,
                        wf ==> members_end(s, self.read.idx() as int).is_some(),
                        wf ==> obj_shapes(s, ws_end(s, p0 + 1) + 1) == pair_shapes(vec@) + obj_shapes(s, self.read.idx() as int),
                    decreases s.len() - self.read.idx(),
//@before /let key = self\.parse_faststr\(strbuf\)\?;/
                    let ghost ki = self.read.idx() as int;
                    let ghost v0 = vec@;
//@after /let key = self\.parse_faststr\(strbuf\)\?;/
                    let ghost k = self.read.idx() as int;
                    proof { lemma_str_end_bounds(s, ki); lemma_ws_end_bounds(s, k); }
//@after /self\.parse_object_clo\(\)\?;/ #1
                    let ghost vi = self.read.idx() as int;
                    proof { if wf { lemma_value_end_bounds(s, vi); } }
//@after /vec\.push\(\(key, olv\)\);/
                    let ghost e = self.read.idx() as int;
                    proof {
                        lemma_ws_end_bounds(s, e);
                        lemma_pair_shapes_push(v0, vec@.last());
                        assert(vec@ == v0.push(vec@.last()));
                        let q = ws_end(s, e);
                        if q < s.len() && s[q] == 0x2c { lemma_ws_end_bounds(s, q + 1); }
                        if wf {
                            let head = seq![(decoded(s, ki, k - 1), child_shape(s, vi))];
                            assert(pair_shapes(vec@) == pair_shapes(v0) + head);
                            assert(obj_shapes(s, ki) == if s[q] == 0x2c { head + obj_shapes(s, ws_end(s, q + 1) + 1) } else { head });
                            assert((pair_shapes(v0) + head) + obj_shapes(s, ws_end(s, q + 1) + 1) =~= pair_shapes(v0) + (head + obj_shapes(s, ws_end(s, q + 1) + 1)));
                        }
                    }
//@loop 2
                    invariant self.pinv(), self.same_doc(old(self)), p0 <= self.read.idx(), p0 < s.len(), s[p0] == 0x5b,
                        wf ==> elems_end(s, self.read.idx() as int).is_some(),
                        wf ==> arr_shapes(s, p0 + 1) == shapes(vec@) + arr_shapes(s, self.read.idx() as int),
                    decreases s.len() - self.read.idx(),
//@before /self\.read\.backward\(1\);/
                proof {
                    let p1 = ws_end(s, p0 + 1);
                    lemma_elems_end_ws(s, p0 + 1, p1);
                    lemma_arr_shapes_ws(s, p0 + 1, p1);
                    assert(shapes(vec@) =~= seq![]);
                    assert(seq![] + arr_shapes(s, p1) =~= arr_shapes(s, p1));
                }
//@before /vec\.push\(self\.get_owned_lazyvalue\(false\)\?\);/
                    let ghost vi = self.read.idx() as int;
                    let ghost v0 = vec@;
                    proof { if wf { lemma_value_end_bounds(s, vi); } }
//@after /vec\.push\(self\.get_owned_lazyvalue\(false\)\?\);/
                    let ghost e = self.read.idx() as int;
                    proof {
                        lemma_ws_end_bounds(s, e);
                        lemma_shapes_push(v0, vec@.last());
                        assert(vec@ == v0.push(vec@.last()));
                        if wf {
                            let q = ws_end(s, e);
                            let head = seq![child_shape(s, vi)];
                            assert(shapes(vec@) == shapes(v0) + head);
                            assert((shapes(v0) + head) + arr_shapes(s, q + 1) =~= shapes(v0) + (head + arr_shapes(s, q + 1)));
                        }
                    }
//@end
}

// ---- cloning (found F17): a clone of a lazily kept value is lazily kept with the same text — whatever the state
// of its cache — so it serializes verbatim like the original. LazyRaw (FastStr + AtomicPtr<Parsed>) is opaque:
// clone_lazyraw's own contract (same raw text; own copy of the cache) is assumed, the dispatch is what is proved.
#[verifier::external_body]
pub struct LazyRaw { _p: core::marker::PhantomData<()> }
impl LazyRaw {
    pub uninterp spec fn raw_text(&self) -> Seq<u8>;
    #[verifier::external_body]
    pub fn clone_lazyraw(&self) -> (r: LazyRaw) ensures r.raw_text() == self.raw_text(), { unimplemented!() }
}
#[verifier::external_body]
pub struct Parsed { _p: core::marker::PhantomData<()> }
impl Clone for Parsed {
    #[verifier::external_body]
    fn clone(&self) -> (r: Self) { unimplemented!() }
}
impl Clone for FastStr {
    #[verifier::external_body]
    fn clone(&self) -> (r: Self) ensures r.fbytes() == self.fbytes(), { unimplemented!() }
}
//@extract file=src/lazyvalue/owned.rs enum=LazyPacked
//@subst /#\[derive\(Debug\)\]/ => 
//@subst /pub\(crate\) enum/ => pub enum
//@end
impl LazyPacked {
    /// the text a lazily kept value will serialize verbatim (None once it is held parsed)
    pub open spec fn kept_text(&self) -> Option<Seq<u8>> {
        match self { LazyPacked::Raw(r) => Some(r.raw_text()), LazyPacked::NonEscStrRaw(s) => Some(s.fbytes()), LazyPacked::Parsed(_) => None }
    }
}
impl Clone for LazyPacked {
//@extract file=src/lazyvalue/owned.rs impl="Clone for LazyPacked" fn=clone
//@sig
        ensures res.kept_text() == self.kept_text(),
            (self is Raw) == (res is Raw), (self is NonEscStrRaw) == (res is NonEscStrRaw),
//@end
}

// ---- accessors of a lazily kept value (C13: "reports the same child / number / string results as the DOM of its raw
// text"): LazyRaw::get / as_number / as_str answer exactly from the cached one-level parse — never from a shortcut
// over the raw text. `load` (the publish-once cache, C18) is opaque: it returns the one-level parse of this raw text,
// a ghost `view()`; `Parsed::get` is the lookup in that parse (first member with that name / i-th element).
//@extract file=src/value/value_trait.rs enum=JsonType
//@subst /#\[derive\(Copy, Clone, PartialEq, Eq, Debug\)\]/ => #[derive(Copy, Clone)]
//@subst /#\[repr\(u8\)\]/ => 
//@end
pub trait Index: Copy {
    spec fn key_spec(&self) -> Option<Seq<u8>>;
    spec fn index_spec(&self) -> Option<usize>;
    fn as_key(&self) -> (r: Option<&str>) ensures r.is_some() == self.key_spec().is_some(), r.is_some() ==> str_bytes(r.unwrap()) == self.key_spec().unwrap();
    fn as_index(&self) -> (r: Option<usize>) ensures r == self.index_spec();
}
impl Parsed {
    pub uninterp spec fn lookup<I: Index>(&self, idx: I) -> Option<OwnedLazyValue>;
    pub uninterp spec fn number_of(&self) -> Option<Number>;
    pub uninterp spec fn str_of(&self) -> Option<Seq<u8>>;
    #[verifier::external_body]
    pub fn get<I: Index>(&self, index: I) -> (r: Option<&OwnedLazyValue>)
        ensures r.is_some() == self.lookup(index).is_some(), r.is_some() ==> *r.unwrap() == self.lookup(index).unwrap(),
    { unimplemented!() }
}
impl LazyRaw {
    /// the one-level parse of this raw text (what `load` publishes), or None if the text does not parse
    pub uninterp spec fn view(&self) -> Option<Parsed>;
    pub uninterp spec fn jtype(&self) -> JsonType;
    #[verifier::external_body]
    pub fn load(&self) -> (r: Result<&Parsed>)
        ensures r.is_ok() == self.view().is_some(), r.is_ok() ==> *r.unwrap() == self.view().unwrap(),
    { unimplemented!() }
    #[verifier::external_body]
    pub fn get_type(&self) -> (r: JsonType) ensures r == self.jtype(), { unimplemented!() }
//@extract file=src/lazyvalue/owned.rs impl="LazyRaw" fn=get
//@sig
        ensures
            // an array answers index lookups, an object key lookups, both from the one-level parse; nothing else answers
            res.is_some() ==> self.view().is_some() && self.view().unwrap().lookup(idx).is_some() && *res.unwrap() == self.view().unwrap().lookup(idx).unwrap()
                && ((self.jtype() is Array && idx.index_spec().is_some()) || (self.jtype() is Object && idx.key_spec().is_some())),
            // completeness: whenever the parse has the child, it is returned
            ((self.jtype() is Array && idx.index_spec().is_some()) || (self.jtype() is Object && idx.key_spec().is_some()))
                && self.view().is_some() && self.view().unwrap().lookup(idx).is_some() ==> res.is_some(),
//@end
}
