// Verus unit `owned_load` (C13): get_owned_lazyvalue / load_owned_lazyvalue build the one-level view of the text.
use vstd::prelude::*;
use vstd::string::StringSliceAdditionalSpecFns;
verus! {
//@include specs/prelude.rs
//@include specs/json_number.rs
//@include specs/json_grammar.rs
//@include units/frag_parser.vt.rs
//@include units/frag_space.vt.rs
impl<'de, R: Reader<'de>> Parser<R> {
//@include units/frag_number.vt.rs
}
//@include units/frag_string.vt.rs
//@include units/frag_skip.vt.rs
//@extract file=src/lazyvalue/value.rs enum=HasEsc
//@subst /pub\(crate\) enum/ => pub enum
//@end
//@extract file=sonic-number/src/lib.rs enum=ParserNumber
//@include units/frag_owned.vt.rs

} // verus!
fn main() {}
