// fragment: UNCHECKED path walkers (C10: "the unchecked variants give the same answer on well-formed input"):
// get_from_object, get_from_array, skip_string_unchecked2 — against the same object_lookup / array_lookup specs
// the checked walkers are proved against (frag_walk.vt.rs), under the unsafe API's own precondition: the value the
// walker is started on is well formed.
//@include specs/scalar_chars.rs
impl<'de, R: Reader<'de>> Parser<R> {
    // bitmap container skipper: proved in unit `container` against its scalar definition (skip_container_post); the
    // contract below is that one turned into grammar terms by lemma_skip_container_grammar (theorem_container_scan,
    // proved in the same unit): started just after the opening bracket of a well-formed container it succeeds and
    // stops just after the closing one.
    #[verifier::external_body]
    pub fn skip_container(&mut self, left: u8, right: u8) -> (res: Result<()>)
        requires old(self).pinv(), (left == 0x7b && right == 0x7d) || (left == 0x5b && right == 0x5d),
        ensures final(self).pinv(), final(self).same_doc(old(self)), final(self).read.idx() >= old(self).read.idx(),
            ({
                let s = old(self).read.data();
                let i = old(self).read.idx() as int;
                let end = if left == 0x7b { obj_end(s, i) } else { arr_end(s, i) };
                end.is_some() ==> res.is_ok() && final(self).read.idx() == end.unwrap()
            }),
            res.is_err() ==> err_ok(res->Err_0, old(self).read.data()),
    { unimplemented!() }

    // proved in unit `unchecked` (this is its contract, restated)
    #[verifier::external_body]
    pub unsafe fn skip_string_unchecked(&mut self) -> (res: Result<ParseStatus>)
        requires old(self).pinv(), str_end(old(self).read.data(), old(self).read.idx() as int).is_some(),
        ensures final(self).pinv(), final(self).same_doc(old(self)), res.is_ok(),
            final(self).read.idx() == str_end(old(self).read.data(), old(self).read.idx() as int).unwrap(),
            res.is_err() ==> err_ok(res->Err_0, old(self).read.data()),
    { unimplemented!() }

//@extract file=src/parser.rs impl="Parser<R>" fn=skip_string_unchecked2
//@sig
        requires old(self).pinv(), str_end(old(self).read.data(), old(self).read.idx() as int).is_some(),
        ensures final(self).pinv(), final(self).same_doc(old(self)), res.is_ok(),
            final(self).read.idx() == str_end(old(self).read.data(), old(self).read.idx() as int).unwrap(),
            // every error is made by Parser::error: positioned inside the input (C20)
            res.is_err() ==> err_ok(res->Err_0, old(self).read.data()),
//@end

//@extract file=src/parser.rs impl="Parser<R>" fn=get_from_object
//@subst /key\.len\(\) == target_key\.len\(\) && key\.as_ref\(\) == target_key\.as_bytes\(\)/ => key_matches(&key, target_key)
//@subst /&"a JSON object"/ => "a JSON object"
//@sig
        requires old(self).pinv(),
            // the unsafe contract of the unchecked API: the value the walker starts on is well formed
            value_end(old(self).read.data(), old(self).read.idx() as int).is_some(),
        ensures final(self).pinv(), final(self).same_doc(old(self)),
            // same answer as the checked walker
            res.is_ok() <==> object_lookup(old(self).read.data(), old(self).read.idx() as int, target_key.spec_bytes()).is_some(),
            res.is_ok() ==> final(self).read.idx() == object_lookup(old(self).read.data(), old(self).read.idx() as int, target_key.spec_bytes()).unwrap(),
            // every error is made by Parser::error: positioned inside the input (C20)
            res.is_err() ==> err_ok(res->Err_0, old(self).read.data()),
//@before /match self.skip_space\(\) \{/ #1
        let ghost s = self.read.data();
        let ghost i0 = self.read.idx() as int;
        let ghost tk = target_key.spec_bytes();
        proof { lemma_ws_end_bounds(s, i0); lemma_value_end_bounds(s, i0); }
//@before /match self.get_next_token\(\[b'"', b'\}'\], 1\) \{/ #1
        let ghost b1 = self.read.idx() as int;
        proof {
            // just after '{': only whitespace, then '"' or '}'
            lemma_ws_end_bounds(s, b1);
            let q = ws_end(s, b1);
            assert(obj_end(s, b1).is_some());
            assert forall|j: int| b1 <= j < q implies !seq![0x22u8, 0x7du8].contains(#[trigger] s[j]) by { assert(is_ws(s[j])); }
            assert([0x22u8, 0x7du8]@ =~= seq![0x22u8, 0x7du8]);
            assert(seq![0x22u8, 0x7du8][0] == 0x22 && seq![0x22u8, 0x7du8][1] == 0x7d);
            if s[q] == 0x22 || s[q] == 0x7d { assert(seq![0x22u8, 0x7du8].contains(s[q])); }
        }
//@loop 1
            invariant self.pinv(), self.same_doc(old(self)),
                s == self.read.data(), i0 == old(self).read.idx(), tk == target_key.spec_bytes(), 0 <= i0,
                i0 < self.read.idx(),
                members_end(s, self.read.idx() as int).is_some(),
                object_lookup(s, i0, tk) == find_member(s, self.read.idx() as int, tk),
            decreases s.len() - self.read.idx(),
//@before /let key = self.parse_string_raw\(temp_buf\)\?;/
            let ghost ki = self.read.idx() as int;
//@after /let key = self.parse_string_raw\(temp_buf\)\?;/
            let ghost k = self.read.idx() as int;
            proof { lemma_str_end_bounds(s, ki); lemma_ws_end_bounds(s, k); }
//@after /self.parse_object_clo\(\)\?;/
            let ghost vi = self.read.idx() as int;
            let ghost e = value_end(s, vi).unwrap();
            let ghost vp = ws_end(s, vi);
            proof {
                lemma_value_end_bounds(s, vi); lemma_ws_end_bounds(s, vi); lemma_ws_end_bounds(s, e);
                lemma_ws_end_idem(s, vi, vp); lemma_value_end_ws(s, vi, vp);
                if s[vp] != 0x22 && s[vp] != 0x7b && s[vp] != 0x5b { lemma_scalar_chars(s, vp); }
            }
//@before /match self.get_next_token\(\[b'"', b'\}'\], 1\) \{/ #2
            let ghost ci = self.read.idx() as int;
            proof {
                // the reader is inside or just after the value: up to its end only scalar characters, then whitespace,
                // then '}' or ',' whitespace '"'
                let q = ws_end(s, e);
                let toks = seq![0x22u8, 0x7du8];
                assert([0x22u8, 0x7du8]@ =~= toks);
                assert(toks[0] == 0x22 && toks[1] == 0x7d);
                assert(vp < ci <= e);
                if s[q] == 0x2c {
                    lemma_ws_end_bounds(s, q + 1);
                    let r = ws_end(s, q + 1);
                    assert forall|j: int| ci <= j < r implies !toks.contains(#[trigger] s[j]) by {
                        if j < e { assert(is_lit_or_num_char(s[j])); } else if j < q { assert(is_ws(s[j])); } else if j == q { } else { assert(is_ws(s[j])); }
                    }
                    assert(toks.contains(s[r]));
                } else {
                    assert forall|j: int| ci <= j < q implies !toks.contains(#[trigger] s[j]) by {
                        if j < e { assert(is_lit_or_num_char(s[j])); } else { assert(is_ws(s[j])); }
                    }
                    assert(toks.contains(s[q]));
                }
            }
//@end

//@extract file=src/parser.rs impl="Parser<R>" fn=get_from_array
//@attr
    #[verifier::loop_isolation(false)]
//@subst /&"a JSON array"/ => "a JSON array"
//@sig
        requires old(self).pinv(),
            value_end(old(self).read.data(), old(self).read.idx() as int).is_some(),
        ensures final(self).pinv(), final(self).same_doc(old(self)),
            ({
                let s = old(self).read.data();
                let i = old(self).read.idx() as int;
                let want = array_lookup(s, i, index as nat);
                // same element as the checked walker (the unchecked one stops before the element's leading whitespace)
                &&& (want.is_some() ==> res.is_ok() && ws_end(s, final(self).read.idx() as int) == want.unwrap())
                // an index past the end is refused; `[]` with index 0 is left to the value skipper that follows
                &&& (want.is_none() ==> res.is_err() || (index == 0 && ws_end(s, final(self).read.idx() as int) < s.len() && s[ws_end(s, final(self).read.idx() as int)] == 0x5d))
            }),
            // every error is made by Parser::error: positioned inside the input (C20)
            res.is_err() ==> err_ok(res->Err_0, old(self).read.data()),
//@before /let mut count = index;/
        let ghost s = self.read.data();
        let ghost i0 = self.read.idx() as int;
        proof { lemma_ws_end_bounds(s, i0); lemma_value_end_bounds(s, i0); }
//@loop 1
            invariant self.pinv(), self.same_doc(old(self)),
                i0 < self.read.idx() <= s.len(), count <= index,
                // the reader stands where an element (or, right after '[', the closing bracket) is expected
                ({
                    let p = ws_end(s, self.read.idx() as int);
                    &&& p < s.len()
                    &&& (s[p] == 0x5d ==> count == index && array_lookup(s, i0, index as nat).is_none())
                    &&& (s[p] != 0x5d ==> elems_end(s, self.read.idx() as int).is_some()
                            && array_lookup(s, i0, index as nat) == nth_elem(s, p, count as nat))
                }),
            decreases count,
//@before /match self.skip_space\(\) \{/ #2
            let ghost vi = self.read.idx() as int;
            let ghost vp = ws_end(s, vi);
            proof {
                lemma_ws_end_bounds(s, vi);
                if s[vp] != 0x5d {
                    lemma_value_end_bounds(s, vi); lemma_ws_end_idem(s, vi, vp); lemma_value_end_ws(s, vi, vp);
                    lemma_ws_end_bounds(s, value_end(s, vi).unwrap());
                    if s[vp] != 0x22 && s[vp] != 0x7b && s[vp] != 0x5b { lemma_scalar_chars(s, vp); }
                }
            }
//@before /match self.get_next_token\(\[b'\]', b','\], 1\) \{/
            let ghost ci = self.read.idx() as int;
            proof {
                let e = value_end(s, vi).unwrap();
                let q = ws_end(s, e);
                let toks = seq![0x5du8, 0x2cu8];
                assert([0x5du8, 0x2cu8]@ =~= toks);
                assert(toks[0] == 0x5d && toks[1] == 0x2c);
                assert(vp < ci <= e);
                assert forall|j: int| ci <= j < q implies !toks.contains(#[trigger] s[j]) by {
                    if j < e { assert(is_lit_or_num_char(s[j])); } else { assert(is_ws(s[j])); }
                }
                assert(toks.contains(s[q]));
                if s[q] == 0x2c {
                    lemma_ws_end_bounds(s, q + 1);
                    let p2 = ws_end(s, q + 1);
                    lemma_elems_end_ws(s, q + 1, p2);
                }
            }
//@end
}
