// fragment (inside `impl Parser<R>`): leaves shared by the copy-out and the in-place decoder
    // Parser::parse_number: index arithmetic around sonic_number::parse_number (verified in unit `number`:
    // consumes exactly number_end_l, classification/value exact for integers); assumed here.
    #[verifier::external_body]
    pub fn parse_number(&mut self, first: u8) -> (res: Result<ParserNumber>)
        requires old(self).pinv(), old(self).read.idx() >= 1,
            first == old(self).read.data()[old(self).read.idx() - 1], first == 0x2d || is_digit(first),
            // proved for the real wrapper in unit `typed_num`: the reader steps back one byte, the whitespace cache must not start after it
            old(self).nospace_start == -128 || old(self).nospace_start <= old(self).read.idx() - 1,
        ensures final(self).pinv(), final(self).same_doc(old(self)), final(self).same_cache(old(self)),
            res.is_ok() ==> number_end_l(old(self).read.data(), old(self).read.idx() - 1) == Some(final(self).read.idx() as int)
                && ev_of(res.unwrap()) == num_event(old(self).read.data(), old(self).read.idx() - 1),
            number_end_l(old(self).read.data(), old(self).read.idx() - 1).is_none() ==> res.is_err(),
            final(self).read.idx() >= old(self).read.idx(),
            res.is_err() ==> err_ok(res->Err_0, old(self).read.data()),
    { unimplemented!() }

//@extract file=src/parser.rs impl="Parser<R>" fn=parse_literal_visit
//@subst /literal\.len\(\)/ => literal.as_bytes().len()
//@subst /chunk != literal\.as_bytes\(\)/ => !slice_eq(chunk, literal.as_bytes())
//@sig
        requires old(self).pinv(), old(self).read.idx() >= 1, first == old(self).read.data()[old(self).read.idx() - 1],
        ensures final(self).pinv(), final(self).same_doc(old(self)),
            ({
                let s = old(self).read.data();
                let i = old(self).read.idx() as int;
                let want = if first == 0x74 { lit_end(s, i, rue()) } else if first == 0x66 { lit_end(s, i, alse()) }
                           else if first == 0x6e { lit_end(s, i, ull()) } else { None };
                &&& (res.is_ok() ==> want == Some(final(self).read.idx() as int)
                        && final(vis).trace() == old(vis).trace().push(if first == 0x74 { Ev::Bool(true) } else if first == 0x66 { Ev::Bool(false) } else { Ev::Null }))
                &&& (want.is_none() ==> res.is_err())
            }),
            final(self).read.idx() >= old(self).read.idx(),
            // every error is made by Parser::error: positioned inside the input (C20)
            res.is_err() ==> err_ok(res->Err_0, old(self).read.data()),
//@before /let literal = match first \{/
        proof { axiom_lits(); }
//@end

