// fragment: skip_one_unchecked (the dispatcher of the non-validating skippers) == skip_one on well-formed input.
// The unsafe API's own precondition is that the document is well formed: the value at the reader is well formed and —
// what the number branch relies on — after it come only whitespace and then `,` `]` `}` or the end of input.
impl<'de, R: Reader<'de>> Parser<R> {
    // proved in unit `container` (skip_container_post) + lemma_skip_container_grammar: restated in grammar terms
    #[verifier::external_body]
    pub fn skip_container(&mut self, left: u8, right: u8) -> (res: Result<()>)
        requires old(self).pinv(), (left == 0x7b && right == 0x7d) || (left == 0x5b && right == 0x5d),
        ensures final(self).pinv(), final(self).same_doc(old(self)), final(self).read.idx() >= old(self).read.idx(),
            skip_container_post(old(self).read.data(), old(self).read.idx() as int, final(self).read.idx() as int, res.is_ok(), left, right),
            res.is_err() ==> err_ok(res->Err_0, old(self).read.data()),
    { unimplemented!() }

//@extract file=src/parser.rs impl="Parser<R>" fn=skip_one_unchecked
//@sig
        requires old(self).pinv(),
            value_end(old(self).read.data(), old(self).read.idx() as int).is_some(),
            follow_ok(old(self).read.data(), value_end(old(self).read.data(), old(self).read.idx() as int).unwrap()),
        ensures final(self).pinv(), final(self).same_doc(old(self)),
            // exactly what the validating skip_one returns
            res.is_ok() && ({
                let s = old(self).read.data();
                let p = ws_end(s, old(self).read.idx() as int);
                let e = value_end(s, old(self).read.idx() as int).unwrap();
                &&& final(self).read.idx() == e
                &&& res.unwrap().0@ == s.subrange(p, e)
                &&& (is_esc_status(res.unwrap().1) ==> s[p] == 0x22 && has_bs(s, p + 1, e))
                &&& (s[p] == 0x22 ==> (is_esc_status(res.unwrap().1) <==> has_bs(s, p + 1, e)))
            }),
            // every error is made by Parser::error: positioned inside the input (C20)
            res.is_err() ==> err_ok(res->Err_0, old(self).read.data()),
//@before /let ch = self\.skip_space\(\);/
        let ghost s = self.read.data();
        let ghost i0 = self.read.idx() as int;
        let ghost p0 = ws_end(s, i0);
        proof {
            lemma_ws_end_bounds(s, i0); axiom_lits(); lemma_value_end_bounds(s, i0);
            // the container branches cannot fail: the scalar scan does close (at the grammar's closing bracket)
            if s[p0] == 0x7b { theorem_container_scan(s, p0 + 1, 0x7b, 0x7d); }
            if s[p0] == 0x5b { theorem_container_scan(s, p0 + 1, 0x5b, 0x5d); }
        }
//@before /let slice = self\.read\.slice_unchecked/
        proof {
            // the container branch: the scalar scan's closing bracket is the grammar's
            if s[p0] == 0x7b || s[p0] == 0x5b {
                lemma_skip_container_grammar(s, p0 + 1, self.read.idx() as int, true, if s[p0] == 0x7b { 0x7bu8 } else { 0x5bu8 }, if s[p0] == 0x7b { 0x7du8 } else { 0x5du8 });
            }
        }
//@end
}
