// fragment: the real Parser struct + its representation invariant (shared by the parser units)
//@include specs/errcode_simple.rs
// the error type as the parser units see it: its code, and whether it carries a position (line != 0). Positions are
// only ever made by Error::syntax, which unit `errors` proves correct (offset `off` inside the text it is given, line /
// column of that offset); an error made elsewhere (serde's `custom`, derived code) has none until fix_position gives it one.
#[derive(Debug)]
pub struct Error { pub code: ErrorCode, pub has_pos: bool, pub off: usize }
pub open spec fn err_ok(e: Error, s: Seq<u8>) -> bool { e.has_pos && e.off <= s.len() }

// `as_str` is `from_utf8_unchecked` (unsafe, outside Verus): assumed to return a view of the same bytes.
pub uninterp spec fn str_bytes(s: &str) -> Seq<u8>;
#[verifier::external_body]
pub fn as_str(data: &[u8]) -> (r: &str)
    ensures str_bytes(r) == data@,
{ unimplemented!() }

//@extract file=src/config.rs struct=DeserializeCfg
//@subst /pub\(crate\) struct/ => pub struct
//@end
//@extract file=src/parser.rs struct=Parser
//@subst /(?m)^    (error_index|nospace_bits|nospace_start):/ => pub \1: #all
//@subst /pub\(crate\) cfg:/ => pub cfg:
//@end
//@extract file=src/parser.rs enum=ParseStatus
//@extract file=src/parser.rs macro=perr

// is_whitespace: closure + checked_shl are outside Verus; its contract is proved by Kani (is_whitespace_all, all 256 bytes)
#[verifier::external_body]
pub fn is_whitespace(ch: u8) -> (r: bool)
    ensures r == is_ws(ch),
{ unimplemented!() }

// get_nonspace_bits: lane contract proved by Kani for the fallback AND the x86 (pshufb) implementation
#[verifier::external_body]
pub unsafe fn get_nonspace_bits(data: &[u8; 64]) -> (r: u64)
    ensures forall|i: int| 0 <= i < 64 ==> #[trigger] bit64(r, i) == !is_ws(data@[i]),
{ unimplemented!() }

// substitution target for `unsafe { &*(chunk.as_ptr() as *const [_; 64]) }`: the cast is sound iff the
// slice has at least 64 bytes, which is this function's precondition (an obligation at the call site)
#[verifier::external_body]
pub fn as_array64(s: &[u8]) -> (r: &[u8; 64])
    requires s@.len() >= 64,
    ensures r@ == s@.subrange(0, 64),
{ unimplemented!() }

impl<'de, R: Reader<'de>> Parser<R> {
    /// representation invariant of the parser: reader well formed and inside the input, and the
    /// whitespace cache either empty (-128) or describing a 64-byte block that starts at/before idx
    pub open spec fn pinv(&self) -> bool {
        &&& self.read.wf()
        &&& self.read.idx() <= self.read.data().len()
        &&& self.read.data().len() <= 0x3fff_ffff_ffff_ffff  // T6: far below isize::MAX
        &&& (self.nospace_start == -128 || (
                0 <= self.nospace_start <= self.read.idx()
                && self.nospace_start + 64 <= self.read.data().len()
                && forall|i: int| 0 <= i < 64 ==> #[trigger] bit64(self.nospace_bits, i) == !is_ws(self.read.data()[self.nospace_start + i])))
    }
    /// nothing but the reader position and the whitespace cache may change
    pub open spec fn same_doc(&self, o: &Self) -> bool {
        self.read.data() == o.read.data() && self.error_index == o.error_index && self.cfg == o.cfg
    }
    /// no invalid UTF-8 lies in the consumed part of the input (deferred validation: the reader knows the offset of the
    /// first invalid byte found by the up-front validation, T4)
    pub open spec fn utf8_clean(&self) -> bool { self.read.next_invalid() >= self.read.idx() }
    /// the cache is untouched
    pub open spec fn same_cache(&self, o: &Self) -> bool {
        self.nospace_bits == o.nospace_bits && self.nospace_start == o.nospace_start
    }

    // Parser::error is verified in unit `errors` (it builds the error with Error::syntax: positioned, and correctly)
    #[verifier::external_body]
    pub fn error(&self, reason: ErrorCode) -> (e: Error)
        ensures e.has_pos, e.off <= self.read.data().len(),
    { Error { code: reason, has_pos: true, off: 0 } }
}
