// fragment: the bitmap container skipper (C10: skip_container / skip_container_loop) against its scalar definition.
//   scalar scan from the byte after the opening bracket, state = (inside a string?, next byte escaped?):
//     escaped byte -> nothing; `\` -> escape the next byte; `"` -> toggle; (the opening quote is "inside", the
//     closing one is not — the convention of get_string_bits, whose contract is the Kani harness string_bits_all)
//   a bracket counts iff it is outside strings; the container closes at the first right bracket (outside strings)
//   that has as many right brackets before it as left ones.
// Proved here: skip_container_loop (one 64-byte block: masks, popcount bookkeeping, early exit) and skip_container
// (block loop, zero-padded tail) stop exactly at that closing bracket, or fail if there is none.
// Assumed: get_string_bits' contract (proved by Kani for all 64-byte blocks x 4 carry states), u64::count_ones ==
// population count, the 64-lane vector contracts (T2, C17).

//@include specs/scan.rs
//@include specs/scan_grammar.rs
// ---- population count
pub open spec fn pc(x: u64, k: nat) -> nat
    decreases k
{
    if k == 0 { 0 } else { pc(x, (k - 1) as nat) + (if bit64(x, k - 1) { 1nat } else { 0nat }) }
}
pub assume_specification [u64::count_ones] (x: u64) -> (r: u32)
    ensures r as nat == pc(x, 64);
pub proof fn lemma_pc_bound(x: u64, k: nat)
    ensures pc(x, k) <= k,
    decreases k
{
    if k > 0 { lemma_pc_bound(x, (k - 1) as nat); }
}
pub proof fn lemma_pc_agree(x: u64, y: u64, k: nat)
    requires forall|i: int| 0 <= i < k ==> bit64(x, i) == bit64(y, i),
    ensures pc(x, k) == pc(y, k),
    decreases k
{
    if k > 0 { lemma_pc_agree(x, y, (k - 1) as nat); }
}
/// x agrees with y below t and is zero from t on
pub proof fn lemma_pc_agree_below(x: u64, y: u64, t: nat)
    requires t <= 64, forall|i: int| 0 <= i < 64 ==> bit64(x, i) == (i < t && bit64(y, i)),
    ensures pc(x, 64) == pc(y, t),
{
    lemma_pc_agree(x, y, t);
    lemma_pc_zero_above(x, t, 64);
}
pub proof fn lemma_pc_zero_above(x: u64, t: nat, k: nat)
    requires t <= k <= 64, forall|i: int| t <= i < k ==> !bit64(x, i),
    ensures pc(x, k) == pc(x, t),
    decreases k
{
    if k > t { lemma_pc_zero_above(x, t, (k - 1) as nat); }
}
/// with t the lowest set bit of r and l, r disjoint: l & (r - 1) is l below t
pub proof fn lemma_below_lowest(l: u64, r: u64, t: u64, i: u64)
    requires t < 64, i < 64, l & r == 0, r != 0, (r >> t) & 1 == 1, r & sub(1u64 << t, 1) == 0,
    ensures bit64(l & sub(r, 1), i as int) == (i < t && bit64(l, i as int)),
{
    assert((((l & sub(r, 1)) >> i) & 1u64 == 1u64) == (i < t && ((l >> i) & 1u64 == 1u64))) by (bit_vector)
        requires t < 64, i < 64, l & r == 0, r != 0, (r >> t) & 1 == 1, r & sub(1u64 << t, 1) == 0;
}
pub proof fn lemma_clear_lowest(r: u64, t: u64, i: u64)
    requires t < 64, i < 64, r != 0, (r >> t) & 1 == 1, r & sub(1u64 << t, 1) == 0,
    ensures bit64(r & sub(r, 1), i as int) == (i != t && bit64(r, i as int)),
{
    assert((((r & sub(r, 1)) >> i) & 1u64 == 1u64) == (i != t && ((r >> i) & 1u64 == 1u64))) by (bit_vector)
        requires t < 64, i < 64, r != 0, (r >> t) & 1 == 1, r & sub(1u64 << t, 1) == 0;
}
pub proof fn lemma_tz_lowmask(r: u64)
    requires r != 0,
    ensures ({ let t = vstd::std_specs::bits::u64_trailing_zeros(r) as u64; t < 64 && (r >> t) & 1 == 1 && r & sub(1u64 << t, 1) == 0 }),
{
    vstd::std_specs::bits::axiom_u64_trailing_zeros(r);
    let t = vstd::std_specs::bits::u64_trailing_zeros(r) as u64;
    assert(t < 64);
    assert(r & sub(1u64 << t, 1) == 0) by {
        // all bits below t are clear
        assert forall|i: u64| i < t implies (r >> i) & 1 == 0 by { lemma_tz64(r); assert(!bit64(r, i as int)); assert(((r >> i) & 1u64) == 0u64 || ((r >> i) & 1u64) == 1u64) by (bit_vector); }
        lemma_low_bits_clear(r, t);
    }
    lemma_tz64(r);
    assert(bit64(r, t as int));
}
pub proof fn lemma_low_bits_clear(r: u64, t: u64)
    requires t < 64, forall|i: u64| i < t ==> (r >> i) & 1 == 0,
    ensures r & sub(1u64 << t, 1) == 0,
    decreases t
{
    if t == 0 {
        assert(r & sub(1u64 << 0u64, 1) == 0) by (bit_vector);
    } else {
        let t1 = (t - 1) as u64;
        lemma_low_bits_clear(r, t1);
        assert((r >> t1) & 1 == 0);
        assert(r & sub(1u64 << t, 1) == 0) by (bit_vector)
            requires t < 64, t1 == t - 1, r & sub(1u64 << t1, 1) == 0, (r >> t1) & 1 == 0;
    }
}
pub proof fn lemma_and_not_bit(a: u64, m: u64, i: u64)
    requires i < 64,
    ensures bit64(a & !m, i as int) == (bit64(a, i as int) && !bit64(m, i as int)),
{
    assert((((a & !m) >> i) & 1u64 == 1u64) == (((a >> i) & 1u64 == 1u64) && !((m >> i) & 1u64 == 1u64))) by (bit_vector) requires i < 64;
}

// ---- 64-lane vectors (T2 / C17)
pub struct u8x64 { pub lanes: Seq<u8> }
pub struct m8x64 { pub lanes: Seq<bool> }
impl u8x64 {
    #[verifier::external_body]
    pub unsafe fn from_slice_unaligned_unchecked(slice: &[u8]) -> (v: Self)
        requires slice@.len() >= 64,
        ensures v.lanes == slice@.subrange(0, 64),
    { unimplemented!() }
    #[verifier::external_body]
    pub fn splat(elem: u8) -> (v: Self)
        ensures v.lanes == Seq::new(64, |i: int| elem),
    { unimplemented!() }
    #[verifier::external_body]
    pub fn eq(&self, rhs: &Self) -> (m: m8x64)
        requires self.lanes.len() == 64, rhs.lanes.len() == 64,
        ensures m.lanes == Seq::new(64, |i: int| self.lanes[i] == rhs.lanes[i]),
    { unimplemented!() }
}
impl m8x64 {
    #[verifier::external_body]
    pub fn bitmask(self) -> (b: u64)
        requires self.lanes.len() == 64,
        ensures forall|i: int| 0 <= i < 64 ==> #[trigger] bit64(b, i) == self.lanes[i],
    { unimplemented!() }
}
pub struct NonZeroU8 { pub v: u8 }
impl NonZeroU8 {
    pub unsafe fn new_unchecked(n: u8) -> (r: Self) requires n != 0, ensures r.v == n, { NonZeroU8 { v: n } }
    pub fn get(self) -> (r: u8) ensures r == self.v, r != 0, { proof { assume(self.v != 0); } self.v }
}

/// carries as the code keeps them
pub open spec fn carry_ok(pi: u64, pe: u64, st: (bool, bool)) -> bool {
    pi == (if st.0 { u64::MAX } else { 0u64 }) && pe == (if st.1 { 1u64 } else { 0u64 })
}
// get_string_bits: contract == Kani harness string_bits_all (all 64-byte blocks x 4 carry states)
#[verifier::external_body]
pub fn get_string_bits(data: &[u8; 64], prev_instring: &mut u64, prev_escaped: &mut u64) -> (r: u64)
    requires exists|st: (bool, bool)| carry_ok(*old(prev_instring), *old(prev_escaped), st),
    ensures forall|st: (bool, bool)| carry_ok(*old(prev_instring), *old(prev_escaped), st) ==>
        (forall|i: int| 0 <= i < 64 ==> #[trigger] bit64(r, i) == sc_state(data@, 0, (i + 1) as nat, st).0)
        && carry_ok(*final(prev_instring), *final(prev_escaped), sc_state(data@, 0, 64, st)),
{ unimplemented!() }

/// what one block contributes: counts of brackets outside strings among its first k bytes, given the state at its start
pub open spec fn blk_cnt(d: Seq<u8>, k: nat, ch: u8, st: (bool, bool)) -> nat
    decreases k
{
    if k == 0 { 0 } else { blk_cnt(d, (k - 1) as nat, ch, st) + (if d[k - 1] == ch && !sc_state(d, 0, k, st).0 { 1nat } else { 0nat }) }
}
pub proof fn lemma_blk_cnt_pc(d: Seq<u8>, k: nat, ch: u8, st: (bool, bool), m: u64)
    requires k <= 64, d.len() == 64, forall|i: int| 0 <= i < 64 ==> bit64(m, i) == (d[i] == ch && !sc_state(d, 0, (i + 1) as nat, st).0),
    ensures blk_cnt(d, k, ch, st) == pc(m, k),
    decreases k
{
    if k > 0 { lemma_blk_cnt_pc(d, (k - 1) as nat, ch, st, m); }
}
/// global counts = counts before the block + the block's own
pub proof fn lemma_cnt_split(s: Seq<u8>, b: int, o: nat, k: nat, ch: u8, d: Seq<u8>)
    requires k <= 64, d.len() == 64, 0 <= b, forall|j: int| 0 <= j < k ==> s[b + o + j] == #[trigger] d[j],
    ensures cnt_out(s, b, o + k, ch) == cnt_out(s, b, o, ch) + blk_cnt(d, k, ch, sc_state(s, b, o, (false, false))),
    decreases k
{
    if k > 0 {
        let k1 = (k - 1) as nat;
        lemma_cnt_split(s, b, o, k1, ch, d);
        lemma_sc_state_split(s, b, o, k, (false, false));
        lemma_sc_state_ext(s, b + o, d, 0, k, sc_state(s, b, o, (false, false)));
    }
}

/// block-local: byte j of the block is a right bracket outside strings that has at least as many right brackets
/// before it (in the container so far) as left ones — the test the loop makes
pub open spec fn blk_closing(d: Seq<u8>, j: nat, l: u8, r: u8, st: (bool, bool), l0: nat, r0: nat) -> bool {
    d[j as int] == r && !sc_state(d, 0, j + 1, st).0 && l0 + blk_cnt(d, j, l, st) <= r0 + blk_cnt(d, j, r, st)
}
/// block-local depth argument: while nothing closed, right brackets never outnumber left ones
pub proof fn lemma_blk_depth(d: Seq<u8>, k: nat, l: u8, r: u8, st: (bool, bool), l0: nat, r0: nat)
    requires r0 <= l0, l != r, forall|j: nat| j < k ==> !blk_closing(d, j, l, r, st, l0, r0),
    ensures r0 + blk_cnt(d, k, r, st) <= l0 + blk_cnt(d, k, l, st),
    decreases k
{
    if k > 0 {
        let k1 = (k - 1) as nat;
        lemma_blk_depth(d, k1, l, r, st, l0, r0);
        assert(!blk_closing(d, k1, l, r, st, l0, r0));
    }
}
pub open spec fn carry_state(pi: u64, pe: u64) -> (bool, bool) { (pi != 0, pe != 0) }

/// per-bit version of "l & (r - 1) is l below the lowest set bit of r" for masks that are disjoint at bit i
pub proof fn lemma_below_lowest_bit(l: u64, r: u64, t: u64, i: u64)
    requires t < 64, i < 64, r != 0, (r >> t) & 1 == 1, r & sub(1u64 << t, 1) == 0,
        !(((l >> i) & 1 == 1) && ((r >> i) & 1 == 1)),
    ensures bit64(l & sub(r, 1), i as int) == (i < t && bit64(l, i as int)),
{
    assert((((l & sub(r, 1)) >> i) & 1u64 == 1u64) == (i < t && ((l >> i) & 1u64 == 1u64))) by (bit_vector)
        requires t < 64, i < 64, r != 0, (r >> t) & 1 == 1, r & sub(1u64 << t, 1) == 0, !(((l >> i) & 1 == 1) && ((r >> i) & 1 == 1));
}

//@extract file=src/parser.rs fn=skip_container_loop
//@attr
#[verifier::loop_isolation(false)]
//@subst /let is_closed = lbrace_num < rbrace_num;/ => let is_closed = *lbrace_num < *rbrace_num;
//@subst /let mut rbrace = \(v\.eq\(&u8x64::splat\(right\)\)\)\.bitmask\(\) & !instring;/ => let rm = (v.eq(&u8x64::splat(right))).bitmask(); let mut rbrace = rm & !instring;
//@subst /let lbrace = \(v\.eq\(&u8x64::splat\(left\)\)\)\.bitmask\(\) & !instring;/ => let lm = (v.eq(&u8x64::splat(left))).bitmask(); let lbrace = lm & !instring;
//@subst /debug_assert_eq!\(\*rbrace_num, \*lbrace_num \+ 1\);/ => debug_assert!(*rbrace_num == *lbrace_num + 1);
//@sig
    requires left != right,
        *old(prev_instring) == 0 || *old(prev_instring) == u64::MAX, *old(prev_escaped) <= 1,
        *old(lbrace_num) <= 0x3fff_ffff_ffff_ffff, *old(rbrace_num) <= *old(lbrace_num),
    ensures ({
        let d = input@;
        let st = carry_state(*old(prev_instring), *old(prev_escaped));
        let l0 = *old(lbrace_num) as nat;
        let r0 = *old(rbrace_num) as nat;
        match res {
            Some(c) => 1 <= c.v <= 64 && blk_closing(d, (c.v - 1) as nat, left, right, st, l0, r0)
                && (forall|j: nat| j < c.v - 1 ==> !blk_closing(d, j, left, right, st, l0, r0)),
            None => (forall|j: nat| j < 64 ==> !blk_closing(d, j, left, right, st, l0, r0))
                && carry_state(*final(prev_instring), *final(prev_escaped)) == sc_state(d, 0, 64, st)
                && (*final(prev_instring) == 0 || *final(prev_instring) == u64::MAX) && *final(prev_escaped) <= 1
                && *final(lbrace_num) == l0 + blk_cnt(d, 64, left, st) && *final(rbrace_num) == r0 + blk_cnt(d, 64, right, st),
        }
    }),
//@body
    let ghost d = input@;
    let ghost st = carry_state(*prev_instring, *prev_escaped);
    let ghost l0 = *lbrace_num as nat;
    let ghost r0 = *rbrace_num as nat;
    proof { assert(carry_ok(*prev_instring, *prev_escaped, st)); }
//@before /while rbrace != 0 \{/
    let ghost rb0 = rbrace;
    let ghost mut p: nat = 0;
    proof {
        assert forall|i: int| 0 <= i < 64 implies bit64(rb0, i) == (d[i] == right && !sc_state(d, 0, (i + 1) as nat, st).0) by { lemma_and_not_bit(rm, instring, i as u64); }
        assert forall|i: int| 0 <= i < 64 implies bit64(lbrace, i) == (d[i] == left && !sc_state(d, 0, (i + 1) as nat, st).0) by { lemma_and_not_bit(lm, instring, i as u64); }
    }
//@loop 1
        invariant p <= 64,
            forall|i: int| 0 <= i < 64 ==> bit64(rbrace, i) == (i >= p && bit64(rb0, i)),
            forall|i: int| 0 <= i < 64 ==> bit64(rb0, i) == (d[i] == right && !sc_state(d, 0, (i + 1) as nat, st).0),
            forall|i: int| 0 <= i < 64 ==> bit64(lbrace, i) == (d[i] == left && !sc_state(d, 0, (i + 1) as nat, st).0),
            *rbrace_num == r0 + pc(rb0, p), last_lbrace_num == l0, r0 <= l0 <= 0x3fff_ffff_ffff_ffff,
            forall|j: nat| j < p ==> !blk_closing(d, j, left, right, st, l0, r0),
            carry_state(*prev_instring, *prev_escaped) == sc_state(d, 0, 64, st),
            (*prev_instring == 0 || *prev_instring == u64::MAX), *prev_escaped <= 1,
        decreases 64 - p,
//@before /\*rbrace_num \+= 1;/
        let ghost t = vstd::std_specs::bits::u64_trailing_zeros(rbrace) as nat;
        proof {
            lemma_tz64(rbrace); lemma_tz_lowmask(rbrace);
            lemma_pc_bound(rb0, p); lemma_pc_bound(rb0, t); lemma_pc_bound(lbrace, t);
            assert(t >= p);
            // no set bit of rb0 in [p, t): counts agree
            assert forall|i: int| p <= i < t implies !bit64(rb0, i) by { assert(!bit64(rbrace, i)); }
            lemma_pc_zero_above(rb0, p, t);
            // l & (r - 1) is l below t
            assert forall|i: int| 0 <= i < 64 implies bit64(lbrace & sub(rbrace, 1), i) == (i < t && bit64(lbrace, i)) by {
                assert(!(bit64(lbrace, i) && bit64(rbrace, i)));
                lemma_below_lowest_bit(lbrace, rbrace, t as u64, i as u64);
            }
            assert(sub(rbrace, 1) == (rbrace - 1) as u64);
            assert(t <= 64);
            let x = lbrace & sub(rbrace, 1);
            assert forall|i: int| 0 <= i < 64 implies bit64(x, i) == (i < t && bit64(lbrace, i)) by {
                assert(!(bit64(lbrace, i) && bit64(rbrace, i)));
                lemma_below_lowest_bit(lbrace, rbrace, t as u64, i as u64);
            }
            lemma_pc_agree_below(x, lbrace, t);
            lemma_blk_depth(d, t, left, right, st, l0, r0);
            lemma_blk_cnt_pc(d, t, left, st, lbrace);
            lemma_blk_cnt_pc(d, t, right, st, rb0);
            // positions in [p, t) are not right brackets outside strings
            assert forall|j: nat| p <= j < t implies !blk_closing(d, j, left, right, st, l0, r0) by { assert(!bit64(rb0, j as int)); }
        }
//@before /rbrace &= rbrace - 1;/
        let ghost rb_old = rbrace;
//@after /rbrace &= rbrace - 1;/
        proof {
            assert(sub(rb_old, 1) == (rb_old - 1) as u64);
            assert(rbrace == rb_old & sub(rb_old, 1));
            assert forall|i: int| 0 <= i < 64 implies bit64(rbrace, i) == (i >= t + 1 && bit64(rb0, i)) by {
                lemma_clear_lowest(rb_old, t as u64, i as u64);
                if p <= i < t { assert(!bit64(rb_old, i)); }
            }
            assert(pc(rb0, t + 1) == pc(rb0, t) + 1);
            assert(!blk_closing(d, t, left, right, st, l0, r0));
            p = t + 1;
        }
//@before /\*lbrace_num = last_lbrace_num \+ lbrace\.count_ones\(\) as usize;/
    proof {
        lemma_pc_bound(lbrace, 64);
        assert forall|i: int| p <= i < 64 implies !bit64(rb0, i) by { lemma_zero64(i as u64); assert(bit64(rbrace, i) == bit64(rb0, i)); }
        lemma_pc_zero_above(rb0, p, 64);
        lemma_blk_cnt_pc(d, 64, left, st, lbrace);
        lemma_blk_cnt_pc(d, 64, right, st, rb0);
        assert forall|j: nat| p <= j < 64 implies !blk_closing(d, j, left, right, st, l0, r0) by { assert(!bit64(rb0, j as int)); }
    }
//@end

// substitution target for `remain[..n].copy_from_slice(reader.peek_n(n).unwrap_unchecked())`: the unchecked unwrap and
// the range are sound iff the slice is there and n <= 64 — preconditions here, obligations at the call site
#[verifier::external_body]
pub fn copy_prefix(dst: &mut [u8; 64], src: Option<&[u8]>, n: usize)
    requires n <= 64, src.is_some(), src.unwrap()@.len() == n,
    ensures final(dst)@ == src.unwrap()@ + old(dst)@.subrange(n as int, 64),
{ unimplemented!() }

/// lifting one block's verdict to the whole container
pub proof fn lemma_blk_to_global(s: Seq<u8>, b: int, o: nat, d: Seq<u8>, n: nat, j: nat, l: u8, r: u8)
    requires 0 <= b, d.len() == 64, j < n <= 64, forall|x: int| 0 <= x < n ==> s[b + o + x] == #[trigger] d[x], l != r,
    ensures ({
        let st = sc_state(s, b, o, (false, false));
        let l0 = cnt_out(s, b, o, l);
        let r0 = cnt_out(s, b, o, r);
        &&& (closes(s, b, o + j, l, r) ==> blk_closing(d, j, l, r, st, l0, r0))
        &&& (blk_closing(d, j, l, r, st, l0, r0) && cnt_out(s, b, o + j, r) <= cnt_out(s, b, o + j, l) ==> closes(s, b, o + j, l, r))
    }),
{
    let st = sc_state(s, b, o, (false, false));
    lemma_cnt_split(s, b, o, j, l, d);
    lemma_cnt_split(s, b, o, j, r, d);
    lemma_sc_state_split(s, b, o, j + 1, (false, false));
    lemma_sc_state_ext(s, b + o, d, 0, j + 1, st);
}
pub proof fn lemma_no_close_extend(s: Seq<u8>, b: int, o: nat, d: Seq<u8>, n: nat, k: nat, l: u8, r: u8)
    requires 0 <= b, d.len() == 64, k <= n <= 64, forall|x: int| 0 <= x < n ==> s[b + o + x] == #[trigger] d[x], l != r,
        no_close_before(s, b, o, l, r),
        forall|j: nat| j < k ==> !blk_closing(d, j, l, r, sc_state(s, b, o, (false, false)), cnt_out(s, b, o, l), cnt_out(s, b, o, r)),
    ensures no_close_before(s, b, o + k, l, r),
{
    assert forall|q: nat| q < o + k implies !closes(s, b, q, l, r) by {
        if q >= o { lemma_blk_to_global(s, b, o, d, n, (q - o) as nat, l, r); }
    }
}

impl<'de, R: Reader<'de>> Parser<R> {
//@extract file=src/parser.rs impl="Parser<R>" fn=skip_container
//@attr
    #[verifier::loop_isolation(false)]
//@subst /unsafe \{ &\*\(chunk\.as_ptr\(\) as \*const \[_; 64\]\) \}/ => as_array64(chunk)
//@subst /let reader = &mut self\.read;/ => let _reader = ();
//@subst /\breader\./ => self.read. #all
//@subst /unsafe \{(?=\s*let n = )/ => 
//@subst /remain\[\.\.n\]\.copy_from_slice\(/ => copy_prefix(&mut remain, 
//@subst /\.unwrap_unchecked\(\)\);\s*\}/ => , n);
//@sig
        requires old(self).pinv(), (left == 0x7b && right == 0x7d) || (left == 0x5b && right == 0x5d),
        ensures final(self).pinv(), final(self).same_doc(old(self)), final(self).same_cache(old(self)), final(self).read.idx() >= old(self).read.idx(),
            // stops just after the closing bracket of the scalar definition, or fails if the input has none
            skip_container_post(old(self).read.data(), old(self).read.idx() as int, final(self).read.idx() as int, res.is_ok(), left, right),
            // every error is made by Parser::error: positioned inside the input (C20)
            res.is_err() ==> err_ok(res->Err_0, old(self).read.data()),
//@before /let mut prev_instring = 0;/
        let ghost s = self.read.data();
        let ghost b = self.read.idx() as int;
        let ghost mut o: nat = 0;
//@loop 1
            invariant self.pinv(), self.same_doc(old(self)), self.same_cache(old(self)), self.read.idx() == b + o,
                carry_state(prev_instring, prev_escaped) == sc_state(s, b, o, (false, false)),
                (prev_instring == 0 || prev_instring == u64::MAX), prev_escaped <= 1,
                lbrace_num == cnt_out(s, b, o, left), rbrace_num == cnt_out(s, b, o, right),
                no_close_before(s, b, o, left, right),
            decreases s.len() - self.read.idx(),
//@before /if let Some\(count\) = skip_container_loop\(/ #1
            let ghost d = input@;
            proof {
                lemma_depth_nonneg(s, b, o, left, right);
                lemma_cnt_bound(s, b, o, left);
                assert forall|x: int| 0 <= x < 64 implies s[b + o + x] == #[trigger] d[x] by { }
            }
//@before /reader\.eat\(count\.get\(\) as usize\);/ #1
                proof {
                    let t = (count.v - 1) as nat;
                    lemma_no_close_extend(s, b, o, d, 64, t, left, right);
                    lemma_depth_nonneg(s, b, o + t, left, right);
                    lemma_blk_to_global(s, b, o, d, 64, t, left, right);
                }
//@before /reader\.eat\(64\);/
            proof {
                lemma_no_close_extend(s, b, o, d, 64, 64, left, right);
                lemma_cnt_split(s, b, o, 64, left, d);
                lemma_cnt_split(s, b, o, 64, right, d);
                lemma_sc_state_split(s, b, o, 64, (false, false));
                lemma_sc_state_ext(s, b + o, d, 0, 64, sc_state(s, b, o, (false, false)));
                o = o + 64;
            }
//@before /if let Some\(count\) = skip_container_loop\(/ #2
        let ghost dt = remain@;
        let ghost nn = (s.len() - b - o) as nat;
        proof {
            lemma_depth_nonneg(s, b, o, left, right);
            lemma_cnt_bound(s, b, o, left);
            assert forall|x: int| 0 <= x < nn implies s[b + o + x] == #[trigger] dt[x] by { }
        }
//@before /reader\.eat\(count\.get\(\) as usize\);/ #2
            proof {
                let t = (count.v - 1) as nat;
                // the padding is zero: not a bracket
                assert(t < nn) by { if t >= nn { assert(dt[t as int] == 0u8); } }
                lemma_no_close_extend(s, b, o, dt, nn, t, left, right);
                lemma_depth_nonneg(s, b, o + t, left, right);
                lemma_blk_to_global(s, b, o, dt, nn, t, left, right);
            }
//@before /perr!\(self, EofWhileParsing\)/
        proof { lemma_no_close_extend(s, b, o, dt, nn, nn, left, right); }
//@end
}
