// fragment: the fully-decoding parser (parse_value2 / parse_array2 / parse_object2 and helpers) against
// (a) the grammar as it consumes it (json_grammar_lenient.rs) and (b) the reference EVENT LIST of the text:
// the pre-order list of visitor calls a reference parse would make (C03: same nesting, array order, members in
// source order with duplicates kept, counts; scalar payloads delegated to C07 / C09 through `num_event` / `decoded`).
//@include units/frag_events.vt.rs
impl<'de, R: Reader<'de>> Parser<R> {
    // The in-place twins (parse_value / parse_array / parse_object / parse_string_inplace / parse_number_inplace) hand
    // out `visit_borrowed_*` slices of the reader's own buffer and unescape in place through `cur_ptr`: they are
    // only sound on the DOM's private padded copy (`PaddedSliceRead`; `Read::cur_ptr` panics). The copy-out parser
    // verified here works on any reader, so it must never reach them: their contract is `requires false`.
    #[verifier::external_body]
    pub fn parse_value<V: JsonVisitor<'de>>(&mut self, visitor: &mut V) -> (res: Result<()>)
        requires false,
    { unimplemented!() }
    #[verifier::external_body]
    pub fn parse_array<V: JsonVisitor<'de>>(&mut self, vis: &mut V) -> (res: Result<()>)
        requires false,
    { unimplemented!() }
    #[verifier::external_body]
    pub fn parse_object<V: JsonVisitor<'de>>(&mut self, vis: &mut V) -> (res: Result<()>)
        requires false,
    { unimplemented!() }
    #[verifier::external_body]
    pub fn parse_string_inplace<V: JsonVisitor<'de>>(&mut self, vis: &mut V) -> (res: Result<()>)
        requires false,
    { unimplemented!() }
    #[verifier::external_body]
    pub fn parse_number_inplace<V: JsonVisitor<'de>>(&mut self, first: u8, vis: &mut V) -> (res: Result<()>)
        requires false,
    { unimplemented!() }

//@include units/frag_decode_leaf.vt.rs
    // parse_str: verified scanning half in unit `strings`; acceptance + decoded text assumed here
    #[verifier::external_body]
    pub fn parse_str<'own>(&mut self, buf: &'own mut Vec<u8>) -> (res: Result<Reference<'de, 'own, str>>)
        requires old(self).pinv(),
        ensures final(self).pinv(), final(self).same_doc(old(self)),
            res.is_ok() ==> str_end(old(self).read.data(), old(self).read.idx() as int) == Some(final(self).read.idx() as int)
                && res.unwrap().rbytes() == decoded(old(self).read.data(), old(self).read.idx() as int, final(self).read.idx() - 1),
            str_end(old(self).read.data(), old(self).read.idx() as int).is_none() ==> res.is_err(),
            final(self).read.idx() >= old(self).read.idx(),
            res.is_err() ==> err_ok(res->Err_0, old(self).read.data()),
    { unimplemented!() }

//@extract file=src/parser.rs impl="Parser<R>" fn=parse_string_owned
//@subst /rs\.as_ref\(\)/ => rs.as_str_ref()
//@sig
        requires old(self).pinv(),
        ensures final(self).pinv(), final(self).same_doc(old(self)),
            res.is_ok() ==> str_end(old(self).read.data(), old(self).read.idx() as int) == Some(final(self).read.idx() as int)
                && final(vis).trace() == old(vis).trace().push(Ev::Str(decoded(old(self).read.data(), old(self).read.idx() as int, final(self).read.idx() - 1))),
            str_end(old(self).read.data(), old(self).read.idx() as int).is_none() ==> res.is_err(),
            final(self).read.idx() >= old(self).read.idx(),
            // every error is made by Parser::error: positioned inside the input (C20)
            res.is_err() ==> err_ok(res->Err_0, old(self).read.data()),
//@end

//@extract file=src/parser.rs impl="Parser<R>" fn=parse_number_visit
//@sig
        requires old(self).pinv(), old(self).read.idx() >= 1,
            first == old(self).read.data()[old(self).read.idx() - 1], first == 0x2d || is_digit(first),
            old(self).nospace_start == -128 || old(self).nospace_start <= old(self).read.idx() - 1,
        ensures final(self).pinv(), final(self).same_doc(old(self)),
            ({
                let s = old(self).read.data();
                let p = old(self).read.idx() - 1;
                let raw = old(self).cfg.use_rawnumber;
                &&& (res.is_ok() ==> number_end_l(s, p) == Some(final(self).read.idx() as int)
                        && final(vis).trace() == old(vis).trace() + (if raw { seq![Ev::RawNum(s.subrange(p, number_end(s, p).unwrap()))] } else { seq![num_event(s, p)] })
                        && (raw ==> number_end(s, p).is_some()))
                &&& (number_end_l(s, p).is_none() ==> res.is_err())
            }),
            final(self).read.idx() >= old(self).read.idx(),
            // every error is made by Parser::error: positioned inside the input (C20)
            res.is_err() ==> err_ok(res->Err_0, old(self).read.data()),
//@before /let start =/
            proof { lemma_lenient_extends_grammar(self.read.data(), if at(self.read.data(), self.read.idx() - 1, 0x2d) { self.read.idx() as int } else { self.read.idx() - 1 }); }
//@end

//@extract file=src/parser.rs impl="Parser<R>" fn=parse_value2
//@sig
        requires old(self).pinv(),
        ensures final(self).pinv(), final(self).same_doc(old(self)),
            // acceptance: exactly the grammar (as consumed), reader just after the value
            res.is_ok() ==> value_end_l(old(self).read.data(), old(self).read.idx() as int) == Some(final(self).read.idx() as int),
            value_end_l(old(self).read.data(), old(self).read.idx() as int).is_none() ==> res.is_err(),
            // the visitor saw exactly the reference event list of the value, in order
            res.is_ok() ==> final(vis).trace() == old(vis).trace() + value_events(old(self).read.data(), old(self).read.idx() as int, old(self).cfg.use_rawnumber),
            final(self).read.idx() >= old(self).read.idx(),
            // every error is made by Parser::error: positioned inside the input (C20)
            res.is_err() ==> err_ok(res->Err_0, old(self).read.data()),
        decreases old(self).read.data().len() - old(self).read.idx(), 0nat
//@before /match self\.skip_space\(\) \{/
        let ghost s = self.read.data();
        let ghost i0 = self.read.idx() as int;
        let ghost t0 = vis.trace();
        proof {
            lemma_ws_end_bounds(s, i0);
            lemma_seq_push(t0, Ev::Null); lemma_seq_push(t0, Ev::Bool(true)); lemma_seq_push(t0, Ev::Bool(false));
            if ws_end(s, i0) < s.len() && s[ws_end(s, i0)] == 0x22 && str_end(s, ws_end(s, i0) + 1).is_some() {
                lemma_seq_push(t0, Ev::Str(decoded(s, ws_end(s, i0) + 1, str_end(s, ws_end(s, i0) + 1).unwrap() - 1)));
            }
            lemma_seq_assoc(t0, seq![Ev::ObjStart], obj_rest_events(s, ws_end(s, i0) + 1, self.cfg.use_rawnumber));
            lemma_seq_assoc(t0, seq![Ev::ArrStart], arr_rest_events(s, ws_end(s, i0) + 1, self.cfg.use_rawnumber));
        }
//@end

//@extract file=src/parser.rs impl="Parser<R>" fn=parse_array2
//@attr
    #[verifier::loop_isolation(false)]
//@sig
        requires old(self).pinv(),
        ensures final(self).pinv(), final(self).same_doc(old(self)),
            res.is_ok() ==> arr_end_l(old(self).read.data(), old(self).read.idx() as int) == Some(final(self).read.idx() as int),
            arr_end_l(old(self).read.data(), old(self).read.idx() as int).is_none() ==> res.is_err(),
            res.is_ok() ==> final(visitor).trace() == old(visitor).trace() + seq![Ev::ArrStart]
                + arr_rest_events(old(self).read.data(), old(self).read.idx() as int, old(self).cfg.use_rawnumber),
            final(self).read.idx() >= old(self).read.idx(),
            // every error is made by Parser::error: positioned inside the input (C20)
            res.is_err() ==> err_ok(res->Err_0, old(self).read.data()),
        decreases old(self).read.data().len() - old(self).read.idx(), 2nat
//@before /check_visit!\(self, visitor\.visit_array_start/
        let ghost s = self.read.data();
        let ghost i0 = self.read.idx() as int;
        let ghost t0 = visitor.trace();
        let ghost raw = self.cfg.use_rawnumber;
        let ghost goal = t0 + seq![Ev::ArrStart] + arr_rest_events(s, i0, raw);
        proof {
            lemma_ws_end_bounds(s, i0);
            lemma_seq_push(t0, Ev::ArrStart);
            lemma_seq_push(t0 + seq![Ev::ArrStart], Ev::ArrEnd(0));
        }
//@before /let mut count/
        proof {
            if first.is_some() {
                let vs0 = self.read.idx() as int - 1;
                lemma_elems_end_l_ws(s, i0, vs0);
                lemma_elems_events_ws(s, i0, vs0, 0, raw);
            }
        }
//@loop 1
            invariant self.pinv(), self.same_doc(old(self)), i0 <= self.read.idx(), raw == self.cfg.use_rawnumber,
                count <= self.read.idx() - i0,
                first.is_some() ==> (self.nospace_start == -128 || self.nospace_start <= self.read.idx() - 1),
                first.is_some() ==> self.read.idx() >= 1 && i0 <= self.read.idx() - 1 && first == Some(s[self.read.idx() - 1]) && !is_ws(s[self.read.idx() - 1])
                    && arr_end_l(s, i0) == elems_end_l(s, self.read.idx() - 1)
                    && goal == visitor.trace() + elems_events(s, self.read.idx() - 1, count as nat, raw),
                first.is_none() ==> arr_end_l(s, i0).is_none(),
            decreases s.len() - self.read.idx(),
//@before /^            match first \{/
            let ghost vs = self.read.idx() as int - 1;
            let ghost th = visitor.trace();
            proof {
                if first.is_some() {
                    lemma_ws_end_stop(s, vs, vs);
                    lemma_seq_push(th, Ev::Null); lemma_seq_push(th, Ev::Bool(true)); lemma_seq_push(th, Ev::Bool(false));
                    if s[vs] == 0x22 && str_end(s, vs + 1).is_some() { lemma_seq_push(th, Ev::Str(decoded(s, vs + 1, str_end(s, vs + 1).unwrap() - 1))); }
                    lemma_seq_assoc(th, seq![Ev::ObjStart], obj_rest_events(s, vs + 1, raw));
                    lemma_seq_assoc(th, seq![Ev::ArrStart], arr_rest_events(s, vs + 1, raw));
                }
            }
//@before /^            count /
            let ghost e = self.read.idx() as int;
            proof {
                assert(value_end_l(s, vs) == Some(e));
                assert(visitor.trace() == th + value_events(s, vs, raw));
                lemma_value_end_l_bounds(s, vs);
                lemma_ws_end_bounds(s, e);
                let q = ws_end(s, e);
                lemma_seq_assoc(th, value_events(s, vs, raw), seq![Ev::ArrEnd((count + 1) as nat)]);
                lemma_seq_push(visitor.trace(), Ev::ArrEnd((count + 1) as nat));
                if q < s.len() && s[q] == 0x2c {
                    lemma_ws_end_bounds(s, q + 1);
                    let v2 = ws_end(s, q + 1);
                    lemma_elems_end_l_ws(s, q + 1, v2);
                    lemma_elems_events_ws(s, q + 1, v2, (count + 1) as nat, raw);
                    lemma_seq_assoc(th, value_events(s, vs, raw), elems_events(s, q + 1, (count + 1) as nat, raw));
                }
            }
//@end

//@extract file=src/parser.rs impl="Parser<R>" fn=parse_object2
//@attr
    #[verifier::loop_isolation(false)]
//@sig
        requires old(self).pinv(),
        ensures final(self).pinv(), final(self).same_doc(old(self)),
            res.is_ok() ==> obj_end_l(old(self).read.data(), old(self).read.idx() as int) == Some(final(self).read.idx() as int),
            obj_end_l(old(self).read.data(), old(self).read.idx() as int).is_none() ==> res.is_err(),
            res.is_ok() ==> final(vis).trace() == old(vis).trace() + seq![Ev::ObjStart]
                + obj_rest_events(old(self).read.data(), old(self).read.idx() as int, old(self).cfg.use_rawnumber),
            final(self).read.idx() >= old(self).read.idx(),
            // every error is made by Parser::error: positioned inside the input (C20)
            res.is_err() ==> err_ok(res->Err_0, old(self).read.data()),
        decreases old(self).read.data().len() - old(self).read.idx(), 2nat
//@before /let mut count/
        let ghost s = self.read.data();
        let ghost i0 = self.read.idx() as int;
        let ghost t0 = vis.trace();
        let ghost raw = self.cfg.use_rawnumber;
        let ghost goal = t0 + seq![Ev::ObjStart] + obj_rest_events(s, i0, raw);
        proof {
            lemma_ws_end_bounds(s, i0);
            lemma_seq_push(t0, Ev::ObjStart);
            lemma_seq_push(t0 + seq![Ev::ObjStart], Ev::ObjEnd(0));
        }
//@loop 1
            invariant self.pinv(), self.same_doc(old(self)), i0 < self.read.idx(), raw == self.cfg.use_rawnumber,
                count <= self.read.idx() - i0,
                obj_end_l(s, i0) == members_end_l(s, self.read.idx() as int),
                goal == vis.trace() + members_events(s, self.read.idx() as int, count as nat, raw),
            decreases s.len() - self.read.idx(),
//@before /self\.parse_string_owned\(vis, strbuf\)\?;/
            let ghost ki = self.read.idx() as int;
            let ghost th = vis.trace();
//@after /self\.parse_string_owned\(vis, strbuf\)\?;/
            let ghost k = self.read.idx() as int;
            proof { lemma_str_end_bounds(s, ki); lemma_ws_end_bounds(s, k); lemma_seq_push(th, Ev::Str(decoded(s, ki, k - 1))); }
//@after /self\.parse_object_clo\(\)\?;/
            let ghost vi = self.read.idx() as int;
//@after /self\.parse_value2\(vis, strbuf\)\?;/
            let ghost e = self.read.idx() as int;
            proof {
                lemma_value_end_l_bounds(s, vi);
                lemma_ws_end_bounds(s, e);
                let q = ws_end(s, e);
                let head = seq![Ev::Str(decoded(s, ki, k - 1))] + value_events(s, vi, raw);
                lemma_seq_assoc(th, seq![Ev::Str(decoded(s, ki, k - 1))], value_events(s, vi, raw));
                assert(vis.trace() == th + head);
                lemma_seq_assoc(th, head, seq![Ev::ObjEnd((count + 1) as nat)]);
                lemma_seq_push(vis.trace(), Ev::ObjEnd((count + 1) as nat));
                if q < s.len() && s[q] == 0x2c {
                    lemma_ws_end_bounds(s, q + 1);
                    let r = ws_end(s, q + 1);
                    if r < s.len() && s[r] == 0x22 {
                        lemma_seq_assoc(th, head, members_events(s, r + 1, (count + 1) as nat, raw));
                    }
                }
            }
//@end
}
