// fragment: the fully-decoding parser (parse_value2 / parse_array2 / parse_object2 and helpers) against
// (a) the grammar as it consumes it (json_grammar_lenient.rs) and (b) the reference EVENT LIST of the text:
// the pre-order list of visitor calls a reference parse would make (C03: same nesting, array order, members in
// source order with duplicates kept, counts; scalar payloads delegated to C07 / C09 through `num_event` / `decoded`).
pub enum Ev {
    Null, Bool(bool), U64(u64), I64(i64), F64, RawNum(Seq<u8>), Str(Seq<u8>),
    ObjStart, ObjEnd(nat), ArrStart, ArrEnd(nat),
}
// the decoded text of the string literal whose body is s[i..e) (specified by the decoder contracts, C09)
pub uninterp spec fn decoded(s: Seq<u8>, i: int, e: int) -> Seq<u8>;
// the event a number literal starting at p denotes when it is not kept raw (classification/value: C07)
pub uninterp spec fn num_event(s: Seq<u8>, p: int) -> Ev;

pub open spec fn value_events(s: Seq<u8>, i: int, raw: bool) -> Seq<Ev>
    decreases s.len() - i, 0nat
{
    let p = ws_end(s, i);
    if !(0 <= i <= p < s.len()) { seq![] }
    else if s[p] == 0x2d || is_digit(s[p]) {
        if raw { match number_end(s, p) { Some(e) => seq![Ev::RawNum(s.subrange(p, e))], None => seq![] } }
        else { seq![num_event(s, p)] }
    }
    else if s[p] == 0x22 { match str_end(s, p + 1) { Some(e) => seq![Ev::Str(decoded(s, p + 1, e - 1))], None => seq![] } }
    else if s[p] == 0x7b { seq![Ev::ObjStart] + obj_rest_events(s, p + 1, raw) }
    else if s[p] == 0x5b { seq![Ev::ArrStart] + arr_rest_events(s, p + 1, raw) }
    else if s[p] == 0x74 { seq![Ev::Bool(true)] }
    else if s[p] == 0x66 { seq![Ev::Bool(false)] }
    else if s[p] == 0x6e { seq![Ev::Null] }
    else { seq![] }
}
pub open spec fn arr_rest_events(s: Seq<u8>, i: int, raw: bool) -> Seq<Ev>
    decreases s.len() - i, 2nat
{
    let p = ws_end(s, i);
    if !(0 <= i <= p < s.len()) { seq![] }
    else if s[p] == 0x5d { seq![Ev::ArrEnd(0)] }
    else { elems_events(s, i, 0, raw) }
}
// i: where an element is expected; c: elements before it
pub open spec fn elems_events(s: Seq<u8>, i: int, c: nat, raw: bool) -> Seq<Ev>
    decreases s.len() - i, 1nat
{
    if i < 0 { seq![] } else {
    match value_end_l(s, i) {
        None => seq![],
        Some(e) => {
            let q = ws_end(s, e);
            if !(i < e <= q < s.len()) { seq![] }
            else if s[q] == 0x5d { value_events(s, i, raw) + seq![Ev::ArrEnd(c + 1)] }
            else if s[q] == 0x2c { value_events(s, i, raw) + elems_events(s, q + 1, c + 1, raw) }
            else { seq![] }
        }
    } }
}
pub open spec fn obj_rest_events(s: Seq<u8>, i: int, raw: bool) -> Seq<Ev>
    decreases s.len() - i, 2nat
{
    let p = ws_end(s, i);
    if !(0 <= i <= p < s.len()) { seq![] }
    else if s[p] == 0x7d { seq![Ev::ObjEnd(0)] }
    else if s[p] == 0x22 { members_events(s, p + 1, 0, raw) }
    else { seq![] }
}
// i: just after the opening quote of a member name; c: members before it
pub open spec fn members_events(s: Seq<u8>, i: int, c: nat, raw: bool) -> Seq<Ev>
    decreases s.len() - i, 1nat
{
    if i < 0 { seq![] } else {
    match str_end(s, i) {
        None => seq![],
        Some(k) => {
            let cp = ws_end(s, k);
            if !(i < k <= cp < s.len()) || s[cp] != 0x3a { seq![] }
            else {
                match value_end_l(s, cp + 1) {
                    None => seq![],
                    Some(e) => {
                        let q = ws_end(s, e);
                        let head = seq![Ev::Str(decoded(s, i, k - 1))] + value_events(s, cp + 1, raw);
                        if !(cp + 1 < e <= q < s.len()) { seq![] }
                        else if s[q] == 0x7d { head + seq![Ev::ObjEnd(c + 1)] }
                        else if s[q] == 0x2c {
                            let r = ws_end(s, q + 1);
                            if q + 1 <= r < s.len() && s[r] == 0x22 { head + members_events(s, r + 1, c + 1, raw) } else { seq![] }
                        } else { seq![] }
                    }
                }
            }
        }
    } }
}

// ---- the visitor interface with a ghost trace: a successful call appends exactly its event
pub trait JsonVisitor<'de> {
    spec fn trace(&self) -> Seq<Ev>;
    fn visit_null(&mut self) -> (r: bool) ensures r ==> final(self).trace() == old(self).trace().push(Ev::Null);
    fn visit_bool(&mut self, val: bool) -> (r: bool) ensures r ==> final(self).trace() == old(self).trace().push(Ev::Bool(val));
    fn visit_u64(&mut self, val: u64) -> (r: bool) ensures r ==> final(self).trace() == old(self).trace().push(Ev::U64(val));
    fn visit_i64(&mut self, val: i64) -> (r: bool) ensures r ==> final(self).trace() == old(self).trace().push(Ev::I64(val));
    fn visit_f64(&mut self, val: f64) -> (r: bool) ensures r ==> final(self).trace() == old(self).trace().push(Ev::F64);
    fn visit_raw_number(&mut self, val: &str) -> (r: bool) ensures r ==> final(self).trace() == old(self).trace().push(Ev::RawNum(str_bytes(val)));
    fn visit_str(&mut self, value: &str) -> (r: bool) ensures r ==> final(self).trace() == old(self).trace().push(Ev::Str(str_bytes(value)));
    fn visit_object_start(&mut self, hint: usize) -> (r: bool) ensures r ==> final(self).trace() == old(self).trace().push(Ev::ObjStart);
    fn visit_object_end(&mut self, len: usize) -> (r: bool) ensures r ==> final(self).trace() == old(self).trace().push(Ev::ObjEnd(len as nat));
    fn visit_array_start(&mut self, hint: usize) -> (r: bool) ensures r ==> final(self).trace() == old(self).trace().push(Ev::ArrStart);
    fn visit_array_end(&mut self, len: usize) -> (r: bool) ensures r ==> final(self).trace() == old(self).trace().push(Ev::ArrEnd(len as nat));
}

//@extract file=src/parser.rs macro=check_visit
//@extract file=sonic-number/src/lib.rs enum=ParserNumber

//@extract file=src/parser.rs enum=Reference
impl<'b, 'c> Reference<'b, 'c, str> {
    // substitution target for `rs.as_ref()` (Deref of Reference<str>)
    #[verifier::external_body]
    pub fn as_str_ref(&self) -> (r: &str)
        ensures str_bytes(r) == self.rbytes(),
    { unimplemented!() }
    pub uninterp spec fn rbytes(&self) -> Seq<u8>;
}

pub open spec fn ev_of(n: ParserNumber) -> Ev {
    match n { ParserNumber::Unsigned(v) => Ev::U64(v), ParserNumber::Signed(v) => Ev::I64(v), ParserNumber::Float(_) => Ev::F64 }
}

impl<'de, R: Reader<'de>> Parser<R> {
    // The in-place twins (parse_value / parse_array / parse_object / parse_string_inplace / parse_number_inplace) hand
    // out `visit_borrowed_*` slices of the reader's own buffer and unescape in place through `cur_ptr`: they are
    // only sound on the DOM's private padded copy (`PaddedSliceRead`; `Read::cur_ptr` panics). The copy-out parser
    // verified here works on any reader, so it must never reach them: their contract is `requires false`.
    #[verifier::external_body]
    pub fn parse_value<V: JsonVisitor<'de>>(&mut self, visitor: &mut V) -> (res: Result<()>)
        requires false,
    { unimplemented!() }
    #[verifier::external_body]
    pub fn parse_array<V: JsonVisitor<'de>>(&mut self, vis: &mut V) -> (res: Result<()>)
        requires false,
    { unimplemented!() }
    #[verifier::external_body]
    pub fn parse_object<V: JsonVisitor<'de>>(&mut self, vis: &mut V) -> (res: Result<()>)
        requires false,
    { unimplemented!() }
    #[verifier::external_body]
    pub fn parse_string_inplace<V: JsonVisitor<'de>>(&mut self, vis: &mut V) -> (res: Result<()>)
        requires false,
    { unimplemented!() }
    #[verifier::external_body]
    pub fn parse_number_inplace<V: JsonVisitor<'de>>(&mut self, first: u8, vis: &mut V) -> (res: Result<()>)
        requires false,
    { unimplemented!() }

    // Parser::parse_number: index arithmetic around sonic_number::parse_number (verified in unit `number`:
    // consumes exactly number_end_l, classification/value exact for integers); assumed here.
    #[verifier::external_body]
    pub fn parse_number(&mut self, first: u8) -> (res: Result<ParserNumber>)
        requires old(self).pinv(), old(self).read.idx() >= 1,
            first == old(self).read.data()[old(self).read.idx() - 1], first == 0x2d || is_digit(first),
        ensures final(self).pinv(), final(self).same_doc(old(self)), final(self).same_cache(old(self)),
            res.is_ok() ==> number_end_l(old(self).read.data(), old(self).read.idx() - 1) == Some(final(self).read.idx() as int)
                && ev_of(res.unwrap()) == num_event(old(self).read.data(), old(self).read.idx() - 1),
            number_end_l(old(self).read.data(), old(self).read.idx() - 1).is_none() ==> res.is_err(),
            final(self).read.idx() >= old(self).read.idx(),
    { unimplemented!() }

    // parse_str: verified scanning half in unit `strings`; acceptance + decoded text assumed here
    #[verifier::external_body]
    pub fn parse_str<'own>(&mut self, buf: &'own mut Vec<u8>) -> (res: Result<Reference<'de, 'own, str>>)
        requires old(self).pinv(),
        ensures final(self).pinv(), final(self).same_doc(old(self)),
            res.is_ok() ==> str_end(old(self).read.data(), old(self).read.idx() as int) == Some(final(self).read.idx() as int)
                && res.unwrap().rbytes() == decoded(old(self).read.data(), old(self).read.idx() as int, final(self).read.idx() - 1),
            str_end(old(self).read.data(), old(self).read.idx() as int).is_none() ==> res.is_err(),
            final(self).read.idx() >= old(self).read.idx(),
    { unimplemented!() }

//@extract file=src/parser.rs impl="Parser<R>" fn=parse_string_owned
//@subst /rs\.as_ref\(\)/ => rs.as_str_ref()
//@sig
        requires old(self).pinv(),
        ensures final(self).pinv(), final(self).same_doc(old(self)),
            res.is_ok() ==> str_end(old(self).read.data(), old(self).read.idx() as int) == Some(final(self).read.idx() as int)
                && final(vis).trace() == old(vis).trace().push(Ev::Str(decoded(old(self).read.data(), old(self).read.idx() as int, final(self).read.idx() - 1))),
            str_end(old(self).read.data(), old(self).read.idx() as int).is_none() ==> res.is_err(),
            final(self).read.idx() >= old(self).read.idx(),
//@end

//@extract file=src/parser.rs impl="Parser<R>" fn=parse_number_visit
//@sig
        requires old(self).pinv(), old(self).read.idx() >= 1,
            first == old(self).read.data()[old(self).read.idx() - 1], first == 0x2d || is_digit(first),
        ensures final(self).pinv(), final(self).same_doc(old(self)),
            ({
                let s = old(self).read.data();
                let p = old(self).read.idx() - 1;
                let raw = old(self).cfg.use_rawnumber;
                &&& (res.is_ok() ==> number_end_l(s, p) == Some(final(self).read.idx() as int)
                        && final(vis).trace() == old(vis).trace() + (if raw { seq![Ev::RawNum(s.subrange(p, number_end(s, p).unwrap()))] } else { seq![num_event(s, p)] })
                        && (raw ==> number_end(s, p).is_some()))
                &&& (number_end_l(s, p).is_none() ==> res.is_err())
            }),
            final(self).read.idx() >= old(self).read.idx(),
//@before /let start =/
            proof { lemma_lenient_extends_grammar(self.read.data(), if at(self.read.data(), self.read.idx() - 1, 0x2d) { self.read.idx() as int } else { self.read.idx() - 1 }); }
//@end

//@extract file=src/parser.rs impl="Parser<R>" fn=parse_literal_visit
//@subst /literal\.len\(\)/ => literal.as_bytes().len()
//@subst /chunk != literal\.as_bytes\(\)/ => !slice_eq(chunk, literal.as_bytes())
//@sig
        requires old(self).pinv(), old(self).read.idx() >= 1, first == old(self).read.data()[old(self).read.idx() - 1],
        ensures final(self).pinv(), final(self).same_doc(old(self)),
            ({
                let s = old(self).read.data();
                let i = old(self).read.idx() as int;
                let want = if first == 0x74 { lit_end(s, i, rue()) } else if first == 0x66 { lit_end(s, i, alse()) }
                           else if first == 0x6e { lit_end(s, i, ull()) } else { None };
                &&& (res.is_ok() ==> want == Some(final(self).read.idx() as int)
                        && final(vis).trace() == old(vis).trace().push(if first == 0x74 { Ev::Bool(true) } else if first == 0x66 { Ev::Bool(false) } else { Ev::Null }))
                &&& (want.is_none() ==> res.is_err())
            }),
            final(self).read.idx() >= old(self).read.idx(),
//@before /let literal = match first \{/
        proof { axiom_lits(); }
//@end

//@extract file=src/parser.rs impl="Parser<R>" fn=parse_value2
//@sig
        requires old(self).pinv(),
        ensures final(self).pinv(), final(self).same_doc(old(self)),
            // acceptance: exactly the grammar (as consumed), reader just after the value
            res.is_ok() ==> value_end_l(old(self).read.data(), old(self).read.idx() as int) == Some(final(self).read.idx() as int),
            value_end_l(old(self).read.data(), old(self).read.idx() as int).is_none() ==> res.is_err(),
            // the visitor saw exactly the reference event list of the value, in order
            res.is_ok() ==> final(vis).trace() == old(vis).trace() + value_events(old(self).read.data(), old(self).read.idx() as int, old(self).cfg.use_rawnumber),
            final(self).read.idx() >= old(self).read.idx(),
        decreases old(self).read.data().len() - old(self).read.idx(), 0nat
//@before /match self\.skip_space\(\) \{/
        let ghost s = self.read.data();
        let ghost i0 = self.read.idx() as int;
        let ghost t0 = vis.trace();
        proof {
            lemma_ws_end_bounds(s, i0);
            lemma_seq_push(t0, Ev::Null); lemma_seq_push(t0, Ev::Bool(true)); lemma_seq_push(t0, Ev::Bool(false));
            if ws_end(s, i0) < s.len() && s[ws_end(s, i0)] == 0x22 && str_end(s, ws_end(s, i0) + 1).is_some() {
                lemma_seq_push(t0, Ev::Str(decoded(s, ws_end(s, i0) + 1, str_end(s, ws_end(s, i0) + 1).unwrap() - 1)));
            }
            lemma_seq_assoc(t0, seq![Ev::ObjStart], obj_rest_events(s, ws_end(s, i0) + 1, self.cfg.use_rawnumber));
            lemma_seq_assoc(t0, seq![Ev::ArrStart], arr_rest_events(s, ws_end(s, i0) + 1, self.cfg.use_rawnumber));
        }
//@end

//@extract file=src/parser.rs impl="Parser<R>" fn=parse_array2
//@attr
    #[verifier::loop_isolation(false)]
//@sig
        requires old(self).pinv(),
        ensures final(self).pinv(), final(self).same_doc(old(self)),
            res.is_ok() ==> arr_end_l(old(self).read.data(), old(self).read.idx() as int) == Some(final(self).read.idx() as int),
            arr_end_l(old(self).read.data(), old(self).read.idx() as int).is_none() ==> res.is_err(),
            res.is_ok() ==> final(visitor).trace() == old(visitor).trace() + seq![Ev::ArrStart]
                + arr_rest_events(old(self).read.data(), old(self).read.idx() as int, old(self).cfg.use_rawnumber),
            final(self).read.idx() >= old(self).read.idx(),
        decreases old(self).read.data().len() - old(self).read.idx(), 2nat
//@before /check_visit!\(self, visitor\.visit_array_start/
        let ghost s = self.read.data();
        let ghost i0 = self.read.idx() as int;
        let ghost t0 = visitor.trace();
        let ghost raw = self.cfg.use_rawnumber;
        let ghost goal = t0 + seq![Ev::ArrStart] + arr_rest_events(s, i0, raw);
        proof {
            lemma_ws_end_bounds(s, i0);
            lemma_seq_push(t0, Ev::ArrStart);
            lemma_seq_push(t0 + seq![Ev::ArrStart], Ev::ArrEnd(0));
        }
//@before /let mut count/
        proof {
            if first.is_some() {
                let vs0 = self.read.idx() as int - 1;
                lemma_elems_end_l_ws(s, i0, vs0);
                lemma_elems_events_ws(s, i0, vs0, 0, raw);
            }
        }
//@loop 1
            invariant self.pinv(), self.same_doc(old(self)), i0 <= self.read.idx(), raw == self.cfg.use_rawnumber,
                count <= self.read.idx() - i0,
                first.is_some() ==> self.read.idx() >= 1 && i0 <= self.read.idx() - 1 && first == Some(s[self.read.idx() - 1]) && !is_ws(s[self.read.idx() - 1])
                    && arr_end_l(s, i0) == elems_end_l(s, self.read.idx() - 1)
                    && goal == visitor.trace() + elems_events(s, self.read.idx() - 1, count as nat, raw),
                first.is_none() ==> arr_end_l(s, i0).is_none(),
            decreases s.len() - self.read.idx(),
//@before /^            match first \{/
            let ghost vs = self.read.idx() as int - 1;
            let ghost th = visitor.trace();
            proof {
                if first.is_some() {
                    lemma_ws_end_stop(s, vs, vs);
                    lemma_seq_push(th, Ev::Null); lemma_seq_push(th, Ev::Bool(true)); lemma_seq_push(th, Ev::Bool(false));
                    if s[vs] == 0x22 && str_end(s, vs + 1).is_some() { lemma_seq_push(th, Ev::Str(decoded(s, vs + 1, str_end(s, vs + 1).unwrap() - 1))); }
                    lemma_seq_assoc(th, seq![Ev::ObjStart], obj_rest_events(s, vs + 1, raw));
                    lemma_seq_assoc(th, seq![Ev::ArrStart], arr_rest_events(s, vs + 1, raw));
                }
            }
//@before /^            count /
            let ghost e = self.read.idx() as int;
            proof {
                assert(value_end_l(s, vs) == Some(e));
                assert(visitor.trace() == th + value_events(s, vs, raw));
                lemma_value_end_l_bounds(s, vs);
                lemma_ws_end_bounds(s, e);
                let q = ws_end(s, e);
                lemma_seq_assoc(th, value_events(s, vs, raw), seq![Ev::ArrEnd((count + 1) as nat)]);
                lemma_seq_push(visitor.trace(), Ev::ArrEnd((count + 1) as nat));
                if q < s.len() && s[q] == 0x2c {
                    lemma_ws_end_bounds(s, q + 1);
                    let v2 = ws_end(s, q + 1);
                    lemma_elems_end_l_ws(s, q + 1, v2);
                    lemma_elems_events_ws(s, q + 1, v2, (count + 1) as nat, raw);
                    lemma_seq_assoc(th, value_events(s, vs, raw), elems_events(s, q + 1, (count + 1) as nat, raw));
                }
            }
//@end

//@extract file=src/parser.rs impl="Parser<R>" fn=parse_object2
//@attr
    #[verifier::loop_isolation(false)]
//@sig
        requires old(self).pinv(),
        ensures final(self).pinv(), final(self).same_doc(old(self)),
            res.is_ok() ==> obj_end_l(old(self).read.data(), old(self).read.idx() as int) == Some(final(self).read.idx() as int),
            obj_end_l(old(self).read.data(), old(self).read.idx() as int).is_none() ==> res.is_err(),
            res.is_ok() ==> final(vis).trace() == old(vis).trace() + seq![Ev::ObjStart]
                + obj_rest_events(old(self).read.data(), old(self).read.idx() as int, old(self).cfg.use_rawnumber),
            final(self).read.idx() >= old(self).read.idx(),
        decreases old(self).read.data().len() - old(self).read.idx(), 2nat
//@before /let mut count/
        let ghost s = self.read.data();
        let ghost i0 = self.read.idx() as int;
        let ghost t0 = vis.trace();
        let ghost raw = self.cfg.use_rawnumber;
        let ghost goal = t0 + seq![Ev::ObjStart] + obj_rest_events(s, i0, raw);
        proof {
            lemma_ws_end_bounds(s, i0);
            lemma_seq_push(t0, Ev::ObjStart);
            lemma_seq_push(t0 + seq![Ev::ObjStart], Ev::ObjEnd(0));
        }
//@loop 1
            invariant self.pinv(), self.same_doc(old(self)), i0 < self.read.idx(), raw == self.cfg.use_rawnumber,
                count <= self.read.idx() - i0,
                obj_end_l(s, i0) == members_end_l(s, self.read.idx() as int),
                goal == vis.trace() + members_events(s, self.read.idx() as int, count as nat, raw),
            decreases s.len() - self.read.idx(),
//@before /self\.parse_string_owned\(vis, strbuf\)\?;/
            let ghost ki = self.read.idx() as int;
            let ghost th = vis.trace();
//@after /self\.parse_string_owned\(vis, strbuf\)\?;/
            let ghost k = self.read.idx() as int;
            proof { lemma_str_end_bounds(s, ki); lemma_ws_end_bounds(s, k); lemma_seq_push(th, Ev::Str(decoded(s, ki, k - 1))); }
//@after /self\.parse_object_clo\(\)\?;/
            let ghost vi = self.read.idx() as int;
//@after /self\.parse_value2\(vis, strbuf\)\?;/
            let ghost e = self.read.idx() as int;
            proof {
                lemma_value_end_l_bounds(s, vi);
                lemma_ws_end_bounds(s, e);
                let q = ws_end(s, e);
                let head = seq![Ev::Str(decoded(s, ki, k - 1))] + value_events(s, vi, raw);
                lemma_seq_assoc(th, seq![Ev::Str(decoded(s, ki, k - 1))], value_events(s, vi, raw));
                assert(vis.trace() == th + head);
                lemma_seq_assoc(th, head, seq![Ev::ObjEnd((count + 1) as nat)]);
                lemma_seq_push(vis.trace(), Ev::ObjEnd((count + 1) as nat));
                if q < s.len() && s[q] == 0x2c {
                    lemma_ws_end_bounds(s, q + 1);
                    let r = ws_end(s, q + 1);
                    if r < s.len() && s[r] == 0x22 {
                        lemma_seq_assoc(th, head, members_events(s, r + 1, (count + 1) as nat, raw));
                    }
                }
            }
//@end
}
