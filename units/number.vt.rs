// Verus unit `number` (C07): sonic_number::parse_number — acceptance, end offset and the exact-integer
// path. Float construction (parse_float and below) is T5: assumed, not proved.
use vstd::prelude::*;
verus! {
global size_of usize == 8;
pub open spec fn is_digit(c: u8) -> bool { 0x30 <= c <= 0x39 }
pub assume_specification [u8::is_ascii_digit] (c: &u8) -> (r: bool)
    ensures r == is_digit(*c);
//@include specs/json_number.rs

pub open spec fn pow10(n: nat) -> nat decreases n { if n == 0 { 1 } else { 10 * pow10((n - 1) as nat) } }
pub proof fn lemma_dec_val_bound(s: Seq<u8>, a: int, b: int)
    requires 0 <= a <= b <= s.len(), forall|j: int| a <= j < b ==> is_digit(#[trigger] s[j]),
    ensures 0 <= dec_val(s, a, b) < pow10((b - a) as nat),
    decreases b - a
{
    if b > a {
        lemma_dec_val_bound(s, a, b - 1);
        assert(pow10((b - a) as nat) == 10 * pow10((b - 1 - a) as nat));
    }
}
pub proof fn lemma_dec_val_lower(s: Seq<u8>, a: int, b: int)
    requires 0 <= a < b <= s.len(), forall|j: int| a <= j < b ==> is_digit(#[trigger] s[j]), s[a] != 0x30,
    ensures dec_val(s, a, b) >= pow10((b - a - 1) as nat),
    decreases b - a
{
    if b - a == 1 {
        assert(dec_val(s, a, a) == 0);
        assert(pow10(0) == 1);
    } else {
        lemma_dec_val_lower(s, a, b - 1);
        assert(pow10((b - a - 1) as nat) == 10 * pow10((b - a - 2) as nat));
    }
}
pub proof fn lemma_pow10_19()
    ensures pow10(19) == 10000000000000000000, pow10(18) == 1000000000000000000, pow10(17) == 100000000000000000,
        pow10(16) == 10000000000000000, pow10(20) == 100000000000000000000,
{
    reveal_with_fuel(pow10, 21);
}

//@extract file=sonic-number/src/lib.rs enum=ParserNumber
//@extract file=sonic-number/src/lib.rs enum=Error
//@extract file=sonic-number/src/lib.rs macro=match_digit
//@extract file=sonic-number/src/lib.rs macro=is_digit
//@extract file=sonic-number/src/lib.rs macro=digit
//@extract file=sonic-number/src/lib.rs macro=check_digit
//@extract file=sonic-number/src/lib.rs const=FLOATING_LONGEST_DIGITS

// T5: float construction is assumed (Eisel-Lemire / big-decimal port of core's dec2flt); it may reject
// only with FloatMustBeFinite
#[verifier::external_body]
fn parse_float(significant: u64, exponent: i32, negative: bool, trunc: bool, raw_num: &[u8]) -> (r: Result<ParserNumber, Error>)
    ensures r.is_ok() ==> r.unwrap() is Float,
        r.is_err() ==> r.unwrap_err() is FloatMustBeFinite,
{ unimplemented!() }

//@extract file=sonic-number/src/lib.rs fn=parse_exponent
//@sig
    requires *old(index) <= data@.len(), data@.len() <= 0x3fff_ffff_ffff_ffff,
    ensures
        res.is_ok() <==> exp_end(data@, *old(index) as int).is_some(),
        res.is_ok() ==> *final(index) == exp_end(data@, *old(index) as int).unwrap() && -1_000_000_010 < res.unwrap() < 1_000_000_010,
        *old(index) <= *final(index) <= data@.len(),
        // the value (found F27): the exponent's own digits, exactly, as long as they stay below the saturation point
        // 10^8 — far above any input length, because the caller ADDS the number of digits it dropped from (or zeros it
        // skipped before) the significand, which grows with the input; beyond it only the magnitude class is kept
        res.is_ok() ==> ({
            let q = if at(data@, *old(index) as int, 0x2d) || at(data@, *old(index) as int, 0x2b) { *old(index) + 1 } else { *old(index) as int };
            let v = dec_val(data@, q, digits_end(data@, q));
            let neg = at(data@, *old(index) as int, 0x2d);
            &&& (v < 100_000_000 ==> res.unwrap() == (if neg { -v } else { v }))
            &&& (v >= 100_000_000 ==> (if neg { res.unwrap() <= -100_000_000 } else { res.unwrap() >= 100_000_000 }))
        }),
//@before /check_digit!\(data, \*index\);/
    let ghost q1 = *index as int;
    proof { lemma_digits_end_bounds(data@, q1); reveal_with_fuel(dec_val, 2); }
//@loop 1
        invariant q1 <= *index <= data@.len(), 0 <= exponent < 1_000_000_010,
            forall|j: int| q1 <= j < *index ==> is_digit(#[trigger] data@[j]),
            data@.len() <= 0x3fff_ffff_ffff_ffff,
            exponent == dec_val(data@, q1, *index as int),
        decreases data@.len() - *index,
//@loop 2
        invariant q1 <= *index <= data@.len(), 0 <= exponent < 1_000_000_010,
            forall|j: int| q1 <= j < *index ==> is_digit(#[trigger] data@[j]),
            0 <= q1,
            (exponent == dec_val(data@, q1, *index as int) && !dig_at(data@, *index as int)) || (exponent >= 100_000_000 && dec_val(data@, q1, *index as int) >= 100_000_000),
        decreases data@.len() - *index,
//@after /^\s+\*index \+= 1;/ #3
        proof {
            reveal_with_fuel(dec_val, 2);
            lemma_dec_val_bound(data@, q1, *index as int - 1);
        }
//@before /if negative \{/
    proof { lemma_digits_run(data@, q1, *index - q1); }
//@end

pub proof fn lemma_pow10_mono(a: nat, b: nat)
    requires a <= b,
    ensures pow10(a) <= pow10(b), pow10(a) >= 1,
    decreases b
{
    if b > a { lemma_pow10_mono(a, (b - 1) as nat); } else if a > 0 { lemma_pow10_mono((a - 1) as nat, (a - 1) as nat); }
}
pub proof fn lemma_pow10_add(a: nat, b: nat)
    ensures pow10(a + b) == pow10(a) * pow10(b),
    decreases a
{
    if a > 0 {
        lemma_pow10_add((a - 1) as nat, b);
        assert(pow10(a + b) == 10 * pow10((a + b - 1) as nat));
        assert(10 * (pow10((a - 1) as nat) * pow10(b)) == (10 * pow10((a - 1) as nat)) * pow10(b)) by (nonlinear_arith);
    } else {
        assert(pow10(0) == 1);
    }
}
// dec_val of a concatenation
pub proof fn lemma_dec_val_split(s: Seq<u8>, a: int, m: int, b: int)
    requires a <= m <= b,
    ensures dec_val(s, a, b) == dec_val(s, a, m) * pow10((b - m) as nat) + dec_val(s, m, b),
    decreases b - m
{
    if b > m {
        lemma_dec_val_split(s, a, m, b - 1);
        let x = dec_val(s, a, m);
        let pw = pow10((b - 1 - m) as nat) as int;
        let y = dec_val(s, m, b - 1);
        let d = s[b - 1] as int - 0x30;
        assert(pow10((b - m) as nat) as int == 10 * pw);
        assert(dec_val(s, a, b - 1) == x * pw + y);
        assert(dec_val(s, a, b) == dec_val(s, a, b - 1) * 10 + d);
        assert(dec_val(s, m, b) == y * 10 + d);
        assert((x * pw + y) * 10 + d == x * (10 * pw) + (y * 10 + d)) by (nonlinear_arith);
    } else {
        assert(pow10(0) == 1);
        assert(dec_val(s, m, b) == 0);
        assert(dec_val(s, a, m) * 1 == dec_val(s, a, m)) by (nonlinear_arith);
    }
}

// POW10_UINT[i] == 10^i: the 18 entries are checked here against the spec function
//@extract file=sonic-number/src/lib.rs const=POW10_UINT
proof fn lemma_pow10_table()
    ensures forall|i: int| 0 <= i < 18 ==> #[trigger] POW10_UINT@[i] == pow10(i as nat),
{
    reveal_with_fuel(pow10, 19);
}

// simd_str2int (sonic-number/src/arch): value and length of the leading run of at most `need` digits of
// the first 16 bytes. Proved by Kani for the fallback implementation on all inputs (str2int_fallback_all);
// the x86 implementation is NOT proved (CBMC does not finish) — assumed.
#[verifier::external_body]
unsafe fn simd_str2int(c: &[u8], need: usize) -> (r: (u64, usize))
    requires c@.len() >= 16, need <= 16,
    ensures r.1 <= need, r.1 <= 16,
        forall|j: int| 0 <= j < r.1 ==> is_digit(#[trigger] c@[j]),
        r.1 < need ==> !is_digit(c@[r.1 as int]),
        r.0 == dec_val(c@, 0, r.1 as int),
{ unimplemented!() }

pub proof fn lemma_dec_val_shift(s: Seq<u8>, t: Seq<u8>, off: int, a: int, b: int)
    requires 0 <= a <= b, off + b <= s.len(), b <= t.len(), forall|j: int| a <= j < b ==> t[j] == s[off + j],
    ensures dec_val(t, a, b) == dec_val(s, off + a, off + b),
    decreases b - a
{
    if b > a { lemma_dec_val_shift(s, t, off, a, b - 1); }
}

//@extract file=sonic-number/src/lib.rs fn=parse_number_fraction
//@sig
    requires *old(index) < data@.len(), data@.len() <= 0x1fff_ffff, dot_pos <= *old(index),
        is_digit(data@[*old(index) as int]),
        need <= 16, (need > 0 ==> *old(significant) < pow10((17 - need) as nat)),
        -0x2000_0000 <= *old(exponent) <= 0x2000_0000,
    ensures
        // acceptance: digits, then an optional well-formed exponent
        res.is_ok() <==> num_tail(data@, *old(index) as int, true).is_some(),
        res.is_ok() ==> *final(index) == num_tail(data@, *old(index) as int, true).unwrap(),
        *old(index) <= *final(index) <= data@.len(),
        // the accumulated significand is the old one extended by the first k = min(need, #digits) fraction digits
        res.is_ok() ==> ({
            let d = digits_end(data@, *old(index) as int);
            let k = if need <= 0 { 0 } else if d - *old(index) < need { d - *old(index) } else { need as int };
            &&& *final(significant) == *old(significant) * pow10(k as nat) + dec_val(data@, *old(index) as int, *old(index) + k)
            &&& (res.unwrap() <==> d - *old(index) > k)
        }),
//@before /if need > 0 \{/
    let ghost s = data@;
    let ghost i0 = *index as int;
    let ghost sig0 = *significant;
    proof { lemma_digits_end_bounds(s, i0); lemma_pow10_19(); lemma_pow10_table(); }
//@after /let \(frac, ndigits\) =/
            proof {
                let t = data@.subrange(i0, data@.len() as int);
                lemma_dec_val_shift(s, t, i0, 0, ndigits as int);
                assert forall|j: int| i0 <= j < i0 + ndigits implies is_digit(#[trigger] s[j]) by { assert(t[j - i0] == s[j]); }
                lemma_digits_run(s, i0, ndigits as int);
                lemma_dec_val_bound(s, i0, i0 + ndigits);
                lemma_pow10_mono(ndigits as nat, need as nat);
                lemma_pow10_add((17 - need) as nat, need as nat);
                assert(sig0 * pow10(ndigits as nat) + frac < pow10(17)) by (nonlinear_arith)
                    requires 0 <= sig0 < pow10((17 - need) as nat), pow10(ndigits as nat) <= pow10(need as nat), 0 <= frac < pow10(ndigits as nat),
                        pow10(17) == pow10((17 - need) as nat) * pow10(need as nat), pow10(ndigits as nat) >= 1;
                if ndigits < need { assert(t[ndigits as int] == s[i0 + ndigits]); }
            }
//@before /if need > 0 \{/
    let ghost need0 = need as int;
    proof {
        assert(pow10(0) == 1);
        assert(dec_val(s, i0, i0) == 0);
        assert(sig0 * 1 == sig0) by (nonlinear_arith);
    }
//@loop 1
                invariant 0 <= i0 <= *index <= s.len(), data@ == s, 0 <= need, need0 <= 16,
                    need == need0 - (*index - i0), s.len() <= 0x1fff_ffff,
                    forall|j: int| i0 <= j < *index ==> is_digit(#[trigger] s[j]),
                    *significant == sig0 * pow10((*index - i0) as nat) + dec_val(s, i0, *index as int),
                    0 <= sig0 < pow10((17 - need0) as nat),
                decreases s.len() - *index,
//@before /^\s+\*significant = \*significant / #2
                proof {
                    let k = (*index - i0) as nat;
                    lemma_dec_val_bound(s, i0, *index as int);
                    lemma_pow10_add((17 - need0) as nat, k);
                    lemma_pow10_mono(((17 - need0) + k) as nat, 16);
                    lemma_pow10_19();
                    assert(sig0 * pow10(k) + dec_val(s, i0, *index as int) < pow10((17 - need0) as nat) * pow10(k)) by (nonlinear_arith)
                        requires 0 <= sig0 < pow10((17 - need0) as nat), 0 <= dec_val(s, i0, *index as int) < pow10(k);
                    assert(pow10(k + 1) == 10 * pow10(k));
                    assert(sig0 * pow10(k + 1) == (sig0 * pow10(k)) * 10) by (nonlinear_arith) requires pow10(k + 1) == 10 * pow10(k);
                }
//@before /let mut trunc = false;/
    let ghost i1 = *index as int;
//@loop 2
        invariant i1 <= *index <= s.len(), data@ == s, i0 <= i1,
            forall|j: int| i0 <= j < *index ==> is_digit(#[trigger] s[j]),
            trunc <==> *index > i1,
        decreases s.len() - *index,
//@before /if match_digit!\(data, \*index, b'e' \| b'E'\) \{/
    proof { lemma_digits_run(s, i0, *index - i0); lemma_digits_end_bounds(s, *index as int); }
//@end

pub proof fn lemma_zeros_run(s: Seq<u8>, a: int, b: int)
    requires 0 <= a <= b <= s.len(), forall|j: int| a <= j < b ==> #[trigger] s[j] == 0x30,
    ensures digits_end(s, a) == digits_end(s, b),
{
    assert forall|j: int| a <= j < b implies is_digit(#[trigger] s[j]) by { }
    lemma_digits_run(s, a, b - a);
}

// std arithmetic with overflow flag (core): standard semantics assumed
pub assume_specification [u64::overflowing_mul] (a: u64, b: u64) -> (r: (u64, bool))
    ensures r.1 == (a * b > 0xffff_ffff_ffff_ffff), !r.1 ==> r.0 == a * b;
pub assume_specification [u64::overflowing_add] (a: u64, b: u64) -> (r: (u64, bool))
    ensures r.1 == (a + b > 0xffff_ffff_ffff_ffff), !r.1 ==> r.0 == a + b;

// substitution target: Verus has no float negation
#[verifier::external_body]
fn neg_f64(x: f64) -> (r: f64) { -x }

//@extract file=sonic-number/src/lib.rs fn=parse_number
//@subst? /-\(significant as f64\)/ => neg_f64(significant as f64) #all
//@subst? /-0\.0/ => neg_f64(0.0) #all
//@subst /significant as i64/ => (#[verifier::truncate] (significant as i64))
//@sig
    requires *old(index) <= data@.len(), data@.len() <= 0x1fff_ffff,
    ensures
        // acceptance and end offset
        res.is_ok() ==> lenient_end(data@, *old(index) as int) == Some(*final(index) as int),
        lenient_end(data@, *old(index) as int).is_none() ==> res.is_err(),
        (res.is_err() && lenient_end(data@, *old(index) as int).is_some()) ==> res.unwrap_err() is FloatMustBeFinite,
        *old(index) <= *final(index) <= data@.len(),
        // plain integers are exact
        is_plain_int(data@, *old(index) as int) ==> ({
            let v = dec_val(data@, *old(index) as int, digits_end(data@, *old(index) as int));
            &&& (!negative && v <= 0xffff_ffff_ffff_ffff ==> res.is_ok() && res.unwrap() is Unsigned && res.unwrap()->Unsigned_0 == v)
            &&& (negative && 0 < v <= 0x8000_0000_0000_0000 ==> res.is_ok() && res.unwrap() is Signed && res.unwrap()->Signed_0 == -v)
            &&& ((negative && (v == 0 || v > 0x8000_0000_0000_0000)) || (!negative && v > 0xffff_ffff_ffff_ffff) ==> (res.is_ok() ==> res.unwrap() is Float))
        }),
        // everything else is a float (or rejected as infinite)
        (!is_plain_int(data@, *old(index) as int) && res.is_ok() && dig_at(data@, *old(index) as int)
            && !(data@[*old(index) as int] == 0x30 && !at(data@, *old(index) + 1, 0x2e) && !at(data@, *old(index) + 1, 0x65) && !at(data@, *old(index) + 1, 0x45)))
            ==> res.unwrap() is Float,
//@before /let raw_num = &data\[\*index\.\.\];/
    let ghost s = data@;
    let ghost p = *index as int;
    proof {
        lemma_pow10_19();
        if p < s.len() { lemma_digits_end_bounds(s, p); lemma_digits_end_bounds(s, p + 1); }
        reveal_with_fuel(dec_val, 3);
    }
//@before /let dot_pos = \*index;/ #1
                proof { if *index < s.len() { lemma_digits_end_bounds(s, *index as int); } }
//@loop 1
                    invariant p + 2 <= *index <= s.len(), data@ == s, dot_pos == p + 2,
                        forall|j: int| p + 2 <= j < *index ==> #[trigger] s[j] == 0x30,
                    decreases s.len() - *index,
//@after /let dot_pos = \*index;/ #1
                let ghost zs = dot_pos as int;
//@before /if match_digit!\(data, \*index, b'e' \| b'E'\) \{/ #1
                proof { lemma_zeros_run(s, zs, *index as int); lemma_digits_end_bounds(s, *index as int); }
//@before /check_digit!\(data, \*index\);/ #2
                    let ghost q1 = *index as int;
                    proof { if q1 < s.len() { lemma_digits_end_bounds(s, q1); } }
//@loop 2
                        invariant q1 <= *index <= s.len(), data@ == s,
                            forall|j: int| q1 <= j < *index ==> is_digit(#[trigger] s[j]),
                        decreases s.len() - *index,
//@before /return Ok\(ParserNumber::Float\(/ #2
                    proof { lemma_digits_run(s, q1, *index - q1); lemma_digits_end_bounds(s, *index as int); }
//@before /check_digit!\(data, \*index\);/ #3
                let ghost q2 = *index as int;
                proof { if q2 < s.len() { lemma_digits_end_bounds(s, q2); } }
//@loop 3
                    invariant q2 <= *index <= s.len(), data@ == s,
                        forall|j: int| q2 <= j < *index ==> is_digit(#[trigger] s[j]),
                    decreases s.len() - *index,
//@before /return Ok\(ParserNumber::Float\(/ #4
                proof { lemma_digits_run(s, q2, *index - q2); lemma_digits_end_bounds(s, *index as int); }
//@loop 4
            invariant p <= *index <= s.len(), data@ == s, digit_start == p,
                forall|j: int| p <= j < *index ==> is_digit(#[trigger] s[j]),
                *index - p <= 19 ==> significant == dec_val(s, p, *index as int),
            decreases s.len() - *index,
//@before /significant = significant$/
            proof {
                lemma_dec_val_bound(s, p, *index as int);
                lemma_pow10_19();
                if *index - p < 19 {
                    lemma_pow10_mono((*index - p) as nat, 18);
                }
            }
//@before /let mut digits_cnt =/
        proof { lemma_digits_run(s, p, *index - p); lemma_digits_end_bounds(s, *index as int); }
        let ghost de = *index as int;
//@loop 5
                invariant p <= *index <= de, data@ == s, digit_start == p, de <= s.len(), digits_cnt == *index - p, digits_cnt <= 19,
                    forall|j: int| p <= j < de ==> is_digit(#[trigger] s[j]),
                    de - p > 19,
                    significant == dec_val(s, p, *index as int),
                decreases 19 - digits_cnt,
//@before /^\s+significant = significant \*/
                proof {
                    lemma_dec_val_bound(s, p, *index as int);
                    lemma_pow10_19();
                    lemma_pow10_mono((*index - p) as nat, 18);
                }
//@before /^        if match_digit!\(data, \*index, b'e' \| b'E'\) \{/
        proof {
            // here: *index == de == digits_end(s, p); significant holds the first min(#digits, 19) digits
            lemma_pow10_19();
            assert(*index == de);
            assert(de == digits_end(s, p));
            assert(de - p <= 19 ==> significant == dec_val(s, p, de) && exponent == 0);
            assert(de - p > 19 ==> significant == dec_val(s, p, p + 19) && exponent == de - p - 19);
            lemma_dec_val_bound(s, p, de);
            lemma_dec_val_lower(s, p, de);
            if de - p > 19 {
                lemma_dec_val_split(s, p, p + 19, de);
                lemma_dec_val_bound(s, p, p + 19);
                lemma_dec_val_bound(s, p + 19, de);
                lemma_dec_val_lower(s, p, p + 19);
                lemma_pow10_mono(19, (de - p - 1) as nat);
                if de - p >= 21 { lemma_pow10_mono(20, (de - p - 1) as nat); }
            } else {
                lemma_pow10_mono((de - p) as nat, 19);
            }
        }
//@before /^\s+if significant /
                    proof { assert((1u64 << 63) == 0x8000_0000_0000_0000u64) by (bit_vector); }
//@before /return Ok\(ParserNumber::Signed\(/
                        proof {
                            assert(significant < 0x8000_0000_0000_0000u64 ==> (significant as i64) == significant as int);
                            assert(significant == 0x8000_0000_0000_0000u64 ==> (significant as i64) == -0x8000_0000_0000_0000i64) by (bit_vector);
                        }
//@loop 6
                invariant p + 19 <= *index <= de, data@ == s, de <= s.len(), de == digits_end(s, p),
                    forall|j: int| p <= j < de ==> is_digit(#[trigger] s[j]),
                    exponent == *index - (p + 19), trunc == (*index > p + 19), s.len() <= 0x1fff_ffff,
                    de < s.len() ==> !is_digit(s[de]),
                decreases s.len() - *index,
//@end

} // verus!
fn main() {}
