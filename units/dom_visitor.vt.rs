// Verus unit `dom_visitor` (C03, event -> node half at dispatch level): `impl JsonVisitor for DocumentVisitor` —
// which node each visitor callback pushes onto the node stack: kind (null / bool / number / string / RAW NUMBER /
// container kind), payload, and for strings the sibling index that is packed next to it. The event list these
// callbacks receive is the subject of units decoder / decoder_inplace; the stack machinery behind them
// (push_node capacity check, visit_container_start / visit_container_end with the arena copy, visit_root) is unsafe
// pointer code over bumpalo and is NOT under contract: it enters as four opaque methods with a ghost node list.
// Declared substitution: none in the callbacks; `Value` / `Meta` constructors are external functions whose contracts
// state the kind and payload they pack (their bit-level packing is proved by Kani: meta_* harnesses under C03).
use vstd::prelude::*;
verus! {
pub enum Node {
    Null, Bool(bool), F64, I64(i64), U64(u64),
    Str { kind: u64, text: Seq<u8>, idx: nat, copied: bool },
    ContainerStart(u64), ContainerEnd { kind: u64, len: nat },
}
pub uninterp spec fn sbytes(s: &str) -> Seq<u8>;
#[verifier::external_body]
pub struct Shared { _p: core::marker::PhantomData<()> }
#[verifier::external_body]
pub struct Value { _p: core::marker::PhantomData<()> }
pub struct Meta;
impl Meta {
    pub const STR_NODE: u64 = 0b0010;        // values as in src/value/node.rs are irrelevant here: only distinctness
    pub const RAWNUM_NODE: u64 = 0b0100;
    pub const ARR_NODE: u64 = 0b0110;
    pub const OBJ_NODE: u64 = 0b1000;
}
impl Value {
    pub uninterp spec fn node(&self) -> Node;
    #[verifier::external_body] pub fn new_null() -> (r: Self) ensures r.node() == Node::Null, { unimplemented!() }
    #[verifier::external_body] pub fn new_bool(val: bool) -> (r: Self) ensures r.node() == Node::Bool(val), { unimplemented!() }
    #[verifier::external_body] pub fn new_i64(ival: i64) -> (r: Self) ensures r.node() == Node::I64(ival), { unimplemented!() }
    #[verifier::external_body] pub fn new_u64(val: u64) -> (r: Self) ensures r.node() == Node::U64(val), { unimplemented!() }
    #[verifier::external_body] pub unsafe fn new_f64_unchecked(fval: f64) -> (r: Self) ensures r.node() == Node::F64, { unimplemented!() }
    #[verifier::external_body]
    pub fn pack_str(kind: u64, idx: usize, val: &str) -> (r: Self)
        ensures r.node() == (Node::Str { kind, text: sbytes(val), idx: idx as nat, copied: false }),
    { unimplemented!() }
    #[verifier::external_body]
    pub fn copy_str_in(kind: u64, val: &str, idx: usize, shared: &mut Shared) -> (r: Self)
        ensures r.node() == (Node::Str { kind, text: sbytes(val), idx: idx as nat, copied: true }),
    { unimplemented!() }
}

/// the node stack (TlsBuf + parent / nodes_start / root of the real struct) as an opaque ghost-carrying part
#[verifier::external_body]
pub struct NodeStack { _p: core::marker::PhantomData<()> }
impl NodeStack {
    pub uninterp spec fn pushed(&self) -> Seq<Node>;
    pub uninterp spec fn cur_index(&self) -> nat;
}
pub struct DocumentVisitor<'a> { pub shared: &'a mut Shared, pub stack: NodeStack }
impl<'a> DocumentVisitor<'a> {
    /// nodes pushed so far (ghost view of the thread-local node stack)
    pub open spec fn pushed(&self) -> Seq<Node> { self.stack.pushed() }
    /// distance to the enclosing container's start node: what is packed as the sibling index of a string node
    pub open spec fn cur_index(&self) -> nat { self.stack.cur_index() }
    #[verifier::external_body]
    fn index(&mut self) -> (r: usize)
        ensures r as nat == old(self).cur_index(), final(self).pushed() == old(self).pushed(), final(self).cur_index() == old(self).cur_index(),
    { unimplemented!() }
    #[verifier::external_body]
    fn push_node(&mut self, node: Value) -> (r: bool)
        ensures r ==> final(self).pushed() == old(self).pushed().push(node.node()),
    { unimplemented!() }
    #[verifier::external_body]
    fn visit_container_start(&mut self, kind: u64) -> (r: bool)
        ensures r ==> final(self).pushed() == old(self).pushed().push(Node::ContainerStart(kind)),
    { unimplemented!() }
    #[verifier::external_body]
    fn visit_container_end(&mut self, kind: u64, len: usize) -> (r: bool)
        ensures r ==> final(self).pushed() == old(self).pushed().push(Node::ContainerEnd { kind, len: len as nat }),
    { unimplemented!() }
//@extract file=src/value/node.rs impl="JsonVisitor<'de> for DocumentVisitor<'a>" fn=visit_bool
//@sig
        ensures res ==> final(self).pushed() == old(self).pushed().push(Node::Bool(val)),
//@end
//@extract file=src/value/node.rs impl="JsonVisitor<'de> for DocumentVisitor<'a>" fn=visit_f64
//@sig
        ensures res ==> final(self).pushed() == old(self).pushed().push(Node::F64),
//@end
//@extract file=src/value/node.rs impl="JsonVisitor<'de> for DocumentVisitor<'a>" fn=visit_i64
//@sig
        ensures res ==> final(self).pushed() == old(self).pushed().push(Node::I64(val)),
//@end
//@extract file=src/value/node.rs impl="JsonVisitor<'de> for DocumentVisitor<'a>" fn=visit_u64
//@sig
        ensures res ==> final(self).pushed() == old(self).pushed().push(Node::U64(val)),
//@end
//@extract file=src/value/node.rs impl="JsonVisitor<'de> for DocumentVisitor<'a>" fn=visit_null
//@sig
        ensures res ==> final(self).pushed() == old(self).pushed().push(Node::Null),
//@end
//@extract file=src/value/node.rs impl="JsonVisitor<'de> for DocumentVisitor<'a>" fn=visit_raw_number
//@sig
        ensures res ==> final(self).pushed() == old(self).pushed().push(Node::Str { kind: Meta::RAWNUM_NODE, text: sbytes(val), idx: old(self).cur_index(), copied: true }),
//@end
//@extract file=src/value/node.rs impl="JsonVisitor<'de> for DocumentVisitor<'a>" fn=visit_borrowed_raw_number
//@sig
        ensures res ==> final(self).pushed() == old(self).pushed().push(Node::Str { kind: Meta::RAWNUM_NODE, text: sbytes(val), idx: old(self).cur_index(), copied: false }),
//@end
//@extract file=src/value/node.rs impl="JsonVisitor<'de> for DocumentVisitor<'a>" fn=visit_str
//@sig
        ensures res ==> final(self).pushed() == old(self).pushed().push(Node::Str { kind: Meta::STR_NODE, text: sbytes(val), idx: old(self).cur_index(), copied: true }),
//@end
//@extract file=src/value/node.rs impl="JsonVisitor<'de> for DocumentVisitor<'a>" fn=visit_borrowed_str
//@subst /&'de str/ => &str
//@sig
        ensures res ==> final(self).pushed() == old(self).pushed().push(Node::Str { kind: Meta::STR_NODE, text: sbytes(val), idx: old(self).cur_index(), copied: false }),
//@end
//@extract file=src/value/node.rs impl="JsonVisitor<'de> for DocumentVisitor<'a>" fn=visit_key
//@sig
        ensures res ==> final(self).pushed() == old(self).pushed().push(Node::Str { kind: Meta::STR_NODE, text: sbytes(key), idx: old(self).cur_index(), copied: true }),
//@end
//@extract file=src/value/node.rs impl="JsonVisitor<'de> for DocumentVisitor<'a>" fn=visit_borrowed_key
//@subst /&'de str/ => &str
//@sig
        ensures res ==> final(self).pushed() == old(self).pushed().push(Node::Str { kind: Meta::STR_NODE, text: sbytes(key), idx: old(self).cur_index(), copied: false }),
//@end
//@extract file=src/value/node.rs impl="JsonVisitor<'de> for DocumentVisitor<'a>" fn=visit_array_start
//@sig
        ensures res ==> final(self).pushed() == old(self).pushed().push(Node::ContainerStart(Meta::ARR_NODE)),
//@end
//@extract file=src/value/node.rs impl="JsonVisitor<'de> for DocumentVisitor<'a>" fn=visit_array_end
//@sig
        ensures res ==> final(self).pushed() == old(self).pushed().push(Node::ContainerEnd { kind: Meta::ARR_NODE, len: len as nat }),
//@end
//@extract file=src/value/node.rs impl="JsonVisitor<'de> for DocumentVisitor<'a>" fn=visit_object_start
//@sig
        ensures res ==> final(self).pushed() == old(self).pushed().push(Node::ContainerStart(Meta::OBJ_NODE)),
//@end
//@extract file=src/value/node.rs impl="JsonVisitor<'de> for DocumentVisitor<'a>" fn=visit_object_end
//@sig
        ensures res ==> final(self).pushed() == old(self).pushed().push(Node::ContainerEnd { kind: Meta::OBJ_NODE, len: len as nat }),
//@end
}

} // verus!
fn main() {}
