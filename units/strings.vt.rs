// Verus unit `strings` (C09): the borrow-or-copy decoder's scanning half (parse_string_raw) and the
// \u escape decoder (parse_escaped_utf8) on the checked reader.
use vstd::prelude::*;
use vstd::string::StringSliceAdditionalSpecFns;
verus! {
//@include specs/prelude.rs
//@include specs/json_number.rs
//@include specs/json_grammar.rs
//@include units/frag_parser.vt.rs

//@extract file=src/parser.rs enum=ParsedSlice
//@subst /pub\(crate\) enum/ => pub enum
//@end

// ---- 32-lane block classification (src/util/string.rs). Contracts proved by Kani:
//   string_block_new_lanes (masks == lane classes, pairwise disjoint), string_block_classification_all,
//   bitmask_before_u32_all.
#[verifier::reject_recursive_types(B)]
pub struct StringBlock<B> { pub bs_bits: u32, pub quote_bits: u32, pub unescaped_bits: u32, pub _p: core::marker::PhantomData<B> }
pub open spec fn tz32(m: u32) -> int { vstd::std_specs::bits::u32_trailing_zeros(m) as int }
impl StringBlock<u32> {
    pub const LANES: usize = 32;
    #[verifier::external_body]
    pub fn new(v: &u8x32) -> (b: Self)
        requires v.lanes.len() == 32,
        ensures
            forall|i: int| 0 <= i < 32 ==> #[trigger] bit32(b.bs_bits, i) == (v.lanes[i] == 0x5c),
            forall|i: int| 0 <= i < 32 ==> #[trigger] bit32(b.quote_bits, i) == (v.lanes[i] == 0x22),
            forall|i: int| 0 <= i < 32 ==> #[trigger] bit32(b.unescaped_bits, i) == (v.lanes[i] <= 0x1f),
    { unimplemented!() }
    #[verifier::external_body]
    pub fn has_unescaped(&self) -> (r: bool) ensures r == (tz32(self.unescaped_bits) < tz32(self.quote_bits)) { unimplemented!() }
    #[verifier::external_body]
    pub fn has_quote_first(&self) -> (r: bool)
        ensures r == (tz32(self.quote_bits) < tz32(self.bs_bits) && !(tz32(self.unescaped_bits) < tz32(self.quote_bits)))
    { unimplemented!() }
    #[verifier::external_body]
    pub fn has_backslash(&self) -> (r: bool) ensures r == (tz32(self.bs_bits) < tz32(self.quote_bits)) { unimplemented!() }
    #[verifier::external_body]
    pub fn quote_index(&self) -> (r: usize) ensures r == tz32(self.quote_bits) { unimplemented!() }
    #[verifier::external_body]
    pub fn bs_index(&self) -> (r: usize) ensures r == tz32(self.bs_bits) { unimplemented!() }
    #[verifier::external_body]
    pub fn unescaped_index(&self) -> (r: usize) ensures r == tz32(self.unescaped_bits) { unimplemented!() }
}
// substitution target for `unsafe { load(chunk.as_ptr()) }` (raw pointer load of LANES bytes)
#[verifier::external_body]
pub fn load_block(chunk: &[u8]) -> (v: u8x32)
    requires chunk@.len() >= 32,
    ensures v.lanes == chunk@.subrange(0, 32),
{ unimplemented!() }
// substitution target for `buf.extend_from_slice(..)` of the scanned prefix (Vec growth is T4)
#[verifier::external_body]
pub fn vec_extend(buf: &mut Vec<u8>, s: &[u8])
    ensures final(buf)@ == old(buf)@ + s@,
{ buf.extend_from_slice(s) }

pub proof fn lemma_tz32_zero()
    ensures tz32(0u32) == 32,
{
    vstd::std_specs::bits::axiom_u32_trailing_zeros(0u32);
}
pub proof fn lemma_tz32_facts(m: u32)
    ensures 0 <= tz32(m) <= 32, m == 0 <==> tz32(m) == 32,
        m != 0 ==> bit32(m, tz32(m)) && forall|j: int| 0 <= j < tz32(m) ==> !bit32(m, j),
        m == 0 ==> forall|j: int| 0 <= j < 32 ==> !bit32(m, j),
{
    vstd::std_specs::bits::axiom_u32_trailing_zeros(m);
    if m != 0 { lemma_tz32(m); } else {
        assert forall|j: int| 0 <= j < 32 implies !bit32(m, j) by { lemma_zero32(j as u32); }
    }
}

// substitution target for `unsafe { hex_to_u32_nocheck(&*(asc.as_ptr()[.add(2)] as *const _ as *const [u8; 4])) }`:
// value of four hex digits, or a value above 0xFFFF if any of them is not a hex digit
// (hex_to_u32_nocheck: Kani hex_to_u32_all_quads, all 2^32 inputs)
pub open spec fn hexv(c: u8) -> int {
    if 0x30 <= c <= 0x39 { c - 0x30 } else if 0x41 <= c <= 0x46 { c - 0x41 + 10 } else { c - 0x61 + 10 }
}
pub open spec fn hex4_val(s: Seq<u8>, i: int) -> int { hexv(s[i]) * 4096 + hexv(s[i + 1]) * 256 + hexv(s[i + 2]) * 16 + hexv(s[i + 3]) }
pub open spec fn hex4_ok(s: Seq<u8>, i: int) -> bool { is_hex(s[i]) && is_hex(s[i + 1]) && is_hex(s[i + 2]) && is_hex(s[i + 3]) }
#[verifier::external_body]
pub fn hex4_at(asc: &[u8], off: usize) -> (r: u32)
    requires off + 4 <= asc@.len(),
    ensures hex4_ok(asc@, off as int) ==> r == hex4_val(asc@, off as int) && r <= 0xffff,
        !hex4_ok(asc@, off as int) ==> r > 0xffff,
{ unimplemented!() }

// what one `\uXXXX` escape (reader just after the `u`) denotes: (code point, bytes consumed), or None = reject.
// RFC 8259 §7: a high surrogate must be followed by `\u` + low surrogate; lossy mode replaces every unpaired
// surrogate by U+FFFD and consumes nothing but that one escape.
pub open spec fn uni_escape(s: Seq<u8>, i: int, lossy: bool) -> Option<(int, int)> {
    if !(0 <= i && i + 4 <= s.len()) || !hex4_ok(s, i) { None }
    else {
        let c1 = hex4_val(s, i);
        if 0xD800 <= c1 < 0xDC00 {
            if i + 10 <= s.len() && s[i + 4] == 0x5c && s[i + 5] == 0x75 && hex4_ok(s, i + 6)
                && 0xDC00 <= hex4_val(s, i + 6) < 0xE000 {
                Some((0x10000 + (c1 - 0xD800) * 1024 + (hex4_val(s, i + 6) - 0xDC00), 10))
            } else if lossy { Some((0xFFFD, 4)) } else { None }
        } else if 0xDC00 <= c1 < 0xE000 {
            if lossy { Some((0xFFFD, 4)) } else { None }
        } else { Some((c1, 4)) }
    }
}

impl<'de, R: Reader<'de>> Parser<R> {
//@extract file=src/parser.rs impl="Parser<R>" fn=parse_escaped_utf8
//@subst /unsafe \{ hex_to_u32_nocheck\(&\*\(asc\.as_ptr\(\) as \*const _ as \*const \[u8; 4\]\)\) \}/ => hex4_at(asc, 0)
//@subst /unsafe \{ hex_to_u32_nocheck\(&\*\(asc\.as_ptr\(\)\.add\(2\) as \*const _ as \*const \[u8; 4\]\)\) \}/ => hex4_at(asc, 2)
//@subst /\(0xD800\.\.0xDC00\)\.contains\(&point1\)/ => (0xD800 <= point1 && point1 < 0xDC00)
//@subst /\(0xDC00\.\.0xE000\)\.contains\(&point1\)/ => (0xDC00 <= point1 && point1 < 0xE000)
//@sig
        requires old(self).pinv(),
        ensures final(self).pinv(), final(self).same_doc(old(self)), final(self).same_cache(old(self)),
            ({
                let s = old(self).read.data();
                let i = old(self).read.idx() as int;
                let want = uni_escape(s, i, old(self).cfg.utf8_lossy);
                // a bad-hex escape is not rejected here: the caller rejects the out-of-range value it yields
                &&& (want.is_some() ==> res.is_ok() && res.unwrap() == want.unwrap().0 && final(self).read.idx() == i + want.unwrap().1)
                &&& (want.is_none() && i + 4 <= s.len() && hex4_ok(s, i) ==> res.is_err())
                &&& (res.is_ok() && want.is_none() ==> res.unwrap() > 0xffff)
            }),
            // every error is made by Parser::error: positioned inside the input (C20)
            res.is_err() ==> err_ok(res->Err_0, old(self).read.data()),
//@after /let low_bit =/
            proof {
                assert(((point2.wrapping_sub(0xdc00u32)) >> 10u32) == 0 <==> (0xdc00u32 <= point2 && point2 < 0xe000u32)) by (bit_vector);
            }
//@before /^\s+Ok\(\(\(\(point1/
            proof {
                assert(low_bit < 1024 ==> (((point1 - 0xd800) as u32) << 10u32 | low_bit) == ((point1 - 0xd800) as u32) * 1024 + low_bit) by (bit_vector)
                    requires point1 >= 0xd800, point1 < 0xdc00;
                assert((low_bit >> 10u32) == 0 <==> low_bit < 1024) by (bit_vector);
            }
//@end

    // the copying half (raw writes into Vec spare capacity: unsafe, outside Verus): assumed acceptance contract
    #[verifier::external_body]
    pub unsafe fn parse_string_escaped<'own>(&mut self, buf: &'own mut Vec<u8>) -> (res: Result<ParsedSlice<'de, 'own>>)
        requires old(self).pinv(), old(self).read.idx() >= 1, old(self).read.data()[old(self).read.idx() - 1] == 0x5c,
        ensures final(self).pinv(), final(self).same_doc(old(self)),
            res.is_ok() ==> res.unwrap() is Copied
                && str_end(old(self).read.data(), old(self).read.idx() - 1) == Some(final(self).read.idx() as int),
            str_end(old(self).read.data(), old(self).read.idx() - 1).is_none() ==> res.is_err(),
            final(self).read.idx() >= old(self).read.idx(),
            res.is_err() ==> err_ok(res->Err_0, old(self).read.data()),
    { unimplemented!() }

//@extract file=src/parser.rs impl="Parser<R>" fn=parse_string_raw
//@attr
    #[verifier::loop_isolation(false)]
//@subst /unsafe \{ load\(chunk\.as_ptr\(\)\) \}/ => load_block(chunk)
//@subst /buf\.extend_from_slice\(&self\.read\.as_u8_slice\(\)\[start\.\.self\.read\.index\(\) - 1\]\)/ => vec_extend(buf, self.read.slice_unchecked(start, self.read.index() - 1))
//@subst /buf\.extend_from_slice\(self\.read\.slice_unchecked\(start, self\.read\.index\(\)\)\)/ => vec_extend(buf, self.read.slice_unchecked(start, self.read.index()))
//@sig
        requires old(self).pinv(),
        ensures final(self).pinv(), final(self).same_doc(old(self)),
            // acceptance: only grammar-valid literals are accepted, and the reader ends just after the closing quote
            res.is_ok() ==> str_end(old(self).read.data(), old(self).read.idx() as int) == Some(final(self).read.idx() as int),
            str_end(old(self).read.data(), old(self).read.idx() as int).is_none() ==> res.is_err(),
            // "borrowed from the input when and only when it contains no escape":
            res.is_ok() ==> ((res.unwrap() is Borrowed) <==> !has_bs(old(self).read.data(), old(self).read.idx() as int, final(self).read.idx() as int)),
            // a borrowed result is exactly the bytes between the quotes
            (res.is_ok() && res.unwrap() is Borrowed) ==> res.unwrap()->slice@ == old(self).read.data().subrange(old(self).read.idx() as int, final(self).read.idx() - 1),
            // an escape-free literal is never rejected for any other reason than the grammar
            (str_end(old(self).read.data(), old(self).read.idx() as int).is_some()
                && !has_bs(old(self).read.data(), old(self).read.idx() as int, str_end(old(self).read.data(), old(self).read.idx() as int).unwrap())) ==> res.is_ok(),
            final(self).read.idx() >= old(self).read.idx(),
            // every error is made by Parser::error: positioned inside the input (C20)
            res.is_err() ==> err_ok(res->Err_0, old(self).read.data()),
//@after /let start = self.read.index\(\);/
        let ghost s = self.read.data();
        let ghost i0 = start as int;
//@loop 1
            invariant self.pinv(), self.same_doc(old(self)), i0 <= self.read.idx(), start == i0, i0 == old(self).read.idx(),
                str_end(s, i0) == str_end(s, self.read.idx() as int),
                !has_bs(s, i0, self.read.idx() as int),
                forall|j: int| i0 <= j < self.read.idx() ==> plain_char(#[trigger] s[j]),
            decreases s.len() - self.read.idx(),
//@after /block = StringBlock::new\(&v\);/
            let ghost base = self.read.idx() as int;
            proof {
                lemma_tz32_facts(block.bs_bits); lemma_tz32_facts(block.quote_bits); lemma_tz32_facts(block.unescaped_bits);
                assert forall|j: int| 0 <= j < 32 implies v.lanes[j] == s[base + j] by { assert(chunk@[j] == s[base + j]); }
            }
//@after /let cnt = block\.quote_index\(\);/
                proof {
                    // quote first: everything before it in the block is plain
                    assert forall|j: int| base <= j < base + cnt implies plain_char(#[trigger] s[j]) by {
                        assert(!bit32(block.quote_bits, j - base));
                        assert(!bit32(block.bs_bits, j - base));
                        assert(!bit32(block.unescaped_bits, j - base));
                    }
                    assert(s[base + cnt] == 0x22) by { assert(bit32(block.quote_bits, cnt as int)); }
                    lemma_plain_run(s, base, cnt as int);
                    lemma_has_bs_extend(s, i0, base, base + cnt + 1);
                }
//@before /self\.read\.eat\(block\.unescaped_index\(\)\);/
                proof {
                    // a control byte before the first quote byte of the block: no well-formed literal can
                    // contain it (it cannot be part of an escape) nor end before it
                    let u = tz32(block.unescaped_bits);
                    assert(s[base + u] <= 0x1f) by { assert(bit32(block.unescaped_bits, u)); }
                    if str_end(s, i0).is_some() {
                        let e = str_end(s, i0).unwrap();
                        lemma_str_no_ctrl(s, i0);
                        lemma_str_end_bounds(s, i0);
                        // the closing quote is a quote byte; none exists in [i0, base + u]
                        assert forall|j: int| i0 <= j <= base + u implies s[j] != 0x22 by {
                            if j >= base { assert(!bit32(block.quote_bits, j - base)); }
                        }
                        assert(e - 1 > base + u);
                    }
                }
//@after /let cnt = block\.bs_index\(\);/
                proof {
                    assert forall|j: int| base <= j < base + cnt implies plain_char(#[trigger] s[j]) by {
                        assert(!bit32(block.quote_bits, j - base));
                        assert(!bit32(block.bs_bits, j - base));
                        assert(!bit32(block.unescaped_bits, j - base));
                    }
                    assert(s[base + cnt] == 0x5c) by { assert(bit32(block.bs_bits, cnt as int)); }
                    lemma_plain_run(s, base, cnt as int);
                }
//@before /return unsafe \{ self\.parse_string_escaped\(buf\) \};/ #1
                let ghost bsp = self.read.idx() as int - 1;
                proof {
                    lemma_has_bs_witness(s, i0, bsp, bsp + 1);
                    if str_end(s, bsp).is_some() { lemma_str_end_bounds(s, bsp); lemma_has_bs_witness(s, i0, bsp, str_end(s, bsp).unwrap()); }
                }
//@before /self\.read\.eat\(StringBlock::LANES\);/
            proof {
                assert forall|j: int| base <= j < base + 32 implies plain_char(#[trigger] s[j]) by {
                    assert(!bit32(block.quote_bits, j - base));
                    assert(!bit32(block.bs_bits, j - base));
                    assert(!bit32(block.unescaped_bits, j - base));
                }
                lemma_plain_run(s, base, 32);
                lemma_has_bs_extend(s, i0, base, base + 32);
            }
//@before /return unsafe \{ self\.parse_string_escaped\(buf\) \};/ #2
                    let ghost bsp2 = self.read.idx() as int - 1;
                    proof {
                        lemma_has_bs_witness(s, i0, bsp2, bsp2 + 1);
                        if str_end(s, bsp2).is_some() { lemma_str_end_bounds(s, bsp2); lemma_has_bs_witness(s, i0, bsp2, str_end(s, bsp2).unwrap()); }
                    }
//@loop 2
            invariant self.pinv(), self.same_doc(old(self)), i0 <= self.read.idx(), start == i0, i0 == old(self).read.idx(),
                str_end(s, i0) == str_end(s, self.read.idx() as int),
                !has_bs(s, i0, self.read.idx() as int),
                forall|j: int| i0 <= j < self.read.idx() ==> plain_char(#[trigger] s[j]),
            decreases s.len() - self.read.idx(),
//@end

//@extract file=src/parser.rs impl="Parser<R>" fn=check_invalid_utf8
//@subst /invalid_utf8\(self\.read\.as_u8_slice\(\), invalid\)/ => invalid_utf8_err(self.read.as_u8_slice(), invalid)
//@sig
        requires old(self).pinv(),
        ensures final(self).pinv(), final(self).same_doc(old(self)), final(self).same_cache(old(self)), final(self).read.idx() == old(self).read.idx(),
            // Ok(false): the consumed part is clean. Invalid UTF-8 before the reader is an error unless it is tolerated
            // (`allowed`: the caller repairs the text), and then the answer is Ok(true)
            old(self).utf8_clean() ==> res.is_ok() && !res.unwrap() && final(self).utf8_clean(),
            !old(self).utf8_clean() && !allowed ==> res.is_err(),
            !old(self).utf8_clean() && allowed ==> res.is_ok() && res.unwrap(),
            res.is_err() ==> res.unwrap_err().has_pos,
            // every error is made by Parser::error: positioned inside the input (C20)
            res.is_err() ==> err_ok(res->Err_0, old(self).read.data()),
//@end

//@extract file=src/parser.rs impl="Parser<R>" fn=parse_str
//@subst /String::from_utf8_lossy\(buf\.as_ref\(\)\)\.into_owned\(\)/ => lossy_string(buf.as_slice())
//@subst /String::from_utf8_lossy\(slice\)\.into_owned\(\)/ => lossy_string(slice)
//@subst /repr\.into_bytes\(\)/ => string_into_bytes(repr) #all
//@subst /unsafe \{ from_utf8_unchecked\(buf\.as_slice\(\)\) \}/ => as_str(buf.as_slice())
//@subst /unsafe \{ from_utf8_unchecked\(buf\) \}/ => as_str(buf.as_slice())
//@subst /unsafe \{ from_utf8_unchecked\(slice\) \}/ => as_str(slice)
//@sig
        requires old(self).pinv(),
        ensures final(self).pinv(), final(self).same_doc(old(self)),
            // acceptance: the grammar's literals, the reader just after the closing quote
            res.is_ok() ==> str_end(old(self).read.data(), old(self).read.idx() as int) == Some(final(self).read.idx() as int),
            str_end(old(self).read.data(), old(self).read.idx() as int).is_none() ==> res.is_err(),
            // a borrowed result has no escape and is exactly the bytes between the quotes
            (res.is_ok() && res.unwrap() is Borrowed) ==> !has_bs(old(self).read.data(), old(self).read.idx() as int, final(self).read.idx() as int)
                && ref_bytes(res.unwrap()) == old(self).read.data().subrange(old(self).read.idx() as int, final(self).read.idx() - 1),
            // "borrowed from the input when and only when it contains no escape" — in the default configuration; with
            // utf8_lossy a literal whose text had to be repaired is handed out as a copy
            (res.is_ok() && !old(self).cfg.utf8_lossy) ==> ((res.unwrap() is Borrowed) <==> !has_bs(old(self).read.data(), old(self).read.idx() as int, final(self).read.idx() as int)),
            final(self).read.idx() >= old(self).read.idx(),
            // C02, UTF-8 half: in the default configuration an accepted literal (and everything consumed before it) holds
            // no invalid UTF-8
            (res.is_ok() && !old(self).cfg.utf8_lossy) ==> final(self).utf8_clean(),
            // every error is made by Parser::error: positioned inside the input (C20)
            res.is_err() ==> err_ok(res->Err_0, old(self).read.data()),
//@end
}

//@extract file=src/parser.rs enum=Reference
pub open spec fn ref_bytes<'b, 'c>(r: Reference<'b, 'c, str>) -> Seq<u8> {
    match r { Reference::Borrowed(t) => str_bytes(t), Reference::Copied(t) => str_bytes(t) }
}
// String::from_utf8_lossy(..).into_owned() / String::into_bytes / error constructor (std, src/error.rs): opaque
#[verifier::external_body]
pub fn lossy_string(b: &[u8]) -> (r: String) { unimplemented!() }
#[verifier::external_body]
pub fn string_into_bytes(s: String) -> (r: Vec<u8>) { unimplemented!() }
#[verifier::external_body]
pub fn invalid_utf8_err(json: &[u8], index: usize) -> (e: Error) requires index <= json@.len(), ensures e.has_pos, e.off == index, { unimplemented!() }

} // verus!
fn main() {}
