// Verus unit `strings` (C09): the borrow-or-copy decoder's scanning half (parse_string_raw) and the
// \u escape decoder (parse_escaped_utf8) on the checked reader.
use vstd::prelude::*;
use vstd::string::StringSliceAdditionalSpecFns;
verus! {
//@include specs/prelude.rs
//@include specs/json_number.rs
//@include specs/json_grammar.rs
//@include units/frag_parser.vt.rs

//@extract file=src/parser.rs enum=ParsedSlice
//@subst /pub\(crate\) enum/ => pub enum
//@end

// ---- 32-lane block classification (src/util/string.rs). Contracts proved by Kani:
//   string_block_new_lanes (masks == lane classes, pairwise disjoint), string_block_classification_all,
//   bitmask_before_u32_all.
pub struct StringBlock { pub bs_bits: u32, pub quote_bits: u32, pub unescaped_bits: u32 }
pub open spec fn tz32(m: u32) -> int { vstd::std_specs::bits::u32_trailing_zeros(m) as int }
impl StringBlock {
    pub const LANES: usize = 32;
    #[verifier::external_body]
    pub fn new(v: &u8x32) -> (b: Self)
        requires v.lanes.len() == 32,
        ensures
            forall|i: int| 0 <= i < 32 ==> #[trigger] bit32(b.bs_bits, i) == (v.lanes[i] == 0x5c),
            forall|i: int| 0 <= i < 32 ==> #[trigger] bit32(b.quote_bits, i) == (v.lanes[i] == 0x22),
            forall|i: int| 0 <= i < 32 ==> #[trigger] bit32(b.unescaped_bits, i) == (v.lanes[i] <= 0x1f),
    { unimplemented!() }
    #[verifier::external_body]
    pub fn has_unescaped(&self) -> (r: bool) ensures r == (tz32(self.unescaped_bits) < tz32(self.quote_bits)) { unimplemented!() }
    #[verifier::external_body]
    pub fn has_quote_first(&self) -> (r: bool)
        ensures r == (tz32(self.quote_bits) < tz32(self.bs_bits) && !(tz32(self.unescaped_bits) < tz32(self.quote_bits)))
    { unimplemented!() }
    #[verifier::external_body]
    pub fn has_backslash(&self) -> (r: bool) ensures r == (tz32(self.bs_bits) < tz32(self.quote_bits)) { unimplemented!() }
    #[verifier::external_body]
    pub fn quote_index(&self) -> (r: usize) ensures r == tz32(self.quote_bits) { unimplemented!() }
    #[verifier::external_body]
    pub fn bs_index(&self) -> (r: usize) ensures r == tz32(self.bs_bits) { unimplemented!() }
    #[verifier::external_body]
    pub fn unescaped_index(&self) -> (r: usize) ensures r == tz32(self.unescaped_bits) { unimplemented!() }
}
// substitution target for `unsafe { load(chunk.as_ptr()) }` (raw pointer load of LANES bytes)
#[verifier::external_body]
pub fn load_block(chunk: &[u8]) -> (v: u8x32)
    requires chunk@.len() >= 32,
    ensures v.lanes == chunk@.subrange(0, 32),
{ unimplemented!() }
// substitution target for `buf.extend_from_slice(..)` of the scanned prefix (Vec growth is T4)
#[verifier::external_body]
pub fn vec_extend(buf: &mut Vec<u8>, s: &[u8])
    ensures final(buf)@ == old(buf)@ + s@,
{ buf.extend_from_slice(s) }

pub proof fn lemma_tz32_zero()
    ensures tz32(0u32) == 32,
{
    vstd::std_specs::bits::axiom_u32_trailing_zeros(0u32);
}
pub proof fn lemma_tz32_facts(m: u32)
    ensures 0 <= tz32(m) <= 32, m == 0 <==> tz32(m) == 32,
        m != 0 ==> bit32(m, tz32(m)) && forall|j: int| 0 <= j < tz32(m) ==> !bit32(m, j),
        m == 0 ==> forall|j: int| 0 <= j < 32 ==> !bit32(m, j),
{
    vstd::std_specs::bits::axiom_u32_trailing_zeros(m);
    if m != 0 { lemma_tz32(m); } else {
        assert forall|j: int| 0 <= j < 32 implies !bit32(m, j) by { lemma_zero32(j as u32); }
    }
}

impl<'de, R: Reader<'de>> Parser<R> {
    // the copying half (raw writes into Vec spare capacity: unsafe, outside Verus): assumed acceptance contract
    #[verifier::external_body]
    pub unsafe fn parse_string_escaped<'own>(&mut self, buf: &'own mut Vec<u8>) -> (res: Result<ParsedSlice<'de, 'own>>)
        requires old(self).pinv(), old(self).read.idx() >= 1, old(self).read.data()[old(self).read.idx() - 1] == 0x5c,
        ensures final(self).pinv(), final(self).same_doc(old(self)),
            res.is_ok() ==> res.unwrap() is Copied
                && str_end(old(self).read.data(), old(self).read.idx() - 1) == Some(final(self).read.idx() as int),
            str_end(old(self).read.data(), old(self).read.idx() - 1).is_none() ==> res.is_err(),
    { unimplemented!() }

//@extract file=src/parser.rs impl="Parser<R>" fn=parse_string_raw
//@attr
    #[verifier::loop_isolation(false)]
//@subst /unsafe \{ load\(chunk\.as_ptr\(\)\) \}/ => load_block(chunk)
//@subst /buf\.extend_from_slice\(&self\.read\.as_u8_slice\(\)\[start\.\.self\.read\.index\(\) - 1\]\)/ => vec_extend(buf, self.read.slice_unchecked(start, self.read.index() - 1))
//@subst /buf\.extend_from_slice\(self\.read\.slice_unchecked\(start, self\.read\.index\(\)\)\)/ => vec_extend(buf, self.read.slice_unchecked(start, self.read.index()))
//@sig
        requires old(self).pinv(),
        ensures final(self).pinv(), final(self).same_doc(old(self)),
            // acceptance: only grammar-valid literals are accepted, and the reader ends just after the closing quote
            res.is_ok() ==> str_end(old(self).read.data(), old(self).read.idx() as int) == Some(final(self).read.idx() as int),
            str_end(old(self).read.data(), old(self).read.idx() as int).is_none() ==> res.is_err(),
            // "borrowed from the input when and only when it contains no escape":
            res.is_ok() ==> ((res.unwrap() is Borrowed) <==> !has_bs(old(self).read.data(), old(self).read.idx() as int, final(self).read.idx() as int)),
            // a borrowed result is exactly the bytes between the quotes
            (res.is_ok() && res.unwrap() is Borrowed) ==> res.unwrap()->slice@ == old(self).read.data().subrange(old(self).read.idx() as int, final(self).read.idx() - 1),
            // an escape-free literal is never rejected for any other reason than the grammar
            (str_end(old(self).read.data(), old(self).read.idx() as int).is_some()
                && !has_bs(old(self).read.data(), old(self).read.idx() as int, str_end(old(self).read.data(), old(self).read.idx() as int).unwrap())) ==> res.is_ok(),
//@after /let start = self.read.index\(\);/
        let ghost s = self.read.data();
        let ghost i0 = start as int;
//@loop 1
            invariant self.pinv(), self.same_doc(old(self)), i0 <= self.read.idx(), start == i0, i0 == old(self).read.idx(),
                str_end(s, i0) == str_end(s, self.read.idx() as int),
                !has_bs(s, i0, self.read.idx() as int),
                forall|j: int| i0 <= j < self.read.idx() ==> plain_char(#[trigger] s[j]),
            decreases s.len() - self.read.idx(),
//@after /block = StringBlock::new\(&v\);/
            let ghost base = self.read.idx() as int;
            proof {
                lemma_tz32_facts(block.bs_bits); lemma_tz32_facts(block.quote_bits); lemma_tz32_facts(block.unescaped_bits);
                assert forall|j: int| 0 <= j < 32 implies v.lanes[j] == s[base + j] by { assert(chunk@[j] == s[base + j]); }
            }
//@after /let cnt = block\.quote_index\(\);/
                proof {
                    // quote first: everything before it in the block is plain
                    assert forall|j: int| base <= j < base + cnt implies plain_char(#[trigger] s[j]) by {
                        assert(!bit32(block.quote_bits, j - base));
                        assert(!bit32(block.bs_bits, j - base));
                        assert(!bit32(block.unescaped_bits, j - base));
                    }
                    assert(s[base + cnt] == 0x22) by { assert(bit32(block.quote_bits, cnt as int)); }
                    lemma_plain_run(s, base, cnt as int);
                    lemma_has_bs_extend(s, i0, base, base + cnt + 1);
                }
//@before /self\.read\.eat\(block\.unescaped_index\(\)\);/
                proof {
                    let u = tz32(block.unescaped_bits);
                    assert forall|j: int| base <= j < base + u implies plain_char(#[trigger] s[j]) by {
                        assert(!bit32(block.quote_bits, j - base));
                        assert(!bit32(block.unescaped_bits, j - base));
                        assert(!bit32(block.bs_bits, j - base));
                    }
                    assert(s[base + u] <= 0x1f) by { assert(bit32(block.unescaped_bits, u)); }
                    lemma_plain_run(s, base, u);
                }
//@after /let cnt = block\.bs_index\(\);/
                proof {
                    assert forall|j: int| base <= j < base + cnt implies plain_char(#[trigger] s[j]) by {
                        assert(!bit32(block.quote_bits, j - base));
                        assert(!bit32(block.bs_bits, j - base));
                        assert(!bit32(block.unescaped_bits, j - base));
                    }
                    assert(s[base + cnt] == 0x5c) by { assert(bit32(block.bs_bits, cnt as int)); }
                    lemma_plain_run(s, base, cnt as int);
                }
//@before /self\.read\.eat\(StringBlock::LANES\);/
            proof {
                assert forall|j: int| base <= j < base + 32 implies plain_char(#[trigger] s[j]) by {
                    assert(!bit32(block.quote_bits, j - base));
                    assert(!bit32(block.bs_bits, j - base));
                    assert(!bit32(block.unescaped_bits, j - base));
                }
                lemma_plain_run(s, base, 32);
                lemma_has_bs_extend(s, i0, base, base + 32);
            }
//@loop 2
            invariant self.pinv(), self.same_doc(old(self)), i0 <= self.read.idx(), start == i0, i0 == old(self).read.idx(),
                str_end(s, i0) == str_end(s, self.read.idx() as int),
                !has_bs(s, i0, self.read.idx() as int),
                forall|j: int| i0 <= j < self.read.idx() ==> plain_char(#[trigger] s[j]),
            decreases s.len() - self.read.idx(),
//@end
}

} // verus!
fn main() {}
