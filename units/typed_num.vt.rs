// Verus unit `typed_num` (C04, C01): the numeric half of typed deserialization —
//   * Parser::parse_number, the index arithmetic around sonic_number::parse_number (whose contract is proved in unit
//     `number` and restated here): the number is read from its first byte (the sign when there is one) and the reader
//     ends exactly where the number ends;
//   * Deserializer::deserialize_number, the entry behind deserialize_i8 … deserialize_f64;
//   * the map-key deserializer MapKey (keys are quoted): numeric keys (both arms of `deserialize_numeric_key!`,
//     instantiated mechanically: //@extract macro= arm=), bool keys, and the `backward(1)` re-positioning of
//     enum / bytes keys. serde_json's reference behaviour: a numeric key is a quote, a JSON number that starts with a
//     digit or `-` RIGHT AFTER the quote (no whitespace), and a quote.
// Declared substitutions: `ret.map_err(|err| self.error(err.into()))` -> the equal `match` (closures capturing
// `&mut self` are outside Verus); `(!neg as usize)` -> `if`-expression; in scan_integer128 the guarded arm
// `Some(c) if c.is_ascii_digit()` -> the equal range pattern `Some(c @ b'0'..=b'9')` (R8: this Verus build havocs the
// state after a guarded arm that mutates and falls through; `u8::is_ascii_digit` is that range by definition) and
// the local `int` -> `int_` (a Verus type name); `buf.parse()` -> opaque `parse_i128` / `parse_u128`; `buf.push(..)` -> opaque `string_push` (the digit buffer's content is not specified here); `self.peek_invalid_type(peek, &visitor)` ->
// `self.peek_invalid_type_v(peek)` (the `&dyn Expected` only feeds the message); functions are re-hosted on inherent
// impls; `c @ b'-' | c @ b'0'..=b'9'` is kept.
use vstd::prelude::*;
use vstd::string::StringSliceAdditionalSpecFns;
verus! {
//@include specs/prelude.rs
//@include specs/json_number.rs
//@include specs/json_grammar.rs
//@include units/frag_parser.vt.rs
//@include units/frag_space.vt.rs
//@include units/frag_string.vt.rs

//@extract file=src/serde/de.rs macro=tri
#[verifier::external_body]
pub struct Shared { _p: core::marker::PhantomData<()> }
use std::sync::Arc;
//@extract file=src/serde/de.rs struct=Deserializer
//@subst /pub\(crate\) parser:/ => pub parser:
//@subst /(?m)^    (scratch|remaining_depth|shared):/ => pub \1: #all
//@end
//@extract file=sonic-number/src/lib.rs enum=ParserNumber
#[derive(Debug)]
pub struct NumError { pub finite: bool }

/// stand-in for serde::de::Visitor: deterministic callbacks
pub trait Visitor<'de>: Sized {
    type Value;
    spec fn on_bool(&self, b: bool) -> Result<Self::Value>;
    spec fn on_u64(&self, v: u64) -> Result<Self::Value>;
    spec fn on_i64(&self, v: i64) -> Result<Self::Value>;
    spec fn on_f64(&self, v: f64) -> Result<Self::Value>;
    fn visit_bool(self, v: bool) -> (r: Result<Self::Value>) ensures r == self.on_bool(v);
    fn visit_u64(self, v: u64) -> (r: Result<Self::Value>) ensures r == self.on_u64(v);
    fn visit_i64(self, v: i64) -> (r: Result<Self::Value>) ensures r == self.on_i64(v);
    fn visit_f64(self, v: f64) -> (r: Result<Self::Value>) ensures r == self.on_f64(v);
    spec fn on_i128(&self, v: i128) -> Result<Self::Value>;
    spec fn on_u128(&self, v: u128) -> Result<Self::Value>;
    fn visit_i128(self, v: i128) -> (r: Result<Self::Value>) ensures r == self.on_i128(v);
    fn visit_u128(self, v: u128) -> (r: Result<Self::Value>) ensures r == self.on_u128(v);
}

// ---- exact integers: what a number text that is a plain integer in range denotes
pub open spec fn num_digits_start(s: Seq<u8>, p: int) -> int { if at(s, p, 0x2d) { p + 1 } else { p } }
pub open spec fn int_val(s: Seq<u8>, p: int) -> int { let d = num_digits_start(s, p); dec_val(s, d, digits_end(s, d)) }
/// the number starting at p (sign included) is a plain integer that fits: u64 when unsigned, i64 (and not `-0`) when signed
pub open spec fn exact_int(s: Seq<u8>, p: int) -> bool {
    let d = num_digits_start(s, p);
    is_plain_int(s, d) && (if at(s, p, 0x2d) { 0 < int_val(s, p) <= 0x8000_0000_0000_0000 } else { int_val(s, p) <= 0xffff_ffff_ffff_ffff })
}
pub open spec fn int_denotes(s: Seq<u8>, p: int, n: ParserNumber) -> bool {
    if at(s, p, 0x2d) { n is Signed && n->Signed_0 == -int_val(s, p) } else { n is Unsigned && n->Unsigned_0 == int_val(s, p) }
}

// sonic_number::parse_number: proved in unit `number` (acceptance == lenient_end, end offset, exact integers); restated
#[verifier::external_body]
pub fn parse_number(data: &[u8], index: &mut usize, negative: bool) -> (res: core::result::Result<ParserNumber, NumError>)
    requires *old(index) <= data@.len(), data@.len() <= 0x1fff_ffff,
    ensures
        res.is_ok() ==> lenient_end(data@, *old(index) as int) == Some(*final(index) as int),
        lenient_end(data@, *old(index) as int).is_none() ==> res.is_err(),
        *old(index) <= *final(index) <= data@.len(),
        is_plain_int(data@, *old(index) as int) ==> ({
            let v = dec_val(data@, *old(index) as int, digits_end(data@, *old(index) as int));
            &&& (!negative && v <= 0xffff_ffff_ffff_ffff ==> res.is_ok() && res.unwrap() is Unsigned && res.unwrap()->Unsigned_0 == v)
            &&& (negative && 0 < v <= 0x8000_0000_0000_0000 ==> res.is_ok() && res.unwrap() is Signed && res.unwrap()->Signed_0 == -v)
        }),
{ unimplemented!() }
// ---- the digit buffer of the 128-bit path: a String that only ever receives ASCII bytes; its content as bytes
pub uninterp spec fn sview(s: String) -> Seq<u8>;
// String::new / String::push of an ASCII byte (std): assumed to do what they say
#[verifier::external_body]
pub fn string_new() -> (r: String) ensures sview(r) == Seq::<u8>::empty(), { unimplemented!() }
#[verifier::external_body]
pub fn string_push(buf: &mut String, c: u8) ensures sview(*final(buf)) == sview(*old(buf)).push(c), { unimplemented!() }
/// an optional `-` and then at least one digit, nothing else
pub open spec fn int_text(v: Seq<u8>) -> bool {
    let k: int = if v.len() > 0 && v[0] == 0x2d { 1 } else { 0 };
    k < v.len() && forall|j: int| k <= j < v.len() ==> is_digit(#[trigger] v[j])
}
pub open spec fn int_text_val(v: Seq<u8>) -> int {
    if v.len() > 0 && v[0] == 0x2d { -dec_val(v, 1, v.len() as int) } else { dec_val(v, 0, v.len() as int) }
}
// str::parse::<i128> / ::<u128> (std) on such a text: the decimal value when it fits, an error otherwise (assumed)
#[verifier::external_body]
pub fn parse_i128(buf: &String) -> (r: core::result::Result<i128, ()>)
    ensures int_text(sview(*buf)) ==> (r.is_ok() <==> -0x8000_0000_0000_0000_0000_0000_0000_0000 <= int_text_val(sview(*buf)) <= 0x7fff_ffff_ffff_ffff_ffff_ffff_ffff_ffff)
        && (r.is_ok() ==> r.unwrap() == int_text_val(sview(*buf))),
{ unimplemented!() }
#[verifier::external_body]
pub fn parse_u128(buf: &String) -> (r: core::result::Result<u128, ()>)
    ensures int_text(sview(*buf)) ==> (r.is_ok() <==> 0 <= int_text_val(sview(*buf)) <= 0xffff_ffff_ffff_ffff_ffff_ffff_ffff_ffff)
        && (r.is_ok() ==> r.unwrap() == int_text_val(sview(*buf))),
{ unimplemented!() }
// every byte of a digit run is a digit
pub proof fn lemma_digits_all(s: Seq<u8>, i: int)
    requires 0 <= i <= s.len(),
    ensures forall|j: int| i <= j < digits_end(s, i) ==> is_digit(#[trigger] s[j]),
    decreases s.len() - i
{
    if i < s.len() && is_digit(s[i]) { lemma_digits_all(s, i + 1); }
}
pub proof fn lemma_dec_val_nonneg(s: Seq<u8>, a: int, b: int)
    requires 0 <= a <= b <= s.len(), forall|j: int| a <= j < b ==> is_digit(#[trigger] s[j]),
    ensures dec_val(s, a, b) >= 0,
    decreases b - a
{
    if b > a { lemma_dec_val_nonneg(s, a, b - 1); }
}
// dec_val only looks at the digits it is given
pub proof fn lemma_dec_val_shift(a: Seq<u8>, a0: int, b: Seq<u8>, b0: int, n: int)
    requires 0 <= n, 0 <= a0, a0 + n <= a.len(), 0 <= b0, b0 + n <= b.len(), forall|j: int| 0 <= j < n ==> #[trigger] a[a0 + j] == b[b0 + j],
    ensures dec_val(a, a0, a0 + n) == dec_val(b, b0, b0 + n),
    decreases n
{
    if n > 0 { lemma_dec_val_shift(a, a0, b, b0, n - 1); assert(a[a0 + (n - 1)] == b[b0 + (n - 1)]); }
}
/// the integer literal of the 128-bit path at d (first digit): `0` not followed by a digit, or a run without leading zero
pub open spec fn int128_lit(s: Seq<u8>, d: int) -> bool { dig_at(s, d) && (s[d] == 0x30 ==> !dig_at(s, d + 1)) }
pub open spec fn int128_end(s: Seq<u8>, d: int) -> int { if s[d] == 0x30 { d + 1 } else { digits_end(s, d) } }
// `err.into()`: sonic_number::Error -> ErrorCode (a two-armed match, src/error.rs)
#[verifier::external_body]
pub fn num_err_into(e: NumError) -> (c: ErrorCode) { unimplemented!() }

impl<'de, R: Reader<'de>> Parser<R> {
//@extract file=src/parser.rs impl="Parser<R>" fn=parse_number
//@subst? /\(!neg as usize\)/ => (if !neg { 1usize } else { 0usize })
//@subst /ret\.map_err\(\|err\| self\.error\(err\.into\(\)\)\)/ => match ret { Ok(v) => Ok(v), Err(err) => Err(self.error(num_err_into(err))) }
//@sig
        requires old(self).pinv(), old(self).read.idx() >= 1, first == old(self).read.data()[old(self).read.idx() - 1],
            first == 0x2d || is_digit(first), old(self).read.data().len() <= 0x1fff_ffff,
            // the reader is moved BACK by one for an unsigned number: the whitespace cache must not start after that
            // byte (it never does: the byte was found by skip_space, whose contract says so)
            old(self).nospace_start == -128 || old(self).nospace_start <= old(self).read.idx() - 1,
        ensures final(self).pinv(), final(self).same_doc(old(self)), final(self).same_cache(old(self)),
            final(self).read.idx() >= old(self).read.idx() - 1,
            // the number is read from its FIRST byte (sign included) and the reader ends exactly at its end
            res.is_ok() ==> number_end_l(old(self).read.data(), old(self).read.idx() - 1) == Some(final(self).read.idx() as int),
            number_end_l(old(self).read.data(), old(self).read.idx() - 1).is_none() ==> res.is_err(),
            // a plain integer in range is never rejected and denotes its value (a sign is part of the number)
            exact_int(old(self).read.data(), old(self).read.idx() - 1) ==> res.is_ok() && int_denotes(old(self).read.data(), old(self).read.idx() - 1, res.unwrap()),
//@end

    // fix_position only rewrites the position of an error (unit `errors`)
    #[verifier::external_body]
    pub fn fix_position(&self, err: Error) -> (e: Error) { unimplemented!() }
}

//@extract file=src/serde/de.rs fn=visit_number
//@subst /V: de::Visitor<'de>,/ => V: Visitor<'de>,
//@sig
    ensures res == (match *num { ParserNumber::Float(x) => visitor.on_f64(x), ParserNumber::Unsigned(x) => visitor.on_u64(x), ParserNumber::Signed(x) => visitor.on_i64(x) }),
//@end

impl<'de, R: Reader<'de>> Deserializer<R> {
    #[verifier::external_body]
    pub fn peek_invalid_type_v(&mut self, peek: u8) -> (e: Error)
        // Parser::peek_invalid_type, proved in unit `typed_err`: it may step back one byte (onto `[` / `{`), and the
        // error it returns is positioned inside the input
        requires old(self).parser.pinv(), old(self).parser.read.idx() >= 1, peek == old(self).parser.read.data()[old(self).parser.read.idx() - 1],
            old(self).parser.nospace_start == -128 || old(self).parser.nospace_start <= old(self).parser.read.idx() - 1,
        ensures final(self).parser.pinv(), final(self).parser.same_doc(&old(self).parser), err_ok(e, old(self).parser.read.data()),
    { unimplemented!() }

    // the value-position entry points a key is handed to after stepping back onto its opening quote (unit `typed_de`)
    #[verifier::external_body]
    pub fn deserialize_enum<V: Visitor<'de>>(&mut self, name: &'static str, variants: &'static [&'static str], visitor: V) -> (res: Result<V::Value>)
        requires old(self).parser.pinv(),
        ensures final(self).parser.pinv(), final(self).parser.same_doc(&old(self).parser),
    { unimplemented!() }
    #[verifier::external_body]
    pub fn deserialize_bytes<V: Visitor<'de>>(&mut self, visitor: V) -> (res: Result<V::Value>)
        requires old(self).parser.pinv(),
        ensures final(self).parser.pinv(), final(self).parser.same_doc(&old(self).parser),
    { unimplemented!() }

//@extract file=src/serde/de.rs impl="Deserializer<R>" fn=scan_integer128
//@subst /Some\(c\) if c\.is_ascii_digit\(\) =>/ => Some(c @ b'0'..=b'9') =>
//@subst /buf\.push\('0'\)/ => string_push(buf, 0x30u8)
//@subst /buf\.push\(c as char\)/ => string_push(buf, c) #all
//@sig
        requires old(self).parser.pinv(),
        ensures final(self).parser.pinv(), final(self).parser.same_doc(&old(self).parser),
            // a 128-bit integer literal: `0` not followed by a digit, or a digit run without leading zero; the reader
            // ends right after it (sign handled by the caller; fraction / exponent are left for the trailing check);
            // exactly its digits are appended to the buffer
            ({
                let s = old(self).parser.read.data();
                let i = old(self).parser.read.idx() as int;
                &&& (res.is_ok() <==> int128_lit(s, i))
                &&& (res.is_ok() ==> final(self).parser.read.idx() == int128_end(s, i)
                        && sview(*final(buf)) == sview(*old(buf)) + s.subrange(i, int128_end(s, i)))
            }),
//@body
        let ghost s = self.parser.read.data();
        let ghost i0 = self.parser.read.idx() as int;
        let ghost v0 = sview(*buf);
        proof { if i0 < s.len() { lemma_digits_end_bounds(s, i0); assert(s.subrange(i0, i0 + 1) =~= seq![s[i0]]); assert(v0.push(s[i0]) =~= v0 + seq![s[i0]]); } }
//@loop 1
                    invariant self.parser.pinv(), self.parser.same_doc(&old(self).parser), s == self.parser.read.data(), i0 == old(self).parser.read.idx(),
                        i0 < self.parser.read.idx() <= s.len(),
                        digits_end(s, i0) == digits_end(s, self.parser.read.idx() as int),
                        sview(*buf) == v0 + s.subrange(i0, self.parser.read.idx() as int),
                    ensures !dig_at(s, self.parser.read.idx() as int),
                        self.parser.pinv(), self.parser.same_doc(&old(self).parser), i0 < self.parser.read.idx() <= s.len(),
                        digits_end(s, i0) == digits_end(s, self.parser.read.idx() as int),
                        sview(*buf) == v0 + s.subrange(i0, self.parser.read.idx() as int),
                    decreases s.len() - self.parser.read.idx(),
//@after /^\s+buf\.push\(c as char\);/ #2
                    proof {
                        let k = self.parser.read.idx() as int;
                        assert(s.subrange(i0, k) =~= s.subrange(i0, k - 1).push(s[k - 1]));
                        assert((v0 + s.subrange(i0, k - 1)).push(s[k - 1]) =~= v0 + s.subrange(i0, k));
                    }
//@end

    /// what deserialize_i128 / deserialize_u128 read from p (first non-whitespace byte) on: an optional `-` (signed only)
    /// and the integer literal; its value
    pub open spec fn i128_text_ok(s: Seq<u8>, p: int, signed: bool) -> bool {
        let d = if signed && at(s, p, 0x2d) { p + 1 } else { p };
        int128_lit(s, d)
    }
    pub open spec fn i128_text_end(s: Seq<u8>, p: int, signed: bool) -> int {
        let d = if signed && at(s, p, 0x2d) { p + 1 } else { p };
        int128_end(s, d)
    }
    pub open spec fn i128_text_val(s: Seq<u8>, p: int, signed: bool) -> int {
        let d = if signed && at(s, p, 0x2d) { p + 1 } else { p };
        if signed && at(s, p, 0x2d) { -dec_val(s, d, int128_end(s, d)) } else { dec_val(s, d, int128_end(s, d)) }
    }
    // the buffer built from `-`? and the literal's digits denotes the literal's value
    pub proof fn lemma_buf_val(s: Seq<u8>, p: int, signed: bool, v: Seq<u8>)
        requires 0 <= p < s.len(), Self::i128_text_ok(s, p, signed),
            v == (if signed && at(s, p, 0x2d) { seq![0x2du8] } else { Seq::<u8>::empty() })
                + s.subrange(if signed && at(s, p, 0x2d) { p + 1 } else { p }, Self::i128_text_end(s, p, signed)),
        ensures int_text(v), int_text_val(v) == Self::i128_text_val(s, p, signed),
    {
        let neg = signed && at(s, p, 0x2d);
        let d = if neg { p + 1 } else { p };
        let e = int128_end(s, d);
        lemma_digits_end_bounds(s, d);
        lemma_digits_all(s, d);
        let k: int = if neg { 1 } else { 0 };
        assert(v.len() == k + (e - d));
        assert forall|j: int| k <= j < v.len() implies is_digit(#[trigger] v[j]) by { assert(v[j] == s[d + (j - k)]); }
        assert(neg ==> v[0] == 0x2d);
        assert(!neg ==> v[0] == s[d]);
        lemma_dec_val_shift(v, k, s, d, e - d);
    }

//@extract file=src/serde/de.rs impl="de::Deserializer<'de> for &'a mut Deserializer<R>" fn=deserialize_i128
//@subst /fn deserialize_i128<V>\(self,/ => fn deserialize_i128<V>(&mut self,
//@subst /let mut buf = String::new\(\);/ => let mut buf = string_new();
//@subst /buf\.push\('-'\)/ => string_push(&mut buf, 0x2du8)
//@subst /match buf\.parse\(\) \{/ => match parse_i128(&buf) {
//@subst /Ok\(int\) => visitor\.visit_i128\(int\),/ => Ok(int_) => visitor.visit_i128(int_),
//@subst /V: de::Visitor<'de>,/ => V: Visitor<'de>,
//@sig
        requires old(self).parser.pinv(),
        ensures final(self).parser.pinv(), final(self).parser.same_doc(&old(self).parser),
            ({
                let s = old(self).parser.read.data();
                let p = ws_end(s, old(self).parser.read.idx() as int);
                let val = Self::i128_text_val(s, p, true);
                let fits = -0x8000_0000_0000_0000_0000_0000_0000_0000 <= val <= 0x7fff_ffff_ffff_ffff_ffff_ffff_ffff_ffff;
                // optional whitespace, an optional `-`, an integer literal without leading zero that fits i128; nothing
                // more is read, and the visitor gets exactly its value
                &&& (res.is_ok() ==> p < s.len() && Self::i128_text_ok(s, p, true) && fits
                        && final(self).parser.read.idx() == Self::i128_text_end(s, p, true) && res == visitor.on_i128(val as i128))
                // and every such literal is accepted
                &&& (p < s.len() && Self::i128_text_ok(s, p, true) && fits && visitor.on_i128(val as i128).is_ok() ==> res == visitor.on_i128(val as i128))
            }),
//@body
        proof { lemma_ws_end_bounds(self.parser.read.data(), self.parser.read.idx() as int); }
        let ghost s = self.parser.read.data();
        let ghost p = ws_end(s, self.parser.read.idx() as int);
//@before /let value = match/
        proof { Self::lemma_buf_val(s, p, true, sview(buf)); }
//@end

//@extract file=src/serde/de.rs impl="de::Deserializer<'de> for &'a mut Deserializer<R>" fn=deserialize_u128
//@subst /fn deserialize_u128<V>\(self,/ => fn deserialize_u128<V>(&mut self,
//@subst /let mut buf = String::new\(\);/ => let mut buf = string_new();
//@subst /match buf\.parse\(\) \{/ => match parse_u128(&buf) {
//@subst /Ok\(int\) => visitor\.visit_u128\(int\),/ => Ok(int_) => visitor.visit_u128(int_),
//@subst /V: de::Visitor<'de>,/ => V: Visitor<'de>,
//@sig
        requires old(self).parser.pinv(),
        ensures final(self).parser.pinv(), final(self).parser.same_doc(&old(self).parser),
            ({
                let s = old(self).parser.read.data();
                let p = ws_end(s, old(self).parser.read.idx() as int);
                let val = Self::i128_text_val(s, p, false);
                let fits = val <= 0xffff_ffff_ffff_ffff_ffff_ffff_ffff_ffff;
                // optional whitespace, then an unsigned integer literal without leading zero that fits u128
                &&& (res.is_ok() ==> p < s.len() && Self::i128_text_ok(s, p, false) && fits
                        && final(self).parser.read.idx() == Self::i128_text_end(s, p, false) && res == visitor.on_u128(val as u128))
                &&& (p < s.len() && Self::i128_text_ok(s, p, false) && fits && visitor.on_u128(val as u128).is_ok() ==> res == visitor.on_u128(val as u128))
            }),
//@body
        proof { lemma_ws_end_bounds(self.parser.read.data(), self.parser.read.idx() as int); }
        let ghost s = self.parser.read.data();
        let ghost p = ws_end(s, self.parser.read.idx() as int);
//@before /let value = match/
        proof { Self::lemma_buf_val(s, p, false, sview(buf)); Self::lemma_val_nonneg(s, p); }
//@end

    pub proof fn lemma_val_nonneg(s: Seq<u8>, p: int)
        requires 0 <= p < s.len(), Self::i128_text_ok(s, p, false),
        ensures Self::i128_text_val(s, p, false) >= 0,
    {
        lemma_digits_end_bounds(s, p);
        lemma_digits_all(s, p);
        lemma_dec_val_nonneg(s, p, int128_end(s, p));
    }

//@extract file=src/serde/de.rs impl="Deserializer<R>" fn=deserialize_number
//@subst /self\.peek_invalid_type\(peek, &visitor\)/ => self.peek_invalid_type_v(peek)
//@subst /V: de::Visitor<'de>,/ => V: Visitor<'de>,
//@sig
        requires old(self).parser.pinv(), old(self).parser.read.data().len() <= 0x1fff_ffff,
        ensures final(self).parser.pinv(), final(self).parser.same_doc(&old(self).parser),
            // a number, after optional whitespace; the reader ends exactly at its end
            res.is_ok() ==> ({
                let s = old(self).parser.read.data();
                let p = ws_end(s, old(self).parser.read.idx() as int);
                p < s.len() && (s[p] == 0x2d || is_digit(s[p])) && number_end_l(s, p) == Some(final(self).parser.read.idx() as int)
            }),
            // a plain integer in range reaches the visitor with exactly its value
            ({
                let s = old(self).parser.read.data();
                let p = ws_end(s, old(self).parser.read.idx() as int);
                exact_int(s, p) && int_call(visitor, s, p).is_ok() ==> res == int_call(visitor, s, p)
            }),
//@body
        proof { lemma_ws_end_bounds(self.parser.read.data(), self.parser.read.idx() as int); }
//@end
}

//@extract file=src/serde/de.rs struct=MapKey
//@subst /(?m)^struct MapKey/ => pub struct MapKey
//@subst /(?m)^    de:/ => pub de:
//@end

/// the callback a plain integer in range makes
pub open spec fn int_call<'de, V: Visitor<'de>>(visitor: V, s: Seq<u8>, p: int) -> Result<V::Value> {
    if at(s, p, 0x2d) { visitor.on_i64((-int_val(s, p)) as i64) } else { visitor.on_u64(int_val(s, p) as u64) }
}

/// a numeric key in quotes, the reader standing right after the opening quote: a number that starts HERE (serde_json
/// rejects `" 1"`: "expected key to be a number in quotes") and the closing quote right after it
pub open spec fn numeric_key_end(s: Seq<u8>, i: int) -> Option<int> {
    if 0 <= i < s.len() && (s[i] == 0x2d || is_digit(s[i])) && number_end_l(s, i).is_some() && at(s, number_end_l(s, i).unwrap(), 0x22) {
        Some(number_end_l(s, i).unwrap() + 1)
    } else { None }
}

impl<'de, 'a, R: Reader<'de>> MapKey<'a, R> {
    #[verifier::prophetic]
    pub open spec fn fut(&self) -> Deserializer<R> { mut_ref_future(self.de) }
    pub open spec fn cur(&self) -> Deserializer<R> { *self.de }
//@extract file=src/serde/de.rs macro=deserialize_numeric_key arm=2
//@subst /\$method/ => deserialize_i64
//@subst /\$delegate/ => deserialize_number
//@subst /V: de::Visitor<'de>,/ => V: Visitor<'de>,
//@sig
        requires self.cur().parser.pinv(), self.cur().parser.read.data().len() <= 0x1fff_ffff,
        ensures self.fut().parser.pinv(), self.fut().parser.same_doc(&self.cur().parser),
            res.is_ok() ==> numeric_key_end(self.cur().parser.read.data(), self.cur().parser.read.idx() as int)
                == Some(self.fut().parser.read.idx() as int),
            // an in-range integer key followed by the quote reaches the visitor with its value
            ({
                let s = self.cur().parser.read.data();
                let i = self.cur().parser.read.idx() as int;
                numeric_key_end(s, i).is_some() && exact_int(s, i) && int_call(visitor, s, i).is_ok() ==> res == int_call(visitor, s, i)
            }),
//@body
        proof { lemma_ws_end_at_nonws(self.cur().parser.read.data(), self.cur().parser.read.idx() as int); }
//@end

//@extract file=src/serde/de.rs macro=deserialize_numeric_key arm=2 call=deserialize_i128
//@subst /V: de::Visitor<'de>,/ => V: Visitor<'de>,
//@sig
        requires self.cur().parser.pinv(),
        ensures self.fut().parser.pinv(), self.fut().parser.same_doc(&self.cur().parser),
            // an i128 key (the arm as the library really instantiates it): right after the opening quote an optional `-`
            // and an integer literal that fits, then the closing quote; the visitor gets exactly its value — and every
            // such key is accepted
            ({
                let s = self.cur().parser.read.data();
                let i = self.cur().parser.read.idx() as int;
                let val = Deserializer::<R>::i128_text_val(s, i, true);
                let fits = -0x8000_0000_0000_0000_0000_0000_0000_0000 <= val <= 0x7fff_ffff_ffff_ffff_ffff_ffff_ffff_ffff;
                let good = i < s.len() && (s[i] == 0x2d || is_digit(s[i])) && Deserializer::<R>::i128_text_ok(s, i, true) && fits
                    && at(s, Deserializer::<R>::i128_text_end(s, i, true), 0x22);
                &&& (res.is_ok() ==> good && self.fut().parser.read.idx() == Deserializer::<R>::i128_text_end(s, i, true) + 1 && res == visitor.on_i128(val as i128))
                &&& (good && visitor.on_i128(val as i128).is_ok() ==> res == visitor.on_i128(val as i128))
            }),
//@body
        proof { lemma_ws_end_at_nonws(self.cur().parser.read.data(), self.cur().parser.read.idx() as int); }
//@end

//@extract file=src/serde/de.rs macro=deserialize_numeric_key arm=2 call=deserialize_u128
//@subst /V: de::Visitor<'de>,/ => V: Visitor<'de>,
//@sig
        requires self.cur().parser.pinv(),
        ensures self.fut().parser.pinv(), self.fut().parser.same_doc(&self.cur().parser),
            ({
                let s = self.cur().parser.read.data();
                let i = self.cur().parser.read.idx() as int;
                let val = Deserializer::<R>::i128_text_val(s, i, false);
                let fits = val <= 0xffff_ffff_ffff_ffff_ffff_ffff_ffff_ffff;
                // a u128 key: `-` is an error here (serde_json: the digit check passes, the number is out of range)
                let good = i < s.len() && is_digit(s[i]) && Deserializer::<R>::i128_text_ok(s, i, false) && fits
                    && at(s, Deserializer::<R>::i128_text_end(s, i, false), 0x22);
                &&& (res.is_ok() ==> good && self.fut().parser.read.idx() == Deserializer::<R>::i128_text_end(s, i, false) + 1 && res == visitor.on_u128(val as u128))
                &&& (good && visitor.on_u128(val as u128).is_ok() ==> res == visitor.on_u128(val as u128))
            }),
//@body
        proof { lemma_ws_end_at_nonws(self.cur().parser.read.data(), self.cur().parser.read.idx() as int); }
//@end

//@extract file=src/serde/de.rs macro=deserialize_numeric_key arm=1 fwd="deserialize_numeric_key!($method, deserialize_number);"
//@subst /\$method/ => deserialize_i32
//@subst /V: de::Visitor<'de>,/ => V: Visitor<'de>,
//@sig
        requires self.cur().parser.pinv(), self.cur().parser.read.data().len() <= 0x1fff_ffff,
        ensures self.fut().parser.pinv(), self.fut().parser.same_doc(&self.cur().parser),
            res.is_ok() ==> numeric_key_end(self.cur().parser.read.data(), self.cur().parser.read.idx() as int)
                == Some(self.fut().parser.read.idx() as int),
            // an in-range integer key followed by the quote reaches the visitor with its value
            ({
                let s = self.cur().parser.read.data();
                let i = self.cur().parser.read.idx() as int;
                numeric_key_end(s, i).is_some() && exact_int(s, i) && int_call(visitor, s, i).is_ok() ==> res == int_call(visitor, s, i)
            }),
//@body
        proof { lemma_ws_end_at_nonws(self.cur().parser.read.data(), self.cur().parser.read.idx() as int); }
//@end

    /// where a key deserializer stands: right after the opening quote, which skip_space found (so the whitespace cache
    /// does not start after it)
    pub open spec fn after_quote(&self) -> bool {
        let p = self.cur().parser;
        p.pinv() && p.read.idx() >= 1 && p.read.data()[p.read.idx() - 1] == 0x22 && (p.nospace_start == -128 || p.nospace_start <= p.read.idx() - 1)
    }
//@extract file=src/serde/de.rs impl="de::Deserializer<'de> for MapKey<'a, R>" fn=deserialize_enum
//@subst /V: de::Visitor<'de>,/ => V: Visitor<'de>,
//@sig
        // enum / bytes keys step back ONE byte, onto the opening quote, and run the value-position entry point there
        requires self.after_quote(),
        ensures self.fut().parser.pinv(), self.fut().parser.same_doc(&self.cur().parser),
//@end
//@extract file=src/serde/de.rs impl="de::Deserializer<'de> for MapKey<'a, R>" fn=deserialize_bytes
//@subst /V: de::Visitor<'de>,/ => V: Visitor<'de>,
//@sig
        requires self.after_quote(),
        ensures self.fut().parser.pinv(), self.fut().parser.same_doc(&self.cur().parser),
//@end
//@extract file=src/serde/de.rs impl="de::Deserializer<'de> for MapKey<'a, R>" fn=deserialize_byte_buf
//@subst /V: de::Visitor<'de>,/ => V: Visitor<'de>,
//@sig
        requires self.after_quote(),
        ensures self.fut().parser.pinv(), self.fut().parser.same_doc(&self.cur().parser),
//@end

//@extract file=src/serde/de.rs impl="de::Deserializer<'de> for MapKey<'a, R>" fn=deserialize_bool
//@subst /self\.de\.peek_invalid_type\(peek, &visitor\)/ => self.de.peek_invalid_type_v(peek)
//@subst /V: de::Visitor<'de>,/ => V: Visitor<'de>,
//@sig
        requires self.cur().parser.pinv(),
        ensures self.fut().parser.pinv(), self.fut().parser.same_doc(&self.cur().parser),
            // a bool key is exactly `true"` or `false"` right after the opening quote, and the visitor sees that boolean
            res.is_ok() ==> ({
                let s = self.cur().parser.read.data();
                let i = self.cur().parser.read.idx() as int;
                let e = self.fut().parser.read.idx() as int;
                ||| (at(s, i, 0x74) && lit_end(s, i + 1, rue()).is_some() && at(s, i + 4, 0x22) && e == i + 5 && res == visitor.on_bool(true))
                ||| (at(s, i, 0x66) && lit_end(s, i + 1, alse()).is_some() && at(s, i + 5, 0x22) && e == i + 6 && res == visitor.on_bool(false))
            }),
//@body
        proof { axiom_lits(); }
//@end
}

// whitespace skipping does not move from a non-whitespace byte
pub proof fn lemma_ws_end_at_nonws(s: Seq<u8>, i: int)
    requires 0 <= i <= s.len(),
    ensures i < s.len() && !is_ws(s[i]) ==> ws_end(s, i) == i,
{ }

} // verus!
fn main() {}
