// fragment: validating string skipper + literals
// ESCAPED_TAB (src/util/string.rs): the 256 rows are proved equal to the RFC 8259 escape table by
// Kani (escaped_tab_all_rows); here only "nonzero <=> legal escape letter" is used.
#[verifier::external_body]
pub exec const ESCAPED_TAB: [u8; 256]
    ensures forall|i: int| 0 <= i < 256 ==> ((#[trigger] ESCAPED_TAB@[i]) != 0 <==> esc_ok(i as u8)),
{ [0u8; 256] }

// substitution target for `a == b` on byte slices (no vstd spec for slice PartialEq)
#[verifier::external_body]
pub fn slice_eq(a: &[u8], b: &[u8]) -> (r: bool)
    ensures r == (a@ == b@),
{ a == b }

pub proof fn axiom_lits()
    ensures "rue".spec_bytes() == rue(), "alse".spec_bytes() == alse(), "ull".spec_bytes() == ull(),
{
    reveal_strlit("rue"); reveal_strlit("alse"); reveal_strlit("ull");
    vstd::string::is_ascii_spec_bytes("rue"); vstd::string::is_ascii_spec_bytes("alse"); vstd::string::is_ascii_spec_bytes("ull");
    assert("rue".spec_bytes() =~= rue());
    assert("alse".spec_bytes() =~= alse());
    assert("ull".spec_bytes() =~= ull());
}
pub open spec fn is_esc_status(st: ParseStatus) -> bool { st is HasEscaped }

impl<'de, R: Reader<'de>> Parser<R> {
//@extract file=src/parser.rs impl="Parser<R>" fn=skip_escaped_chars
//@attr
    #[verifier::loop_isolation(false)]
//@sig
        requires old(self).pinv(), old(self).read.idx() >= 1,
            old(self).read.data()[old(self).read.idx() - 1] == 0x5c,
        ensures final(self).pinv(), final(self).same_doc(old(self)), final(self).same_cache(old(self)),
            // Ok: exactly one RFC 8259 escape sequence was consumed
            res.is_ok() ==> esc_end(old(self).read.data(), old(self).read.idx() - 1) == Some(final(self).read.idx() as int),
            // Err: no well-formed string can continue from this backslash
            res.is_err() ==> str_end(old(self).read.data(), old(self).read.idx() - 1).is_none(),
            final(self).read.idx() >= old(self).read.idx(),
            // every error is made by Parser::error: positioned inside the input (C20)
            res.is_err() ==> err_ok(res->Err_0, old(self).read.data()),
//@before /return perr!\(self, EofWhileParsing\);/ #1
                    proof { reveal_with_fuel(str_end, 2); }
//@forname? 1 it
//@loop? 1
                    invariant self.pinv(), self.same_doc(old(self)), self.same_cache(old(self)),
                        self.read.idx() == old(self).read.idx() + 1 + it.index@,
                        old(self).read.idx() + 6 <= self.read.data().len(),
                        forall|j: int| old(self).read.idx() + 1 <= j < self.read.idx() ==> is_hex(#[trigger] self.read.data()[j]),
//@end

//@extract file=src/parser.rs impl="Parser<R>" fn=skip_string
//@attr
    #[verifier::loop_isolation(false)]
//@sig
        requires old(self).pinv(),
        ensures final(self).pinv(), final(self).same_doc(old(self)), final(self).same_cache(old(self)),
            res.is_ok() <==> str_end(old(self).read.data(), old(self).read.idx() as int).is_some(),
            res.is_ok() ==> final(self).read.idx() == str_end(old(self).read.data(), old(self).read.idx() as int).unwrap()
                && (is_esc_status(res.unwrap()) <==> has_bs(old(self).read.data(), old(self).read.idx() as int, final(self).read.idx() as int)),
            final(self).read.idx() >= old(self).read.idx(),
            // every error is made by Parser::error: positioned inside the input (C20)
            res.is_err() ==> err_ok(res->Err_0, old(self).read.data()),
//@after /let mut status = ParseStatus::None;/
        let ghost s = self.read.data();
        let ghost i0 = self.read.idx() as int;
//@loop 1
            invariant self.pinv(), self.same_doc(old(self)), self.same_cache(old(self)),
                i0 <= self.read.idx(),
                str_end(s, i0) == str_end(s, self.read.idx() as int),
                is_esc_status(status) <==> has_bs(s, i0, self.read.idx() as int),
            decreases s.len() - self.read.idx(),
//@after /let mask =/
            let ghost base = self.read.idx() as int;
            proof {
                assert forall|j: int| 0 <= j < 32 implies bit32(mask, j) == !plain_char(#[trigger] s[base + j]) by {
                    assert(chunk@[j] == s[base + j]);
                    assert(v.lanes[j] == chunk@[j]);
                    assert(v_bs.lanes[j] == (v.lanes[j] == 0x5c));
                    assert(v_quote.lanes[j] == (v.lanes[j] == 0x22));
                    assert(v_cc.lanes[j] == (v.lanes[j] <= 0x1f));
                }
            }
//@after /let cnt =/
                proof {
                    lemma_tz32(mask);
                    assert forall|j: int| base <= j < base + cnt implies plain_char(#[trigger] s[j]) by {
                        assert(!bit32(mask, j - base));
                    }
                    assert(!plain_char(s[base + cnt])) by { assert(bit32(mask, cnt as int)); }
                    lemma_plain_run(s, base, cnt as int);
                    lemma_has_bs_extend(s, i0, base, base + cnt);
                    assert(chunk@[cnt as int] == s[base + cnt]);
                }
//@after /self.skip_escaped_chars\(\)\?;/ #1
                        proof { lemma_has_bs_witness(s, i0, base + cnt, self.read.idx() as int); }
//@before /self.read.eat\(LANS\)/
                proof {
                    assert forall|j: int| base <= j < base + 32 implies plain_char(#[trigger] s[j]) by {
                        lemma_zero32((j - base) as u32);
                        assert(!bit32(mask, j - base));
                    }
                    lemma_plain_run(s, base, 32);
                    lemma_has_bs_extend(s, i0, base, base + 32);
                }
//@loop 2
            invariant self.pinv(), self.same_doc(old(self)), self.same_cache(old(self)),
                i0 <= self.read.idx(),
                str_end(s, i0) == str_end(s, self.read.idx() as int),
                is_esc_status(status) <==> has_bs(s, i0, self.read.idx() as int),
            decreases s.len() - self.read.idx(),
//@before? /self.skip_escaped_chars\(\)\?;/ #2
                    let ghost bsp = self.read.idx() as int - 1;
//@after? /self.skip_escaped_chars\(\)\?;/ #2
                    proof { lemma_has_bs_witness(s, i0, bsp, self.read.idx() as int); }
//@end

//@extract file=src/parser.rs impl="Parser<R>" fn=parse_literal
//@subst /literal\.len\(\)/ => literal.as_bytes().len()
//@subst /chunk == literal\.as_bytes\(\)/ => slice_eq(chunk, literal.as_bytes())
//@sig
        requires old(self).pinv(),
        ensures final(self).pinv(), final(self).same_doc(old(self)), final(self).same_cache(old(self)),
            res.is_ok() <==> lit_end(old(self).read.data(), old(self).read.idx() as int, literal.spec_bytes()).is_some(),
            res.is_ok() ==> final(self).read.idx() == old(self).read.idx() + literal.spec_bytes().len(),
            final(self).read.idx() >= old(self).read.idx(),
            // every error is made by Parser::error: positioned inside the input (C20)
            res.is_err() ==> err_ok(res->Err_0, old(self).read.data()),
//@end
}
