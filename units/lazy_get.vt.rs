// Verus unit `lazy_get` (C14: "prefix UTF-8 validation after the walk"): the public wrappers `get` and `get_many`
// of src/lazyvalue/get.rs. What they add to the walkers (units walkers / getmany) is the UTF-8 validation of the
// traversed prefix for inputs that are not known to be UTF-8 (byte slices): whenever they return a value, the bytes
// the call traversed — everything up to the reader position, which includes the returned value — are valid UTF-8.
// UTF-8 validity itself is std's `from_utf8` (T4): an uninterpreted predicate here.
// Declared substitutions: `&slice[..index]` -> `vstd::slice::slice_subrange(slice, 0, index)` (its precondition
// index <= len becomes an obligation), `from_utf8(..)?` error conversion -> `utf8_err`.
use vstd::prelude::*;
use vstd::string::StringSliceAdditionalSpecFns;
verus! {
//@include specs/prelude.rs
//@include specs/json_number.rs
//@include specs/json_grammar.rs
//@include units/frag_parser.vt.rs
//@include units/frag_getmany_types.vt.rs

pub uninterp spec fn valid_utf8(b: Seq<u8>) -> bool;
#[verifier::external_body]
pub fn from_utf8(v: &[u8]) -> (r: core::result::Result<(), Error>)
    ensures r.is_ok() == valid_utf8(v@),
{ unimplemented!() }

/// the input carriers (&str, &[u8], &String, &FastStr, &Bytes): opaque; only `&[u8]`-like ones need validation
pub trait JsonInput<'de> {
    spec fn ibytes(&self) -> Seq<u8>;
    spec fn known_utf8(&self) -> bool;
    fn need_utf8_valid(&self) -> (r: bool) ensures r == !self.known_utf8();
    fn from_subset(&self, sub: &'de [u8]) -> (r: JsonSlice<'de>) ensures r.jbytes() == sub@;
    fn to_u8_slice(&self) -> (r: &'de [u8]) ensures r@ == self.ibytes();
}
pub trait Index { }
#[verifier::external_body]
pub struct PointerTree { _p: core::marker::PhantomData<()> }

//@include units/frag_iter_read.vt.rs

impl<'de, R: Reader<'de>> Parser<R> {
    #[verifier::external_body]
    pub fn new(read: R) -> (p: Self)
        requires read.wf(), read.idx() == 0, read.data().len() <= 0x3fff_ffff_ffff_ffff,
        ensures p.pinv(), p.read.data() == read.data(), p.read.idx() == 0,
    { unimplemented!() }
    // the checked path walk (its steps get_from_object_checked / get_from_array_checked and the final skip_one are proved
    // in units walkers / recognisers; the generic loop over the path is not): what this unit needs is that the value
    // handed out is a slice of the input that ends at the reader position
    #[verifier::external_body]
    pub fn get_from_with_iter<P: IntoIterator>(&mut self, path: P) -> (res: Result<(&'de [u8], ParseStatus)>)
        requires old(self).pinv(),
        ensures final(self).pinv(), final(self).same_doc(old(self)),
            res.is_ok() ==> res.unwrap().0@.len() <= final(self).read.idx()
                && res.unwrap().0@ == old(self).read.data().subrange(final(self).read.idx() - res.unwrap().0@.len(), final(self).read.idx() as int),
    { unimplemented!() }
    #[verifier::external_body]
    pub fn get_many(&mut self, tree: &PointerTree, is_safe: bool) -> (res: Result<Vec<Option<LazyValue<'de>>>>)
        requires old(self).pinv(),
        ensures final(self).pinv(), final(self).same_doc(old(self)),
    { unimplemented!() }
}

//@extract file=src/lazyvalue/get.rs fn=get
//@subst /Path::Item: Index,/ => 
//@subst /from_utf8\(&slice\[\.\.index\]\)\?;/ => match from_utf8(vstd::slice::slice_subrange(slice, 0, index)) { Ok(_) => {}, Err(e) => return Err(e) };
//@sig
    requires json.ibytes().len() <= 0x3fff_ffff_ffff_ffff,
    ensures
        // a returned value is a slice of the input, and — for inputs that are not known to be UTF-8 — everything the
        // call traversed up to and including that value is valid UTF-8
        res.is_ok() && !json.known_utf8() ==> exists|end: int| 0 <= end <= json.ibytes().len()
            && valid_utf8(json.ibytes().subrange(0, end))
            && res.unwrap().raw().len() <= end
            && res.unwrap().raw() == json.ibytes().subrange(end - res.unwrap().raw().len(), end),
//@end

//@extract file=src/lazyvalue/get.rs fn=get_many
//@subst /from_utf8\(&slice\[\.\.index\]\)\?;/ => match from_utf8(vstd::slice::slice_subrange(slice, 0, index)) { Ok(_) => {}, Err(e) => return Err(e) };
//@sig
    requires json.ibytes().len() <= 0x3fff_ffff_ffff_ffff,
    ensures
        res.is_ok() && !json.known_utf8() ==> exists|end: int| 0 <= end <= json.ibytes().len() && valid_utf8(json.ibytes().subrange(0, end)),
//@end

// ---- accessor (found F18): only a number reports a raw number
#[verifier::external_body]
pub struct RawNumber { _p: core::marker::PhantomData<()> }
// serde entry point: RawNumber deserializes from a bare number AND from a JSON string holding one
#[verifier::external_body]
pub fn from_str<T>(json: &str) -> (r: Result<T>) { unimplemented!() }
pub open spec fn num_start(raw: Seq<u8>) -> bool { raw.len() > 0 && (raw[0] == 0x2d || is_digit(raw[0])) }
impl<'a> LazyValue<'a> {
    // JsonValueTrait::is_number == (get_type() == Number); get_type looks at the first byte of the raw text
    #[verifier::external_body]
    pub fn is_number(&self) -> (r: bool) ensures r == num_start(self.raw()), { unimplemented!() }
    #[verifier::external_body]
    pub fn as_raw_str(&self) -> (r: &str) ensures str_bytes(r) == self.raw(), { unimplemented!() }
//@extract file=src/lazyvalue/value.rs impl="JsonValueTrait for LazyValue<'a>" fn=as_raw_number
//@sig
        ensures res.is_some() ==> num_start(self.raw()),
//@end
}

} // verus!
fn main() {}
