// fragment: multi-path extraction walkers (C14): get_many_rec / get_many_keys / get_many_index, checked variants.
// The path trie is a std HashMap (outside Verus): it enters as two opaque map types whose only assumed property is
// that lookups return nodes of the same tree (`tree_wf`, i.e. result slots in range) — the trie itself is C11 (n/a).
#[verifier::external_body]
pub struct MultiKey { _p: core::marker::PhantomData<()> }
#[verifier::external_body]
pub struct MultiIndex { _p: core::marker::PhantomData<()> }
//@extract file=src/pointer/tree.rs enum=PointerTreeInner
//@subst /pub\(crate\) enum/ => pub enum
//@subst /#\[derive\(Debug, Default\)\]/ => 
//@subst /#\[default\]/ => 
//@end
//@extract file=src/pointer/tree.rs struct=PointerTreeNode
//@subst /pub\(crate\) struct/ => pub struct
//@subst /#\[derive\(Debug, Default\)\]/ => 
//@subst /pub\(crate\) order:/ => pub order:
//@subst /pub\(crate\) children:/ => pub children:
//@end
impl MultiKey {
    pub uninterp spec fn all_wf(&self, n: nat) -> bool;
    #[verifier::external_body]
    pub fn get(&self, k: &str) -> (r: Option<&PointerTreeNode>)
        ensures forall|n: nat| self.all_wf(n) && r.is_some() ==> #[trigger] r.unwrap().tree_wf(n),
    { unimplemented!() }
}
impl MultiIndex {
    pub uninterp spec fn all_wf(&self, n: nat) -> bool;
    #[verifier::external_body]
    pub fn get(&self, k: &usize) -> (r: Option<&PointerTreeNode>)
        ensures forall|n: nat| self.all_wf(n) && r.is_some() ==> #[trigger] r.unwrap().tree_wf(n),
    { unimplemented!() }
    #[verifier::external_body]
    pub fn len(&self) -> (r: usize) { unimplemented!() }
}
impl PointerTreeNode {
    /// every result slot named in this subtree is a valid index into the output vector of length n
    pub open spec fn tree_wf(&self, n: nat) -> bool {
        &&& forall|i: int| 0 <= i < self.order@.len() ==> #[trigger] self.order@[i] < n
        &&& match self.children { PointerTreeInner::Empty => true, PointerTreeInner::Key(m) => m.all_wf(n), PointerTreeInner::Index(m) => m.all_wf(n) }
    }
}
impl<'a> From<&'a [u8]> for JsonSlice<'a> {
    #[verifier::external_body]
    fn from(value: &'a [u8]) -> (r: Self) ensures r.jbytes() == value@, { unimplemented!() }
}
impl<'a> Clone for LazyValue<'a> {
    #[verifier::external_body]
    fn clone(&self) -> (r: Self) ensures r.raw() == self.raw(), { unimplemented!() }
}
impl<'b, 'c> Reference<'b, 'c, str> {
    // `key.deref()` (Deref of Reference<str>)
    #[verifier::external_body]
    pub fn deref(&self) -> (r: &str) { unimplemented!() }
}

/// all filled slots hold the exact span of a well-formed value of the input
pub open spec fn slot_ok(o: Option<LazyValue>, s: Seq<u8>) -> bool {
    o.is_some() ==> exists|a: int, b: int| 0 <= a <= b <= s.len() && value_end(s, a) == Some(b) && ws_end(s, a) == a && o.unwrap().raw() == s.subrange(a, b)
}
pub open spec fn slots_ok(out: Seq<Option<LazyValue>>, s: Seq<u8>) -> bool {
    forall|i: int| 0 <= i < out.len() ==> slot_ok(#[trigger] out[i], s)
}
/// number of still empty slots: `remain` is exactly this number
pub open spec fn unfilled(out: Seq<Option<LazyValue>>) -> nat
    decreases out.len()
{
    if out.len() == 0 { 0 } else { unfilled(out.drop_last()) + (if out.last().is_none() { 1nat } else { 0nat }) }
}
pub proof fn lemma_unfilled_update(out: Seq<Option<LazyValue>>, p: int, v: LazyValue)
    requires 0 <= p < out.len(), out[p].is_none(),
    ensures unfilled(out.update(p, Some(v))) == unfilled(out) - 1, unfilled(out) >= 1,
    decreases out.len()
{
    let o2 = out.update(p, Some(v));
    if p == out.len() - 1 {
        assert(o2.drop_last() =~= out.drop_last());
    } else {
        lemma_unfilled_update(out.drop_last(), p, v);
        assert(o2.drop_last() =~= out.drop_last().update(p, Some(v)));
    }
}
pub proof fn lemma_unfilled_update_any(out: Seq<Option<LazyValue>>, p: int)
    requires 0 <= p < out.len(), out[p].is_none(),
    ensures forall|v: LazyValue| #[trigger] unfilled(out.update(p, Some(v))) == unfilled(out) - 1, unfilled(out) >= 1,
{
    assert forall|v: LazyValue| #[trigger] unfilled(out.update(p, Some(v))) == unfilled(out) - 1 by { lemma_unfilled_update(out, p, v); }
    lemma_unfilled_update(out, p, arbitrary());
}
pub open spec fn filled_mono(a: Seq<Option<LazyValue>>, b: Seq<Option<LazyValue>>) -> bool {
    a.len() == b.len() && forall|i: int| 0 <= i < a.len() && a[i].is_some() ==> #[trigger] b[i] == a[i]
}

impl<'de, R: Reader<'de>> Parser<R> {
    #[verifier::external_body]
    fn get_many_keys_unchecked(&mut self, mkeys: &MultiKey, strbuf: &mut Vec<u8>, out: &mut Vec<Option<LazyValue<'de>>>, remain: &mut usize) -> (res: Result<()>)
        requires false,   // only reachable with is_safe == false (unchecked API, not under contract)
    { unimplemented!() }
    #[verifier::external_body]
    fn get_many_index_unchecked(&mut self, midx: &MultiIndex, strbuf: &mut Vec<u8>, out: &mut Vec<Option<LazyValue<'de>>>, remain: &mut usize) -> (res: Result<()>)
        requires false,
    { unimplemented!() }
    // non-validating skipper: no grammar guarantee (C10 kernels give one only on well-formed input); a checked
    // walker that relies on it cannot establish its postcondition
    #[verifier::external_body]
    pub fn skip_one_unchecked(&mut self) -> (res: Result<(&'de [u8], ParseStatus)>)
        requires old(self).pinv(),
        ensures final(self).pinv(), final(self).same_doc(old(self)), final(self).read.idx() >= old(self).read.idx(),
            res.is_err() ==> err_ok(res->Err_0, old(self).read.data()),
    { unimplemented!() }
    // borrow-or-copy decoder: acceptance contract assumed here (unit `strings`)
    #[verifier::external_body]
    pub fn parse_str<'own>(&mut self, buf: &'own mut Vec<u8>) -> (res: Result<Reference<'de, 'own, str>>)
        requires old(self).pinv(),
        ensures final(self).pinv(), final(self).same_doc(old(self)),
            res.is_ok() ==> str_end(old(self).read.data(), old(self).read.idx() as int) == Some(final(self).read.idx() as int),
            str_end(old(self).read.data(), old(self).read.idx() as int).is_none() ==> res.is_err(),
            final(self).read.idx() >= old(self).read.idx(),
            res.is_err() ==> err_ok(res->Err_0, old(self).read.data()),
    { unimplemented!() }
    #[verifier::external_body]
    pub fn peek_invalid_type(&mut self, peek: u8, exp: &str) -> (e: Error)
        // proved for the real function in unit `typed_err`: it may step back one byte (onto `[` / `{`)
        requires old(self).pinv(), old(self).read.idx() >= 1, peek == old(self).read.data()[old(self).read.idx() - 1],
            old(self).nospace_start == -128 || old(self).nospace_start <= old(self).read.idx() - 1,
        ensures final(self).pinv(), final(self).same_doc(old(self)), final(self).read.idx() >= old(self).read.idx(),
            err_ok(e, old(self).read.data()),
    { unimplemented!() }

//@extract file=src/parser.rs impl="Parser<R>" fn=get_many_rec
//@attr
    #[verifier::loop_isolation(false)]
//@subst /out\[\*p\] = Some\(lv\.clone\(\)\);/ => out.set(*p, Some(lv.clone()));
//@subst /out\[\*p\]\.is_none\(\)/ => out[*p].is_none()
//@forname 1 it
//@sig
        requires old(self).pinv(), is_safe, node.tree_wf(old(out)@.len() as nat), slots_ok(old(out)@, old(self).read.data()),
            *old(remain) == unfilled(old(out)@),
        ensures final(self).pinv(), final(self).same_doc(old(self)), filled_mono(old(out)@, final(out)@),
            // C14: whatever is handed out is the exact span of a well-formed value of the input
            slots_ok(final(out)@, old(self).read.data()),
            *final(remain) == unfilled(final(out)@),
            // unless every path has been served (early exit), the value at this position was validated completely
            (res.is_ok() && *final(remain) > 0) ==> value_end(old(self).read.data(), old(self).read.idx() as int) == Some(final(self).read.idx() as int),
            final(self).read.idx() >= old(self).read.idx(),
            // every error is made by Parser::error: positioned inside the input (C20)
            res.is_err() ==> err_ok(res->Err_0, old(self).read.data()),
        decreases old(self).read.data().len() - old(self).read.idx(), 3nat
//@before /let ch = self\.skip_space_peek\(\);/
        let ghost s = self.read.data();
        let ghost i0 = self.read.idx() as int;
        let ghost n = out@.len() as nat;
        proof { lemma_ws_end_bounds(s, i0); }
//@before /let start = self\.read\.index\(\);/
        proof { lemma_value_end_ws(s, i0, self.read.idx() as int); lemma_ws_end_stop(s, self.read.idx() as int, self.read.idx() as int); }
//@before /^        if !node\.order\.is_empty\(\) \{/
        let ghost vend = self.read.idx() as int;
        let ghost r0 = *remain;
        // if a path is still open after the children, they consumed (and validated) the whole value
        proof { assert(r0 > 0 ==> value_end(s, start as int) == Some(vend)); }
//@loop 1
                invariant out@.len() == n, slots_ok(out@, s), *remain == unfilled(out@), filled_mono(old(out)@, out@),
                    self.pinv(), self.same_doc(old(self)), self.read.idx() == vend, *remain <= r0,
                    r0 > 0 ==> value_end(s, start as int) == Some(vend),
                    ws_end(s, start as int) == start, start <= vend <= s.len(),
                    lv.raw() == s.subrange(start as int, vend),
//@before /if out\[\*p\]\.is_none\(\) \{/
                proof {
                    assert(*p < n) by { assert(node.order@[it.index@] < n); }
                    if out@[*p as int].is_none() {
                        lemma_unfilled_update_any(out@, *p as int);
                        // an empty slot means remain > 0, so the span written below is a complete well-formed value
                        assert(value_end(s, start as int) == Some(vend));
                    }
                }
//@after /\*remain -= 1;/
                    proof {
                        assert(slot_ok(out@[*p as int], s)) by {
                            let a = start as int; let b = vend;
                            assert(0 <= a <= b <= s.len() && value_end(s, a) == Some(b) && ws_end(s, a) == a && out@[*p as int].unwrap().raw() == s.subrange(a, b));
                        }
                    }
//@end

//@extract file=src/parser.rs impl="Parser<R>" fn=get_many_keys
//@attr
    #[verifier::loop_isolation(false)]
//@subst /Some\(b','\) if self\.skip_space\(\) == Some\(b'"'\) => continue,\n\s*Some\(b','\) => return perr!\(self, ExpectObjectKeyOrEnd\),/ => Some(b',') => { if self.skip_space() == Some(b'"') { continue; } else { return perr!(self, ExpectObjectKeyOrEnd); } }
//@subst /&"a JSON object"/ => "a JSON object"
//@sig
        requires old(self).pinv(), mkeys.all_wf(old(out)@.len() as nat), slots_ok(old(out)@, old(self).read.data()),
            *old(remain) == unfilled(old(out)@),
        ensures final(self).pinv(), final(self).same_doc(old(self)), filled_mono(old(out)@, final(out)@),
            slots_ok(final(out)@, old(self).read.data()),
            *final(remain) == unfilled(final(out)@),
            (res.is_ok() && *final(remain) > 0) ==> value_end(old(self).read.data(), old(self).read.idx() as int) == Some(final(self).read.idx() as int),
            final(self).read.idx() >= old(self).read.idx(),
            // every error is made by Parser::error: positioned inside the input (C20)
            res.is_err() ==> err_ok(res->Err_0, old(self).read.data()),
        decreases old(self).read.data().len() - old(self).read.idx(), 2nat
//@before /match self\.skip_space\(\) \{/ #1
        let ghost s = self.read.data();
        let ghost i0 = self.read.idx() as int;
        let ghost n = out@.len() as nat;
        proof { lemma_ws_end_bounds(s, i0); }
//@before /match self\.skip_space\(\) \{/ #2
        let ghost ob = self.read.idx() as int;
        proof { lemma_ws_end_bounds(s, ob); }
//@loop 1
            invariant self.pinv(), self.same_doc(old(self)), ob < self.read.idx(), out@.len() == n,
                slots_ok(out@, s), *remain == unfilled(out@), filled_mono(old(out)@, out@),
                value_end(s, i0) == members_end(s, self.read.idx() as int),
            decreases s.len() - self.read.idx(),
//@before /let key = self\.parse_str\(strbuf\)\?;/
            let ghost ki = self.read.idx() as int;
//@after /let key = self\.parse_str\(strbuf\)\?;/
            proof { lemma_str_end_bounds(s, ki); lemma_ws_end_bounds(s, self.read.idx() as int); }
//@after /self\.parse_object_clo\(\)\?;/
            let ghost vi = self.read.idx() as int;
//@before /^            match self\.skip_space\(\) \{/
            proof {
                if value_end(s, vi).is_some() { lemma_value_end_bounds(s, vi); }
                lemma_ws_end_bounds(s, self.read.idx() as int);
                let q = ws_end(s, self.read.idx() as int);
                if q + 1 <= s.len() { lemma_ws_end_bounds(s, q + 1); }
            }
//@end

//@extract file=src/parser.rs impl="Parser<R>" fn=get_many_index
//@attr
    #[verifier::loop_isolation(false)]
//@subst /&"a JSON array"/ => "a JSON array"
//@sig
        requires old(self).pinv(), midx.all_wf(old(out)@.len() as nat), slots_ok(old(out)@, old(self).read.data()),
            *old(remain) == unfilled(old(out)@),
        ensures final(self).pinv(), final(self).same_doc(old(self)), filled_mono(old(out)@, final(out)@),
            slots_ok(final(out)@, old(self).read.data()),
            *final(remain) == unfilled(final(out)@),
            (res.is_ok() && *final(remain) > 0) ==> value_end(old(self).read.data(), old(self).read.idx() as int) == Some(final(self).read.idx() as int),
            final(self).read.idx() >= old(self).read.idx(),
            // every error is made by Parser::error: positioned inside the input (C20)
            res.is_err() ==> err_ok(res->Err_0, old(self).read.data()),
        decreases old(self).read.data().len() - old(self).read.idx(), 2nat
//@before /match self\.skip_space\(\) \{/ #1
        let ghost s = self.read.data();
        let ghost i0 = self.read.idx() as int;
        let ghost n = out@.len() as nat;
        proof { lemma_ws_end_bounds(s, i0); }
//@before /match self\.skip_space_peek\(\) \{/
        let ghost ab = self.read.idx() as int;
        proof { lemma_ws_end_bounds(s, ab); }
//@before /^        loop \{/
        proof { lemma_elems_end_ws(s, ab, self.read.idx() as int); }
//@loop 1
            invariant self.pinv(), self.same_doc(old(self)), ab <= self.read.idx(), out@.len() == n,
                slots_ok(out@, s), *remain == unfilled(out@), filled_mono(old(out)@, out@),
                index <= self.read.idx() - ab, visited <= index + 1 || visited <= self.read.idx() - ab,
                visited <= s.len(),
                value_end(s, i0) == elems_end(s, self.read.idx() as int),
            decreases s.len() - self.read.idx(),
//@before /if let Some\(val\) = midx\.get\(&index\) \{/
            let ghost vi = self.read.idx() as int;
//@before /^            match self\.skip_space\(\) \{/
            proof {
                if value_end(s, vi).is_some() { lemma_value_end_bounds(s, vi); }
                lemma_ws_end_bounds(s, self.read.idx() as int);
            }
//@end
}
