// Verus unit `errors` (C20, C01): error positions. Position::from_index, Error::syntax (snippet window
// arithmetic + slicing), Parser::error_index / error / fix_position.
use vstd::prelude::*;
verus! {
//@include specs/prelude.rs
//@include specs/positions.rs
use ErrorCode::*;

//@extract file=src/reader.rs struct=Position
//@subst /pub\(crate\) struct/ => pub struct
//@end

impl Position {
//@extract file=src/reader.rs impl="Position" fn=from_index
//@forname 1 it
//@sig
        requires data@.len() <= 0x3fff_ffff_ffff_ffff,
        ensures
            res.line == line_of(data@, if i <= data@.len() { i as int } else { data@.len() as int }),
            res.column == col_of(data@, if i <= data@.len() { i as int } else { data@.len() as int }),
//@loop 1
            invariant
                i <= data@.len(), data@.len() <= 0x3fff_ffff_ffff_ffff,
                position.line == line_of(data@, it.index@ as int),
                position.column == col_of(data@, it.index@ as int),
                position.line <= it.index@ + 1, position.column <= it.index@,
//@end
}

// the real error representation (src/error.rs). ErrorCode is the real enum; only the thiserror
// attributes are dropped (declared substitutions) and its three payload types are opaque.
#[verifier::external_body]
#[derive(Debug)]
pub struct CowStr { _p: core::marker::PhantomData<()> }
#[verifier::external_body]
#[derive(Debug)]
pub struct IoError { _p: core::marker::PhantomData<()> }
#[verifier::external_body]
#[derive(Debug)]
pub struct UnexpectedStatic { _p: core::marker::PhantomData<()> }
//@extract file=src/error.rs enum=ErrorCode
//@subst /(?m)^\s*#\[error\(.*\)\]\n/ =>  #all
//@subst /#\[derive\(ErrorTrait, Debug\)\]/ => #[derive(Debug)]
//@subst /#\[non_exhaustive\]/ => 
//@subst /Message\(Cow<'static, str>\)/ => Message(CowStr)
//@subst /Io\(std::io::Error\)/ => Io(IoError)
//@subst /SerExpectKeyIsStrOrNum\(Unexpected<'static>\)/ => SerExpectKeyIsStrOrNum(UnexpectedStatic)
//@end
//@extract file=src/error.rs enum=Category
//@subst /#\[non_exhaustive\]/ => 
//@end

//@extract file=src/error.rs struct=ErrorImpl
//@subst /(?m)^    (code|index|line|column|descript):/ => pub \1: #all
//@subst /^struct ErrorImpl/ => pub struct ErrorImpl
//@end
//@extract file=src/error.rs struct=Error
//@subst /(?m)^    err:/ => pub err:
//@end

/// an error "locates itself": offset within the input, line/column are those of the offset
pub open spec fn err_ok(e: Error, s: Seq<u8>) -> bool {
    &&& e.err.index <= s.len()
    &&& e.err.line == line_of(s, e.err.index as int)
    &&& e.err.column == col_of(s, e.err.index as int)
}

// substitution targets for the message formatting (String / format! machinery is T4)
// substitution target for std::cmp::min on usize (generic Ord has no vstd spec)
#[verifier::external_body]
pub fn min_usize(a: usize, b: usize) -> (r: usize)
    ensures r == if a <= b { a } else { b },
{ std::cmp::min(a, b) }
#[verifier::external_body]
pub fn lossy_string(b: &[u8]) -> (r: String) { unimplemented!() }
#[verifier::external_body]
pub fn mask_string(left: usize, right: usize) -> (r: String) { unimplemented!() }
#[verifier::external_body]
pub fn descr_string(fragment: &String, mask: &String) -> (r: String) { unimplemented!() }

impl Error {
//@extract file=src/error.rs impl="Error" fn=syntax
//@subst /String::from_utf8_lossy\(&json\[start\.\.end\]\)\.to_string\(\)/ => lossy_string(vstd::slice::slice_subrange(json, start, end))
//@subst /"\."\.repeat\(left\) \+ "\^" \+ &"\."\.repeat\(right\)/ => mask_string(left, right)
//@subst /format!\("\\n\\n\\t\{\}\\n\\t\{\}\\n", fragment, mask\)/ => descr_string(&fragment, &mask)
//@sig
        requires index <= json@.len(), json@.len() <= 0x3fff_ffff_ffff_ffff,
        ensures res.err.index == index, res.err.code == code,
            res.err.line == line_of(json@, index as int), res.err.column == col_of(json@, index as int),
            err_ok(res, json@),
//@loop 1
            invariant start <= index <= json@.len(), (start > 0 ==> start < json@.len()),
            decreases start,
//@loop 2
            invariant index <= end <= json@.len(), start <= index, end >= 8 || end == json@.len(),
            decreases json@.len() - end,
//@end

//@extract file=src/error.rs impl="Error" fn=classify
//@sig
        // not-found categories arise only from the four path-lookup codes
        ensures (res is NotFound) <==> (self.err.code is GetInEmptyObject || self.err.code is GetInEmptyArray
                || self.err.code is GetIndexOutOfArray || self.err.code is GetUnknownKeyInObject),
            (res is Eof) <==> (self.err.code is EofWhileParsing),
            (res is Io) <==> (self.err.code is Io),
//@end

//@extract file=src/error.rs impl="Error" fn=line
//@sig
        ensures res == self.err.line,
//@end

//@extract file=src/error.rs impl="Error" fn=offset
//@sig
        ensures res == self.err.index,
//@end

//@extract file=src/error.rs impl="Error" fn=error_code
//@sig
        ensures res == self.err.code,
//@end
}

//@extract file=src/config.rs struct=DeserializeCfg
//@subst /pub\(crate\) struct/ => pub struct
//@end
//@extract file=src/parser.rs struct=Parser
//@subst /(?m)^    (error_index|nospace_bits|nospace_start):/ => pub \1: #all
//@subst /pub\(crate\) cfg:/ => pub cfg:
//@end

impl<'de, R: Reader<'de>> Parser<R> {
//@extract file=src/parser.rs impl="Parser<R>" fn=error_index
//@subst /std::cmp::min\(/ => min_usize(
//@sig
        requires self.read.wf(),
        ensures res == if self.error_index <= (if self.read.idx() >= 1 { self.read.idx() - 1 } else { 0 }) { self.error_index as int }
                       else if self.read.idx() >= 1 { self.read.idx() - 1 } else { 0 },
//@end

//@extract file=src/parser.rs impl="Parser<R>" fn=error
//@sig
        requires self.read.wf(), self.read.data().len() <= 0x3fff_ffff_ffff_ffff,
        // every error made by the parser locates itself inside the input, whatever the reader position
        // (the padded reader may stand past the end: clamp + EOF substitution)
        ensures err_ok(res, self.read.data()),
            // "carries a position" in the sense of the parser units (`has_pos`): line != 0
            res.err.line != 0,
//@body
        proof { assert forall|i: int| 0 <= i implies line_of(self.read.data(), i) >= 1 by { lemma_line_col_bounds(self.read.data(), i); } }
//@end

//@extract file=src/parser.rs impl="Parser<R>" fn=fix_position
//@sig
        requires self.read.wf(), self.read.data().len() <= 0x3fff_ffff_ffff_ffff,
        ensures err.err.line != 0 ==> res == err,
            err.err.line == 0 ==> err_ok(res, self.read.data()),
            res.err.line != 0,
//@end
}

// ---- stream terminal latch (src/serde/de.rs). The method body is the real `Iterator::next`; it is placed
// in an inherent impl here because Verus does not accept contracts on foreign-trait impls.
pub mod de { pub trait Deserialize<'de> {} }
use core::marker::PhantomData;
#[verifier::external_body]
#[verifier::accept_recursive_types(R)]
pub struct Deserializer<R> { _p: core::marker::PhantomData<R> }
impl<'de, R: Reader<'de>> Deserializer<R> {
    // one document of the stream through serde (T4): no functional contract
    #[verifier::external_body]
    pub fn deserialize<T: de::Deserialize<'de>>(&mut self) -> (r: Result<T>) { unimplemented!() }
}
//@extract file=src/serde/de.rs struct=StreamDeserializer
//@subst /(?m)^    (de|data|lifetime|is_ending):/ => pub \1: #all
//@end
impl<'de, T, R> StreamDeserializer<'de, T, R>
where
    T: de::Deserialize<'de>,
    R: Reader<'de>,
{
//@extract file=src/serde/de.rs impl="Iterator for StreamDeserializer" fn=next
//@subst /Option<Self::Item>/ => Option<Result<T>>
//@sig
        ensures
            old(self).is_ending ==> res.is_none() && final(self).is_ending,
            !old(self).is_ending ==> res.is_some(),
            (res.is_some() && res.unwrap().is_err()) ==> final(self).is_ending,
            (res.is_some() && res.unwrap().is_ok()) ==> !final(self).is_ending,
//@end
}

} // verus!
fn main() {}
