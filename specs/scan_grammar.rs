// ===== Theorem: on a well-formed RFC 8259 container the scalar bracket scan (specs/scan.rs) closes exactly at the
// grammar's end of the container (specs/json_grammar.rs) =====
// Proof: every well-formed value is a *balanced segment* of the scan — it is entered and left outside strings, it
// contains as many left as right brackets of the scanned kind outside strings, and no prefix of it has more right
// than left ones — by induction over the grammar (strings: over str_end; numbers and literals contain no quote,
// backslash or bracket).
pub open spec fn st_at(s: Seq<u8>, b: int, p: int) -> (bool, bool) { sc_state(s, b, (p - b) as nat, (false, false)) }
pub open spec fn cnt_at(s: Seq<u8>, b: int, p: int, ch: u8) -> int { cnt_out(s, b, (p - b) as nat, ch) as int }
/// nesting depth (of the scanned bracket kind) reached just before byte p
pub open spec fn depth_at(s: Seq<u8>, b: int, p: int, l: u8, r: u8) -> int { cnt_at(s, b, p, l) - cnt_at(s, b, p, r) }
/// [p, q) is a balanced segment
pub open spec fn seg_ok(s: Seq<u8>, b: int, p: int, q: int, l: u8, r: u8) -> bool {
    &&& st_at(s, b, q) == (false, false)
    &&& depth_at(s, b, q, l, r) == depth_at(s, b, p, l, r)
    &&& forall|k: int| p <= k <= q ==> #[trigger] depth_at(s, b, k, l, r) >= depth_at(s, b, p, l, r)
}
pub open spec fn bracket_kind(l: u8, r: u8) -> bool { (l == 0x7b && r == 0x7d) || (l == 0x5b && r == 0x5d) }
/// a byte that neither changes the string state nor counts
pub open spec fn neutral(c: u8, l: u8, r: u8) -> bool { c != 0x22 && c != 0x5c && c != l && c != r }

pub proof fn lemma_scan_step(s: Seq<u8>, b: int, p: int, ch: u8)
    requires 0 <= b <= p,
    ensures st_at(s, b, p + 1) == sc_step(st_at(s, b, p), s[p]),
        cnt_at(s, b, p + 1, ch) == cnt_at(s, b, p, ch) + (if s[p] == ch && !st_at(s, b, p + 1).0 { 1int } else { 0int }),
{
    assert((p + 1 - b) as nat - 1 == (p - b) as nat);
    assert(b + (p + 1 - b) - 1 == p);
}
pub proof fn lemma_seg_refl(s: Seq<u8>, b: int, p: int, l: u8, r: u8)
    requires st_at(s, b, p) == (false, false),
    ensures seg_ok(s, b, p, p, l, r),
{ }
pub proof fn lemma_seg_compose(s: Seq<u8>, b: int, p: int, m: int, q: int, l: u8, r: u8)
    requires p <= m <= q, seg_ok(s, b, p, m, l, r), seg_ok(s, b, m, q, l, r),
    ensures seg_ok(s, b, p, q, l, r),
{
    assert forall|k: int| p <= k <= q implies #[trigger] depth_at(s, b, k, l, r) >= depth_at(s, b, p, l, r) by {
        if k <= m { } else { assert(depth_at(s, b, k, l, r) >= depth_at(s, b, m, l, r)); }
    }
}
pub proof fn lemma_neutral_run(s: Seq<u8>, b: int, p: int, q: int, l: u8, r: u8)
    requires 0 <= b <= p <= q <= s.len(), st_at(s, b, p) == (false, false),
        forall|j: int| p <= j < q ==> neutral(#[trigger] s[j], l, r),
    ensures seg_ok(s, b, p, q, l, r),
    decreases q - p
{
    if p == q { }
    else {
        lemma_neutral_run(s, b, p, q - 1, l, r);
        lemma_scan_step(s, b, q - 1, l);
        lemma_scan_step(s, b, q - 1, r);
        assert(neutral(s[q - 1], l, r));
        assert forall|k: int| p <= k <= q implies #[trigger] depth_at(s, b, k, l, r) >= depth_at(s, b, p, l, r) by {
            if k < q { assert(depth_at(s, b, k, l, r) >= depth_at(s, b, p, l, r)); }
        }
    }
}
pub proof fn lemma_ws_seg(s: Seq<u8>, b: int, p: int, l: u8, r: u8)
    requires 0 <= b <= p <= s.len(), st_at(s, b, p) == (false, false), bracket_kind(l, r),
    ensures seg_ok(s, b, p, ws_end(s, p), l, r), p <= ws_end(s, p) <= s.len(),
{
    lemma_ws_end_bounds(s, p);
    assert forall|j: int| p <= j < ws_end(s, p) implies neutral(#[trigger] s[j], l, r) by { assert(is_ws(s[j])); }
    lemma_neutral_run(s, b, p, ws_end(s, p), l, r);
}
/// one neutral byte
pub proof fn lemma_neutral_one(s: Seq<u8>, b: int, p: int, l: u8, r: u8)
    requires 0 <= b <= p < s.len(), st_at(s, b, p) == (false, false), neutral(s[p], l, r),
    ensures seg_ok(s, b, p, p + 1, l, r),
{
    assert forall|j: int| p <= j < p + 1 implies neutral(#[trigger] s[j], l, r) by { }
    lemma_neutral_run(s, b, p, p + 1, l, r);
}

/// inside a string literal (state (true, false) at i, i just after the opening quote or after an escape): the scan
/// leaves the string exactly at str_end and counts nothing on the way
pub proof fn lemma_str_body(s: Seq<u8>, b: int, i: int, l: u8, r: u8)
    requires 0 <= b <= i, st_at(s, b, i) == (true, false), str_end(s, i).is_some(), bracket_kind(l, r),
    ensures st_at(s, b, str_end(s, i).unwrap()) == (false, false),
        forall|k: int| i <= k <= str_end(s, i).unwrap() ==> #[trigger] depth_at(s, b, k, l, r) == depth_at(s, b, i, l, r),
    decreases s.len() - i
{
    let e = str_end(s, i).unwrap();
    lemma_str_end_bounds(s, i);
    lemma_scan_step(s, b, i, l); lemma_scan_step(s, b, i, r);
    if s[i] == 0x22 {
        assert forall|k: int| i <= k <= e implies #[trigger] depth_at(s, b, k, l, r) == depth_at(s, b, i, l, r) by { }
    } else if s[i] == 0x5c {
        let e1 = esc_end(s, i).unwrap();
        lemma_scan_step(s, b, i + 1, l); lemma_scan_step(s, b, i + 1, r);
        // after `\` and the escaped byte the scan is inside the string, unescaped, and has counted nothing
        assert(st_at(s, b, i + 2) == (true, false));
        if s[i + 1] == 0x75 {
            lemma_scan_step(s, b, i + 2, l); lemma_scan_step(s, b, i + 2, r);
            lemma_scan_step(s, b, i + 3, l); lemma_scan_step(s, b, i + 3, r);
            lemma_scan_step(s, b, i + 4, l); lemma_scan_step(s, b, i + 4, r);
            lemma_scan_step(s, b, i + 5, l); lemma_scan_step(s, b, i + 5, r);
            assert(st_at(s, b, i + 6) == (true, false));
        }
        lemma_str_body(s, b, e1, l, r);
        assert forall|k: int| i <= k <= e implies #[trigger] depth_at(s, b, k, l, r) == depth_at(s, b, i, l, r) by {
            if k >= e1 { assert(depth_at(s, b, k, l, r) == depth_at(s, b, e1, l, r)); }
        }
    } else {
        lemma_str_body(s, b, i + 1, l, r);
        assert forall|k: int| i <= k <= e implies #[trigger] depth_at(s, b, k, l, r) == depth_at(s, b, i, l, r) by {
            if k >= i + 1 { assert(depth_at(s, b, k, l, r) == depth_at(s, b, i + 1, l, r)); }
        }
    }
}
/// a whole string literal, p = its opening quote
pub proof fn lemma_string_seg(s: Seq<u8>, b: int, p: int, l: u8, r: u8)
    requires 0 <= b <= p < s.len(), st_at(s, b, p) == (false, false), s[p] == 0x22, str_end(s, p + 1).is_some(), bracket_kind(l, r),
    ensures seg_ok(s, b, p, str_end(s, p + 1).unwrap(), l, r),
{
    let e = str_end(s, p + 1).unwrap();
    lemma_scan_step(s, b, p, l); lemma_scan_step(s, b, p, r);
    lemma_str_body(s, b, p + 1, l, r);
    lemma_str_end_bounds(s, p + 1);
    assert forall|k: int| p <= k <= e implies #[trigger] depth_at(s, b, k, l, r) >= depth_at(s, b, p, l, r) by {
        if k >= p + 1 { assert(depth_at(s, b, k, l, r) == depth_at(s, b, p + 1, l, r)); }
    }
}

/// every well-formed value is a balanced segment
pub proof fn lemma_value_seg(s: Seq<u8>, b: int, i: int, l: u8, r: u8)
    requires 0 <= b <= i <= s.len(), st_at(s, b, i) == (false, false), value_end(s, i).is_some(), bracket_kind(l, r),
    ensures seg_ok(s, b, i, value_end(s, i).unwrap(), l, r),
    decreases s.len() - i, 0nat
{
    let e = value_end(s, i).unwrap();
    let p = ws_end(s, i);
    lemma_ws_seg(s, b, i, l, r);
    lemma_value_end_bounds(s, i);
    lemma_ws_end_idem(s, i, p);
    lemma_value_end_ws(s, i, p);
    if s[p] == 0x22 {
        lemma_string_seg(s, b, p, l, r);
        lemma_seg_compose(s, b, i, p, e, l, r);
    } else if s[p] == 0x7b {
        lemma_scan_step(s, b, p, l); lemma_scan_step(s, b, p, r);
        lemma_obj_seg(s, b, p + 1, l, r);
        lemma_obj_end_bounds(s, p + 1);
        lemma_scan_step(s, b, e - 1, l); lemma_scan_step(s, b, e - 1, r);
        lemma_container_wrap(s, b, p, e, l, r);
        lemma_seg_compose(s, b, i, p, e, l, r);
    } else if s[p] == 0x5b {
        lemma_scan_step(s, b, p, l); lemma_scan_step(s, b, p, r);
        lemma_arr_seg(s, b, p + 1, l, r);
        lemma_arr_end_bounds(s, p + 1);
        lemma_scan_step(s, b, e - 1, l); lemma_scan_step(s, b, e - 1, r);
        lemma_container_wrap(s, b, p, e, l, r);
        lemma_seg_compose(s, b, i, p, e, l, r);
    } else {
        lemma_scalar_chars(s, p);
        assert forall|j: int| p <= j < e implies neutral(#[trigger] s[j], l, r) by { assert(is_lit_or_num_char(s[j])); }
        lemma_neutral_run(s, b, p, e, l, r);
        lemma_seg_compose(s, b, i, p, e, l, r);
    }
}
/// opening bracket at p, balanced content [p+1, e-1), closing bracket at e-1: the whole [p, e) is balanced — whether
/// the brackets are of the scanned kind (depth goes up and comes back) or of the other kind (neutral)
pub proof fn lemma_container_wrap(s: Seq<u8>, b: int, p: int, e: int, l: u8, r: u8)
    requires 0 <= b <= p, p + 1 <= e - 1, e <= s.len(), st_at(s, b, p) == (false, false), bracket_kind(l, r),
        (s[p] == 0x7b && s[e - 1] == 0x7d) || (s[p] == 0x5b && s[e - 1] == 0x5d),
        st_at(s, b, p + 1) == (false, false), seg_ok(s, b, p + 1, e - 1, l, r),
    ensures seg_ok(s, b, p, e, l, r),
{
    lemma_scan_step(s, b, p, l); lemma_scan_step(s, b, p, r);
    lemma_scan_step(s, b, e - 1, l); lemma_scan_step(s, b, e - 1, r);
    assert forall|k: int| p <= k <= e implies #[trigger] depth_at(s, b, k, l, r) >= depth_at(s, b, p, l, r) by {
        if p + 1 <= k <= e - 1 { assert(depth_at(s, b, k, l, r) >= depth_at(s, b, p + 1, l, r)); }
    }
}
/// i: just after '[': the content up to (excluding) the closing bracket is balanced and the closing bracket is there
pub proof fn lemma_arr_seg(s: Seq<u8>, b: int, i: int, l: u8, r: u8)
    requires 0 <= b <= i <= s.len(), st_at(s, b, i) == (false, false), arr_end(s, i).is_some(), bracket_kind(l, r),
    ensures ({ let e = arr_end(s, i).unwrap(); i <= e - 1 && e <= s.len() && s[e - 1] == 0x5d && seg_ok(s, b, i, e - 1, l, r) }),
    decreases s.len() - i, 2nat
{
    let p = ws_end(s, i);
    lemma_ws_seg(s, b, i, l, r);
    if s[p] == 0x5d { } else { lemma_elems_seg(s, b, i, l, r); }
}
pub proof fn lemma_elems_seg(s: Seq<u8>, b: int, i: int, l: u8, r: u8)
    requires 0 <= b <= i <= s.len(), st_at(s, b, i) == (false, false), elems_end(s, i).is_some(), bracket_kind(l, r),
    ensures ({ let e = elems_end(s, i).unwrap(); i <= e - 1 && e <= s.len() && s[e - 1] == 0x5d && seg_ok(s, b, i, e - 1, l, r) }),
    decreases s.len() - i, 1nat
{
    let ev = value_end(s, i).unwrap();
    lemma_value_seg(s, b, i, l, r);
    lemma_value_end_bounds(s, i);
    let q = ws_end(s, ev);
    lemma_ws_seg(s, b, ev, l, r);
    lemma_seg_compose(s, b, i, ev, q, l, r);
    if s[q] == 0x5d { }
    else {
        lemma_neutral_one(s, b, q, l, r);
        lemma_seg_compose(s, b, i, q, q + 1, l, r);
        lemma_elems_seg(s, b, q + 1, l, r);
        lemma_seg_compose(s, b, i, q + 1, elems_end(s, i).unwrap() - 1, l, r);
    }
}
/// i: just after '{'
pub proof fn lemma_obj_seg(s: Seq<u8>, b: int, i: int, l: u8, r: u8)
    requires 0 <= b <= i <= s.len(), st_at(s, b, i) == (false, false), obj_end(s, i).is_some(), bracket_kind(l, r),
    ensures ({ let e = obj_end(s, i).unwrap(); i <= e - 1 && e <= s.len() && s[e - 1] == 0x7d && seg_ok(s, b, i, e - 1, l, r) }),
    decreases s.len() - i, 2nat
{
    let p = ws_end(s, i);
    lemma_ws_seg(s, b, i, l, r);
    if s[p] == 0x7d { }
    else {
        lemma_members_seg(s, b, p, l, r);
        lemma_seg_compose(s, b, i, p, obj_end(s, i).unwrap() - 1, l, r);
    }
}
/// q0: the opening quote of a member name
pub proof fn lemma_members_seg(s: Seq<u8>, b: int, q0: int, l: u8, r: u8)
    requires 0 <= b <= q0 < s.len(), st_at(s, b, q0) == (false, false), s[q0] == 0x22, members_end(s, q0 + 1).is_some(), bracket_kind(l, r),
    ensures ({ let e = members_end(s, q0 + 1).unwrap(); q0 <= e - 1 && e <= s.len() && s[e - 1] == 0x7d && seg_ok(s, b, q0, e - 1, l, r) }),
    decreases s.len() - q0 - 1, 1nat
{
    let k = str_end(s, q0 + 1).unwrap();
    lemma_string_seg(s, b, q0, l, r);
    lemma_str_end_bounds(s, q0 + 1);
    let c = ws_end(s, k);
    lemma_ws_seg(s, b, k, l, r);
    lemma_seg_compose(s, b, q0, k, c, l, r);
    lemma_neutral_one(s, b, c, l, r);
    lemma_seg_compose(s, b, q0, c, c + 1, l, r);
    let ev = value_end(s, c + 1).unwrap();
    lemma_value_seg(s, b, c + 1, l, r);
    lemma_value_end_bounds(s, c + 1);
    lemma_seg_compose(s, b, q0, c + 1, ev, l, r);
    let q = ws_end(s, ev);
    lemma_ws_seg(s, b, ev, l, r);
    lemma_seg_compose(s, b, q0, ev, q, l, r);
    if s[q] == 0x7d { }
    else {
        lemma_neutral_one(s, b, q, l, r);
        lemma_seg_compose(s, b, q0, q, q + 1, l, r);
        let r2 = ws_end(s, q + 1);
        lemma_ws_seg(s, b, q + 1, l, r);
        lemma_seg_compose(s, b, q0, q + 1, r2, l, r);
        lemma_members_seg(s, b, r2, l, r);
        lemma_seg_compose(s, b, q0, r2, members_end(s, q0 + 1).unwrap() - 1, l, r);
    }
}

/// THEOREM: started just after the opening bracket of a well-formed container, the scalar scan closes exactly at the
/// grammar's closing bracket
pub proof fn theorem_container_scan(s: Seq<u8>, b: int, l: u8, r: u8)
    requires 0 <= b <= s.len(),
        (l == 0x7b && r == 0x7d && obj_end(s, b).is_some()) || (l == 0x5b && r == 0x5d && arr_end(s, b).is_some()),
    ensures ({
        let e = if l == 0x7b { obj_end(s, b).unwrap() } else { arr_end(s, b).unwrap() };
        b < e <= s.len() && closes(s, b, (e - b - 1) as nat, l, r) && no_close_before(s, b, (e - b - 1) as nat, l, r)
    }),
{
    let e = if l == 0x7b { obj_end(s, b).unwrap() } else { arr_end(s, b).unwrap() };
    if l == 0x7b { lemma_obj_seg(s, b, b, l, r); lemma_obj_end_bounds(s, b); } else { lemma_arr_seg(s, b, b, l, r); lemma_arr_end_bounds(s, b); }
    // content [b, e-1) is balanced from depth 0, the byte e-1 is the closing bracket outside strings
    lemma_scan_step(s, b, e - 1, l); lemma_scan_step(s, b, e - 1, r);
    assert(depth_at(s, b, b, l, r) == 0);
    assert(outside(s, b, (e - 1 - b) as nat)) by { assert(((e - 1 - b) as nat + 1) as nat == (e - b) as nat); }
    assert(closes(s, b, (e - b - 1) as nat, l, r));
    assert forall|j: nat| j < (e - b - 1) as nat implies !closes(s, b, j, l, r) by {
        let k = b + j;
        if closes(s, b, j, l, r) {
            lemma_scan_step(s, b, k, l); lemma_scan_step(s, b, k, r);
            assert((k - b) as nat == j);
            assert((k + 1 - b) as nat == j + 1);
            // the right bracket at k takes the depth from 0 to -1 inside the balanced content: impossible
            assert(depth_at(s, b, k + 1, l, r) >= depth_at(s, b, b, l, r));
        }
    }
}

/// what unit `container` proves about Parser::skip_container (reader at b before, at idx2 after, result ok)
pub open spec fn skip_container_post(s: Seq<u8>, b: int, idx2: int, ok: bool, l: u8, r: u8) -> bool {
    &&& (ok ==> idx2 > b && closes(s, b, (idx2 - b - 1) as nat, l, r) && no_close_before(s, b, (idx2 - b - 1) as nat, l, r))
    &&& (!ok ==> no_close_before(s, b, (s.len() - b) as nat, l, r))
}
/// ... and what the walkers use: on a well-formed container it succeeds and stops at the grammar's end
pub proof fn lemma_skip_container_grammar(s: Seq<u8>, b: int, idx2: int, ok: bool, l: u8, r: u8)
    requires 0 <= b <= s.len(), skip_container_post(s, b, idx2, ok, l, r),
        (l == 0x7b && r == 0x7d && obj_end(s, b).is_some()) || (l == 0x5b && r == 0x5d && arr_end(s, b).is_some()),
    ensures ok, idx2 == (if l == 0x7b { obj_end(s, b).unwrap() } else { arr_end(s, b).unwrap() }),
{
    let e = if l == 0x7b { obj_end(s, b).unwrap() } else { arr_end(s, b).unwrap() };
    theorem_container_scan(s, b, l, r);
    if !ok { assert(!closes(s, b, (e - b - 1) as nat, l, r)); }
    else { lemma_close_unique(s, b, (e - b - 1) as nat, (idx2 - b - 1) as nat, l, r); }
}
