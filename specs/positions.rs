// ===== line / column of a byte offset (C20) =====
pub open spec fn line_of(s: Seq<u8>, i: int) -> int decreases i {
    if i <= 0 { 1 } else { line_of(s, i - 1) + if s[i - 1] == 0x0a { 1int } else { 0int } }
}
pub open spec fn col_of(s: Seq<u8>, i: int) -> int decreases i {
    if i <= 0 { 0 } else if s[i - 1] == 0x0a { 0 } else { col_of(s, i - 1) + 1 }
}
pub proof fn lemma_line_col_bounds(s: Seq<u8>, i: int)
    requires 0 <= i,
    ensures 1 <= line_of(s, i) <= i + 1, 0 <= col_of(s, i) <= i,
    decreases i
{
    if i > 0 { lemma_line_col_bounds(s, i - 1); }
}
