// The grammar as consumed by the fully-decoding parser (a number stops after a leading 0) accepts exactly the
// RFC 8259 texts: inside containers and at top level the byte after a value must be whitespace , ] } or the end,
// never the digit that the lenient number leaves behind.
pub proof fn lemma_number_l_vs_strict(s: Seq<u8>, p: int)
    requires 0 <= p <= s.len(),
    ensures number_end(s, p).is_some() ==> number_end_l(s, p) == number_end(s, p),
        (number_end_l(s, p).is_some() && number_end_l(s, p) != number_end(s, p)) ==>
            number_end_l(s, p).unwrap() < s.len() && is_digit(s[number_end_l(s, p).unwrap()]),
{
    let p1 = if at(s, p, 0x2d) { p + 1 } else { p };
    lemma_lenient_extends_grammar(s, p1);
}
pub proof fn lemma_value_l_vs_strict(s: Seq<u8>, i: int)
    requires 0 <= i <= s.len(),
    ensures value_end(s, i).is_some() ==> value_end_l(s, i) == value_end(s, i),
        (value_end_l(s, i).is_some() && value_end_l(s, i) != value_end(s, i)) ==>
            value_end_l(s, i).unwrap() < s.len() && is_digit(s[value_end_l(s, i).unwrap()]),
    decreases s.len() - i, 0nat
{
    lemma_ws_end_bounds(s, i);
    let p = ws_end(s, i);
    if p < s.len() {
        if s[p] == 0x2d || is_digit(s[p]) { lemma_number_l_vs_strict(s, p); }
        else if s[p] == 0x7b { lemma_obj_l_vs_strict(s, p + 1); }
        else if s[p] == 0x5b { lemma_arr_l_vs_strict(s, p + 1); }
    }
}
pub proof fn lemma_arr_l_vs_strict(s: Seq<u8>, i: int)
    requires 0 <= i <= s.len(),
    ensures arr_end_l(s, i) == arr_end(s, i),
    decreases s.len() - i, 2nat
{
    lemma_ws_end_bounds(s, i);
    let p = ws_end(s, i);
    if p < s.len() && s[p] != 0x5d { lemma_elems_l_vs_strict(s, i); }
}
pub proof fn lemma_elems_l_vs_strict(s: Seq<u8>, i: int)
    requires 0 <= i <= s.len(),
    ensures elems_end_l(s, i) == elems_end(s, i),
    decreases s.len() - i, 1nat
{
    lemma_value_l_vs_strict(s, i);
    match value_end_l(s, i) {
        None => { },
        Some(e) => {
            lemma_value_end_l_bounds(s, i);
            lemma_ws_end_bounds(s, e);
            let q = ws_end(s, e);
            if value_end(s, i) == Some(e) {
                if q < s.len() && s[q] == 0x2c { lemma_elems_l_vs_strict(s, q + 1); }
            } else {
                // the lenient number left a digit behind: neither grammar can continue
                assert(is_digit(s[e]));
                lemma_ws_end_stop(s, e, e);
                assert(value_end(s, i).is_none());
            }
        }
    }
}
pub proof fn lemma_obj_l_vs_strict(s: Seq<u8>, i: int)
    requires 0 <= i <= s.len(),
    ensures obj_end_l(s, i) == obj_end(s, i),
    decreases s.len() - i, 2nat
{
    lemma_ws_end_bounds(s, i);
    let p = ws_end(s, i);
    if p < s.len() && s[p] == 0x22 { lemma_members_l_vs_strict(s, p + 1); }
}
pub proof fn lemma_members_l_vs_strict(s: Seq<u8>, i: int)
    requires 0 <= i <= s.len(),
    ensures members_end_l(s, i) == members_end(s, i),
    decreases s.len() - i, 1nat
{
    match str_end(s, i) {
        None => { },
        Some(k) => {
            lemma_str_end_bounds(s, i);
            lemma_ws_end_bounds(s, k);
            let c = ws_end(s, k);
            if c < s.len() && s[c] == 0x3a {
                lemma_value_l_vs_strict(s, c + 1);
                match value_end_l(s, c + 1) {
                    None => { },
                    Some(e) => {
                        lemma_value_end_l_bounds(s, c + 1);
                        lemma_ws_end_bounds(s, e);
                        let q = ws_end(s, e);
                        if value_end(s, c + 1) == Some(e) {
                            if q < s.len() && s[q] == 0x2c {
                                lemma_ws_end_bounds(s, q + 1);
                                let r = ws_end(s, q + 1);
                                if r < s.len() && s[r] == 0x22 { lemma_members_l_vs_strict(s, r + 1); }
                            }
                        } else {
                            assert(is_digit(s[e]));
                            lemma_ws_end_stop(s, e, e);
                            assert(value_end(s, c + 1).is_none());
                        }
                    }
                }
            }
        }
    }
}
/// a complete text, as the fully-decoding entry points consume it: one value, then only whitespace
pub open spec fn is_json_text_l(s: Seq<u8>) -> bool {
    match value_end_l(s, 0) { Some(e) => ws_end(s, e) == s.len(), None => false }
}
/// THEOREM: parse_value2 followed by parse_trailing accepts exactly the RFC 8259 texts (modulo the string and
/// number payload checks it adds: surrogates, finiteness)
pub proof fn theorem_text_l_is_rfc8259(s: Seq<u8>)
    ensures is_json_text_l(s) == is_json_text(s),
{
    lemma_value_l_vs_strict(s, 0);
    if value_end_l(s, 0).is_some() {
        let e = value_end_l(s, 0).unwrap();
        lemma_value_end_l_bounds(s, 0);
        if value_end(s, 0) != Some(e) { lemma_ws_end_stop(s, e, e); }
    }
}
