// ===== prelude: assumed contracts shared by the Verus units (trusted base T1, T2) =====
// Everything in this file is an *interface contract*, not code of /repo:
//   - ErrorCode/Error: opaque carriers (the units only need variant identity),
//   - the SIMD lane contracts T2 (discharged on the real sonic-simd code by Kani, property C17),
//   - the Reader contract T1 (discharged on the real `impl Reader for Read` by Kani).

// T6: x86-64 target
global size_of usize == 8;

use ErrorCode::*;
pub type Result<T> = core::result::Result<T, Error>;

pub open spec fn is_digit(c: u8) -> bool { 0x30 <= c <= 0x39 }
pub open spec fn is_ws(c: u8) -> bool { c == 0x20 || c == 0x0a || c == 0x0d || c == 0x09 }

pub assume_specification [u8::is_ascii_digit] (c: &u8) -> (r: bool)
    ensures r == is_digit(*c);
pub open spec fn is_hex_digit(c: u8) -> bool {
    (0x30 <= c <= 0x39) || (0x41 <= c <= 0x46) || (0x61 <= c <= 0x66)
}
pub assume_specification [u8::is_ascii_hexdigit] (c: &u8) -> (r: bool)
    ensures r == is_hex_digit(*c);

// ---- bit helpers
pub open spec fn bit32(m: u32, j: int) -> bool { 0 <= j < 32 && ((m >> (j as u32)) & 1u32) == 1u32 }
pub open spec fn bit64(m: u64, j: int) -> bool { 0 <= j < 64 && ((m >> (j as u64)) & 1u64) == 1u64 }

pub proof fn lemma_tz32(m: u32)
    requires m != 0
    ensures ({ let c = vstd::std_specs::bits::u32_trailing_zeros(m) as int; 0 <= c < 32 && bit32(m, c) && forall|j: int| 0 <= j < c ==> !bit32(m, j) })
{
    vstd::std_specs::bits::axiom_u32_trailing_zeros(m);
}
pub proof fn lemma_tz64(m: u64)
    requires m != 0
    ensures ({ let c = vstd::std_specs::bits::u64_trailing_zeros(m) as int; 0 <= c < 64 && bit64(m, c) && forall|j: int| 0 <= j < c ==> !bit64(m, j) })
{
    vstd::std_specs::bits::axiom_u64_trailing_zeros(m);
}
pub proof fn lemma_zero32(j: u32)
    requires j < 32
    ensures !bit32(0u32, j as int)
{
    assert(((0u32 >> j) & 1u32) == 0u32) by (bit_vector);
}
pub proof fn lemma_zero64(j: u64)
    requires j < 64
    ensures !bit64(0u64, j as int)
{
    assert(((0u64 >> j) & 1u64) == 0u64) by (bit_vector);
}
pub proof fn lemma_shr32(m: u32, c: u32, k: u32)
    requires c < 32, k < 32,
    ensures bit32(m >> c, k as int) == (k + c < 32 && bit32(m, (k + c) as int)),
{
    assert((((m >> c) >> k) & 1u32) == 1u32 <==> (k + c < 32 && ((m >> ((k + c) as u32)) & 1u32) == 1u32)) by (bit_vector)
        requires c < 32, k < 32;
}

// ---- SIMD lane contracts (T2). Opaque vectors with a ghost lane view.
pub struct i8x32 { pub lanes: Seq<u8> }
pub struct u8x32 { pub lanes: Seq<u8> }
pub struct m8x32 { pub lanes: Seq<bool> }

impl i8x32 {
    pub const LANES: usize = 32;
    #[verifier::external_body]
    pub unsafe fn from_slice_unaligned_unchecked(slice: &[u8]) -> (v: Self)
        requires slice@.len() >= 32,
        ensures v.lanes == slice@.subrange(0, 32),
    { unimplemented!() }
    #[verifier::external_body]
    pub fn splat(elem: i8) -> (v: Self)
        ensures v.lanes == Seq::new(32, |i: int| elem as u8),
    { unimplemented!() }
    #[verifier::external_body]
    pub fn gt(&self, rhs: &Self) -> (m: m8x32)
        requires self.lanes.len() == 32, rhs.lanes.len() == 32,
        ensures m.lanes == Seq::new(32, |i: int| (self.lanes[i] as i8) > (rhs.lanes[i] as i8)),
    { unimplemented!() }
}
impl u8x32 {
    pub const LANES: usize = 32;
    #[verifier::external_body]
    pub unsafe fn from_slice_unaligned_unchecked(slice: &[u8]) -> (v: Self)
        requires slice@.len() >= 32,
        ensures v.lanes == slice@.subrange(0, 32),
    { unimplemented!() }
    #[verifier::external_body]
    pub fn splat(elem: u8) -> (v: Self)
        ensures v.lanes == Seq::new(32, |i: int| elem),
    { unimplemented!() }
    #[verifier::external_body]
    pub fn eq(&self, rhs: &Self) -> (m: m8x32)
        requires self.lanes.len() == 32, rhs.lanes.len() == 32,
        ensures m.lanes == Seq::new(32, |i: int| self.lanes[i] == rhs.lanes[i]),
    { unimplemented!() }
    #[verifier::external_body]
    pub fn le(&self, rhs: &Self) -> (m: m8x32)
        requires self.lanes.len() == 32, rhs.lanes.len() == 32,
        ensures m.lanes == Seq::new(32, |i: int| self.lanes[i] <= rhs.lanes[i]),
    { unimplemented!() }
}
impl m8x32 {
    #[verifier::external_body]
    pub fn bitmask(self) -> (b: u32)
        requires self.lanes.len() == 32,
        ensures forall|i: int| 0 <= i < 32 ==> #[trigger] bit32(b, i) == self.lanes[i],
    { unimplemented!() }
    #[verifier::external_body]
    pub fn splat(b: bool) -> (v: Self)
        ensures v.lanes == Seq::new(32, |i: int| b),
    { unimplemented!() }
}
impl vstd::std_specs::ops::BitOrSpecImpl for m8x32 {
    open spec fn obeys_bitor_spec() -> bool { false }
    open spec fn bitor_req(self, rhs: Self) -> bool { self.lanes.len() == 32 && rhs.lanes.len() == 32 }
    open spec fn bitor_spec(self, rhs: Self) -> Self { arbitrary() }
}
impl core::ops::BitOr for m8x32 {
    type Output = m8x32;
    #[verifier::external_body]
    fn bitor(self, rhs: Self) -> (m: m8x32)
        ensures m.lanes == Seq::new(32, |i: int| self.lanes[i] || rhs.lanes[i]),
    { unimplemented!() }
}

// ---- Reader contract (T1)
pub trait Reader<'de> {
    spec fn data(&self) -> Seq<u8>;
    spec fn idx(&self) -> nat;
    spec fn wf(&self) -> bool;

    fn remain(&self) -> (r: usize)
        requires self.wf(), self.idx() <= self.data().len(),
        ensures r == self.data().len() - self.idx();

    fn peek(&self) -> (r: Option<u8>)
        requires self.wf(),
        ensures
            self.idx() < self.data().len() ==> r == Some(self.data()[self.idx() as int]),
            self.idx() >= self.data().len() ==> r.is_none();

    fn peek_n(&self, n: usize) -> (r: Option<&'de [u8]>)
        requires self.wf(),
        ensures
            self.idx() + n <= self.data().len() ==> r.is_some() && r.unwrap()@ == self.data().subrange(self.idx() as int, self.idx() + n),
            self.idx() + n > self.data().len() ==> r.is_none();

    fn next_n(&mut self, n: usize) -> (r: Option<&'de [u8]>)
        requires old(self).wf(),
        ensures final(self).wf(), final(self).data() == old(self).data(),
            old(self).idx() + n <= old(self).data().len() ==> r.is_some() && r.unwrap()@ == old(self).data().subrange(old(self).idx() as int, old(self).idx() + n) && final(self).idx() == old(self).idx() + n,
            old(self).idx() + n > old(self).data().len() ==> r.is_none() && final(self).idx() == old(self).idx();

    fn eat(&mut self, n: usize)
        requires old(self).wf(), old(self).idx() + n <= old(self).data().len(),
        ensures final(self).wf(), final(self).data() == old(self).data(), final(self).idx() == old(self).idx() + n;

    fn backward(&mut self, n: usize)
        requires old(self).wf(), n <= old(self).idx(),
        ensures final(self).wf(), final(self).data() == old(self).data(), final(self).idx() == old(self).idx() - n;

    fn next(&mut self) -> (r: Option<u8>)
        requires old(self).wf(),
        ensures final(self).wf(), final(self).data() == old(self).data(),
            old(self).idx() < old(self).data().len() ==> r == Some(old(self).data()[old(self).idx() as int]) && final(self).idx() == old(self).idx() + 1,
            old(self).idx() >= old(self).data().len() ==> r.is_none() && final(self).idx() == old(self).idx();

    fn index(&self) -> (r: usize)
        requires self.wf(),
        ensures r == self.idx();

    fn at(&self, index: usize) -> (r: u8)
        requires self.wf(), index < self.data().len(),
        ensures r == self.data()[index as int];

    fn set_index(&mut self, index: usize)
        requires old(self).wf(), index <= old(self).data().len(),
        ensures final(self).wf(), final(self).data() == old(self).data(), final(self).idx() == index;

    fn slice_unchecked(&self, start: usize, end: usize) -> (r: &'de [u8])
        requires self.wf(), start <= end <= self.data().len(),
        ensures r@ == self.data().subrange(start as int, end as int);

    fn as_u8_slice(&self) -> (r: &'de [u8])
        requires self.wf(),
        ensures r@ == self.data();

    // deferred UTF-8 verdict of the up-front validation (simdutf8, T4): no functional contract
    // A reported error is located inside the input (`err_ok` is defined by each unit: the parser units
    // do not look inside errors, unit `errors` defines it as offset/line/column correctness).
    fn check_utf8_final(&self) -> (r: Result<()>)
        requires self.wf(),
        ensures r.is_err() ==> err_ok(r.unwrap_err(), self.data()),
            // Ok exactly when the up-front validation found nothing (`usize::MAX`)
            r.is_ok() <==> self.next_invalid() == usize::MAX;

    // deferred-UTF-8 bookkeeping (src/reader.rs): offset of the first invalid byte at/after the last validated position
    // (usize::MAX when there is none); `check_invalid_utf8` re-validates from the reader position on. No functional
    // contract (T4) beyond leaving the document and the position alone.
    spec fn next_invalid(&self) -> nat;
    fn next_invalid_utf8(&self) -> (r: usize)
        requires self.wf(),
        ensures r == self.next_invalid();
    fn check_invalid_utf8(&mut self)
        requires old(self).wf(),
        ensures final(self).wf(), final(self).data() == old(self).data(), final(self).idx() == old(self).idx();

    // re-attach a sub-slice to its owner (Bytes/FastStr carriers are T4): the bytes are the same
    fn slice_ref(&self, subset: &'de [u8]) -> (r: JsonSlice<'de>)
        requires self.wf(),
        ensures r.jbytes() == subset@;
}

#[verifier::external_body]
pub struct JsonSlice<'a> { _p: core::marker::PhantomData<&'a ()> }
impl<'a> JsonSlice<'a> {
    pub uninterp spec fn jbytes(&self) -> Seq<u8>;
}
