// ===== the bytes of well-formed numbers and literals (spec lemmas) =====
pub open spec fn is_lit_or_num_char(c: u8) -> bool {
    is_digit(c) || c == 0x2d || c == 0x2b || c == 0x2e || c == 0x65 || c == 0x45      // number characters
    || c == 0x72 || c == 0x75 || c == 0x61 || c == 0x6c || c == 0x73                   // r u a l s  (true/false/null)
    || c == 0x74 || c == 0x66 || c == 0x6e                                             // t f n
}
pub proof fn lemma_digits_numchars(s: Seq<u8>, i: int)
    requires 0 <= i <= s.len(),
    ensures forall|j: int| i <= j < digits_end(s, i) ==> is_lit_or_num_char(#[trigger] s[j]),
{
    lemma_digits_end_bounds(s, i);
}
pub proof fn lemma_number_numchars(s: Seq<u8>, p: int)
    requires 0 <= p <= s.len(), number_end(s, p).is_some(),
    ensures forall|j: int| p <= j < number_end(s, p).unwrap() ==> is_lit_or_num_char(#[trigger] s[j]),
{
    lemma_number_end_bounds(s, p);
    let p1 = if at(s, p, 0x2d) { p + 1 } else { p };
    lemma_digits_end_bounds(s, p1);
    lemma_digits_numchars(s, p1);
    let p2 = if s[p1] == 0x30 { p1 + 1 } else { digits_end(s, p1) };
    if at(s, p2, 0x2e) {
        lemma_digits_end_bounds(s, p2 + 1); lemma_digits_numchars(s, p2 + 1);
        let p3 = digits_end(s, p2 + 1);
        if at(s, p3, 0x65) || at(s, p3, 0x45) {
            let q1 = if at(s, p3 + 1, 0x2d) || at(s, p3 + 1, 0x2b) { p3 + 2 } else { p3 + 1 };
            lemma_digits_end_bounds(s, q1); lemma_digits_numchars(s, q1);
        }
    } else if at(s, p2, 0x65) || at(s, p2, 0x45) {
        let q1 = if at(s, p2 + 1, 0x2d) || at(s, p2 + 1, 0x2b) { p2 + 2 } else { p2 + 1 };
        lemma_digits_end_bounds(s, q1); lemma_digits_numchars(s, q1);
    }
}
/// a well-formed scalar that is not a string (number or literal) consists of number / literal characters only:
/// none of them is a quote, a bracket, a comma or whitespace
pub proof fn lemma_scalar_chars(s: Seq<u8>, p: int)
    requires 0 <= p < s.len(), ws_end(s, p) == p, value_end(s, p).is_some(),
        s[p] != 0x22 && s[p] != 0x7b && s[p] != 0x5b,
    ensures forall|j: int| p <= j < value_end(s, p).unwrap() ==> is_lit_or_num_char(#[trigger] s[j]),
{
    let e = value_end(s, p).unwrap();
    if s[p] == 0x2d || is_digit(s[p]) { lemma_number_numchars(s, p); }
    else {
        let rest = if s[p] == 0x74 { rue() } else if s[p] == 0x66 { alse() } else { ull() };
        assert(lit_end(s, p + 1, rest) == Some(e));
        assert forall|j: int| p <= j < e implies is_lit_or_num_char(#[trigger] s[j]) by {
            if j > p { assert(s[j] == s.subrange(p + 1, e)[j - p - 1]); assert(s.subrange(p + 1, e) == rest); }
        }
    }
}

