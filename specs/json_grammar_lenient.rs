// ===== GENERATED from specs/json_grammar.rs by tools (rename *_end -> *_end_l, number_end -> number_end_l): the
// grammar as the fully-decoding parser consumes it (a number stops after a leading 0). DO NOT EDIT BY HAND.
// ---- values. Lexicographic measure (remaining bytes, tag) keeps the mutual recursion well founded;
// the `> i` guards only serve the termination checker (every Some result does advance).
pub open spec fn value_end_l(s: Seq<u8>, i: int) -> Option<int>
    decreases s.len() - i, 0nat
{
    let p = ws_end(s, i);
    if !(0 <= i <= p < s.len()) { None }
    else if s[p] == 0x2d || is_digit(s[p]) { number_end_l(s, p) }
    else if s[p] == 0x22 { str_end(s, p + 1) }
    else if s[p] == 0x7b { obj_end_l(s, p + 1) }
    else if s[p] == 0x5b { arr_end_l(s, p + 1) }
    else if s[p] == 0x74 { lit_end(s, p + 1, rue()) }
    else if s[p] == 0x66 { lit_end(s, p + 1, alse()) }
    else if s[p] == 0x6e { lit_end(s, p + 1, ull()) }
    else { None }
}
// i: offset just after '['
pub open spec fn arr_end_l(s: Seq<u8>, i: int) -> Option<int>
    decreases s.len() - i, 2nat
{
    let p = ws_end(s, i);
    if !(0 <= i <= p < s.len()) { None }
    else if s[p] == 0x5d { Some(p + 1) }
    else { elems_end_l(s, i) }
}
// i: offset where an element is expected (leading whitespace allowed)
pub open spec fn elems_end_l(s: Seq<u8>, i: int) -> Option<int>
    decreases s.len() - i, 1nat
{
    if i < 0 { None } else {
    match value_end_l(s, i) {
        None => None,
        Some(e) => {
            let q = ws_end(s, e);
            if !(i < e <= q < s.len()) { None }
            else if s[q] == 0x5d { Some(q + 1) }
            else if s[q] == 0x2c { elems_end_l(s, q + 1) }
            else { None }
        }
    } }
}
// i: offset just after '{'
pub open spec fn obj_end_l(s: Seq<u8>, i: int) -> Option<int>
    decreases s.len() - i, 2nat
{
    let p = ws_end(s, i);
    if !(0 <= i <= p < s.len()) { None }
    else if s[p] == 0x7d { Some(p + 1) }
    else if s[p] == 0x22 { members_end_l(s, p + 1) }
    else { None }
}
// i: offset just after the opening quote of a member name
pub open spec fn members_end_l(s: Seq<u8>, i: int) -> Option<int>
    decreases s.len() - i, 1nat
{
    if i < 0 { None } else {
    match str_end(s, i) {
        None => None,
        Some(k) => {
            let c = ws_end(s, k);
            if !(i < k <= c < s.len()) || s[c] != 0x3a { None }
            else {
                match value_end_l(s, c + 1) {
                    None => None,
                    Some(e) => {
                        let q = ws_end(s, e);
                        if !(c + 1 < e <= q < s.len()) { None }
                        else if s[q] == 0x7d { Some(q + 1) }
                        else if s[q] == 0x2c {
                            let r = ws_end(s, q + 1);
                            if q + 1 <= r < s.len() && s[r] == 0x22 { members_end_l(s, r + 1) } else { None }
                        } else { None }
                    }
                }
            }
        }
    } }
}

// every successful match advances and stays inside the input
pub proof fn lemma_value_end_l_bounds(s: Seq<u8>, i: int)
    requires 0 <= i <= s.len(), value_end_l(s, i).is_some(),
    ensures i <= ws_end(s, i) < value_end_l(s, i).unwrap() <= s.len(),
    decreases s.len() - i, 0nat
{
    lemma_ws_end_bounds(s, i);
    let p = ws_end(s, i);
    if s[p] == 0x2d || is_digit(s[p]) { lemma_number_end_l_bounds(s, p); }
    else if s[p] == 0x22 { lemma_str_end_bounds(s, p + 1); }
    else if s[p] == 0x7b { lemma_obj_end_l_bounds(s, p + 1); }
    else if s[p] == 0x5b { lemma_arr_end_l_bounds(s, p + 1); }
    else { }
}
pub proof fn lemma_arr_end_l_bounds(s: Seq<u8>, i: int)
    requires 0 <= i <= s.len(), arr_end_l(s, i).is_some(),
    ensures i < arr_end_l(s, i).unwrap() <= s.len(),
    decreases s.len() - i, 2nat
{
    lemma_ws_end_bounds(s, i);
    let p = ws_end(s, i);
    if s[p] == 0x5d { } else { lemma_elems_end_l_bounds(s, i); }
}
pub proof fn lemma_elems_end_l_bounds(s: Seq<u8>, i: int)
    requires 0 <= i <= s.len(), elems_end_l(s, i).is_some(),
    ensures i < elems_end_l(s, i).unwrap() <= s.len(),
    decreases s.len() - i, 1nat
{
    let e = value_end_l(s, i).unwrap();
    let q = ws_end(s, e);
    if s[q] == 0x5d { } else { lemma_elems_end_l_bounds(s, q + 1); }
}
pub proof fn lemma_obj_end_l_bounds(s: Seq<u8>, i: int)
    requires 0 <= i <= s.len(), obj_end_l(s, i).is_some(),
    ensures i < obj_end_l(s, i).unwrap() <= s.len(),
    decreases s.len() - i, 2nat
{
    lemma_ws_end_bounds(s, i);
    let p = ws_end(s, i);
    if s[p] == 0x7d { } else { lemma_members_end_l_bounds(s, p + 1); }
}
pub proof fn lemma_members_end_l_bounds(s: Seq<u8>, i: int)
    requires 0 <= i <= s.len(), members_end_l(s, i).is_some(),
    ensures i < members_end_l(s, i).unwrap() <= s.len(),
    decreases s.len() - i, 1nat
{
    let k = str_end(s, i).unwrap();
    let c = ws_end(s, k);
    let e = value_end_l(s, c + 1).unwrap();
    let q = ws_end(s, e);
    if s[q] == 0x7d { } else {
        let r = ws_end(s, q + 1);
        lemma_members_end_l_bounds(s, r + 1);
    }
}

