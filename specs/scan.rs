// ===== scalar definition of the bitmap container skipper (spec) =====
// scan from the byte after the opening bracket, state = (inside a string?, next byte escaped?):
//   escaped byte -> nothing; `\\` -> escape the next byte; `"` -> toggle (the opening quote is "inside", the closing
//   one is not — the convention of get_string_bits); a bracket counts iff it is outside strings; the container
//   closes at the first right bracket outside strings that has as many right brackets before it as left ones.
pub open spec fn sc_step(st: (bool, bool), c: u8) -> (bool, bool) {
    if st.1 { (st.0, false) } else if c == 0x5c { (st.0, true) } else if c == 0x22 { (!st.0, false) } else { (st.0, false) }
}
/// state after the bytes s[b .. b+k), starting from st0
pub open spec fn sc_state(s: Seq<u8>, b: int, k: nat, st0: (bool, bool)) -> (bool, bool)
    decreases k
{
    if k == 0 { st0 } else { sc_step(sc_state(s, b, (k - 1) as nat, st0), s[b + k - 1]) }
}
/// byte b+j is outside every string (the mask bit of get_string_bits is clear)
pub open spec fn outside(s: Seq<u8>, b: int, j: nat) -> bool { !sc_state(s, b, j + 1, (false, false)).0 }
/// occurrences of ch outside strings among s[b .. b+k)
pub open spec fn cnt_out(s: Seq<u8>, b: int, k: nat, ch: u8) -> nat
    decreases k
{
    if k == 0 { 0 } else { cnt_out(s, b, (k - 1) as nat, ch) + (if s[b + k - 1] == ch && outside(s, b, (k - 1) as nat) { 1nat } else { 0nat }) }
}
/// byte b+k is the closing bracket of the container whose content starts at b
pub open spec fn closes(s: Seq<u8>, b: int, k: nat, l: u8, r: u8) -> bool {
    s[b + k] == r && outside(s, b, k) && cnt_out(s, b, k, r) == cnt_out(s, b, k, l)
}
pub open spec fn no_close_before(s: Seq<u8>, b: int, k: nat, l: u8, r: u8) -> bool {
    forall|j: nat| j < k ==> !closes(s, b, j, l, r)
}

pub proof fn lemma_sc_state_split(s: Seq<u8>, b: int, o: nat, i: nat, st0: (bool, bool))
    ensures sc_state(s, b, o + i, st0) == sc_state(s, b + o, i, sc_state(s, b, o, st0)),
    decreases i
{
    if i > 0 { lemma_sc_state_split(s, b, o, (i - 1) as nat, st0); }
}
pub proof fn lemma_sc_state_ext(s: Seq<u8>, b: int, t: Seq<u8>, c: int, k: nat, st0: (bool, bool))
    requires forall|j: int| 0 <= j < k ==> #[trigger] s[b + j] == t[c + j],
    ensures sc_state(s, b, k, st0) == sc_state(t, c, k, st0),
    decreases k
{
    if k > 0 { lemma_sc_state_ext(s, b, t, c, (k - 1) as nat, st0); }
}
pub proof fn lemma_cnt_bound(s: Seq<u8>, b: int, k: nat, ch: u8)
    ensures cnt_out(s, b, k, ch) <= k,
    decreases k
{
    if k > 0 { lemma_cnt_bound(s, b, (k - 1) as nat, ch); }
}
/// while no right bracket closed the container, right brackets never outnumber left ones
pub proof fn lemma_depth_nonneg(s: Seq<u8>, b: int, k: nat, l: u8, r: u8)
    requires no_close_before(s, b, k, l, r), l != r,
    ensures cnt_out(s, b, k, r) <= cnt_out(s, b, k, l),
    decreases k
{
    if k > 0 {
        let k1 = (k - 1) as nat;
        assert(no_close_before(s, b, k1, l, r));
        lemma_depth_nonneg(s, b, k1, l, r);
        assert(!closes(s, b, k1, l, r));
    }
}


/// the closing position is unique
pub proof fn lemma_close_unique(s: Seq<u8>, b: int, k1: nat, k2: nat, l: u8, r: u8)
    requires closes(s, b, k1, l, r), no_close_before(s, b, k1, l, r), closes(s, b, k2, l, r), no_close_before(s, b, k2, l, r),
    ensures k1 == k2,
{
    if k1 < k2 { assert(!closes(s, b, k1, l, r)); }
    if k2 < k1 { assert(!closes(s, b, k2, l, r)); }
}
