// lemmas about the lenient grammar and the event lists (leading whitespace, seq associativity)
pub proof fn lemma_value_end_l_ws(s: Seq<u8>, i: int, p: int)
    requires 0 <= i <= p <= ws_end(s, i), i <= s.len(),
    ensures value_end_l(s, i) == value_end_l(s, p),
{
    lemma_ws_end_idem(s, i, p);
    lemma_ws_end_bounds(s, i);
}
pub proof fn lemma_elems_end_l_ws(s: Seq<u8>, i: int, p: int)
    requires 0 <= i <= p <= ws_end(s, i), i <= s.len(),
    ensures elems_end_l(s, i) == elems_end_l(s, p),
{
    lemma_value_end_l_ws(s, i, p);
    lemma_ws_end_bounds(s, i);
    if value_end_l(s, p).is_some() { lemma_value_end_l_bounds(s, p); }
}
pub proof fn lemma_value_events_ws(s: Seq<u8>, i: int, p: int, raw: bool)
    requires 0 <= i <= p <= ws_end(s, i), i <= s.len(),
    ensures value_events(s, i, raw) == value_events(s, p, raw),
{
    lemma_ws_end_idem(s, i, p);
    lemma_ws_end_bounds(s, i);
}
pub proof fn lemma_elems_events_ws(s: Seq<u8>, i: int, p: int, c: nat, raw: bool)
    requires 0 <= i <= p <= ws_end(s, i), i <= s.len(),
    ensures elems_events(s, i, c, raw) == elems_events(s, p, c, raw),
{
    lemma_value_end_l_ws(s, i, p);
    lemma_value_events_ws(s, i, p, raw);
    lemma_ws_end_bounds(s, i);
    if value_end_l(s, p).is_some() { lemma_value_end_l_bounds(s, p); }
}
pub proof fn lemma_seq_assoc(a: Seq<Ev>, b: Seq<Ev>, c: Seq<Ev>)
    ensures a + (b + c) == (a + b) + c,
{
    assert(a + (b + c) =~= (a + b) + c);
}
pub proof fn lemma_seq_push(a: Seq<Ev>, e: Ev)
    ensures a.push(e) == a + seq![e],
{
    assert(a.push(e) =~= a + seq![e]);
}
