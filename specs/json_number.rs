// ===== RFC 8259 number grammar (spec): end offset of the longest number starting at p, or None =====
pub open spec fn digits_end(s: Seq<u8>, i: int) -> int
    decreases s.len() - i
{
    if 0 <= i < s.len() && is_digit(s[i]) { digits_end(s, i + 1) } else { i }
}
pub open spec fn at(s: Seq<u8>, i: int, c: u8) -> bool { 0 <= i < s.len() && s[i] == c }
pub open spec fn dig_at(s: Seq<u8>, i: int) -> bool { 0 <= i < s.len() && is_digit(s[i]) }

// exponent part starting right after 'e'/'E'
pub open spec fn exp_end(s: Seq<u8>, q: int) -> Option<int> {
    let q1 = if at(s, q, 0x2d) || at(s, q, 0x2b) { q + 1 } else { q };
    if dig_at(s, q1) { Some(digits_end(s, q1)) } else { None }
}
// after the integer part
pub open spec fn frac_exp_end(s: Seq<u8>, p2: int) -> Option<int> {
    if at(s, p2, 0x2e) {
        if dig_at(s, p2 + 1) {
            let p3 = digits_end(s, p2 + 1);
            if at(s, p3, 0x65) || at(s, p3, 0x45) { exp_end(s, p3 + 1) } else { Some(p3) }
        } else { None }
    } else if at(s, p2, 0x65) || at(s, p2, 0x45) { exp_end(s, p2 + 1) } else { Some(p2) }
}
// p1: index of the first digit
pub open spec fn unsigned_end(s: Seq<u8>, p1: int) -> Option<int> {
    if !dig_at(s, p1) { None }
    else if s[p1] == 0x30 {
        if dig_at(s, p1 + 1) { None } else { frac_exp_end(s, p1 + 1) }
    } else { frac_exp_end(s, digits_end(s, p1)) }
}
pub open spec fn number_end(s: Seq<u8>, p: int) -> Option<int> {
    if at(s, p, 0x2d) { unsigned_end(s, p + 1) } else { unsigned_end(s, p) }
}

pub open spec fn num_tail(s: Seq<u8>, i: int, fl: bool) -> Option<int> {
    let d = digits_end(s, i);
    if !fl { frac_exp_end(s, d) } else if at(s, d, 0x65) || at(s, d, 0x45) { exp_end(s, d + 1) } else { Some(d) }
}
pub proof fn lemma_digits_run(s: Seq<u8>, i: int, k: int)
    requires 0 <= i, 0 <= k, i + k <= s.len(), forall|j: int| i <= j < i + k ==> is_digit(#[trigger] s[j]),
    ensures digits_end(s, i) == digits_end(s, i + k),
    decreases k
{
    if k > 0 { lemma_digits_run(s, i + 1, k - 1); }
}
pub proof fn lemma_digits_end_bounds(s: Seq<u8>, i: int)
    requires 0 <= i <= s.len(),
    ensures i <= digits_end(s, i) <= s.len(),
        forall|j: int| i <= j < digits_end(s, i) ==> is_digit(#[trigger] s[j]),
        digits_end(s, i) < s.len() ==> !is_digit(s[digits_end(s, i)]),
    decreases s.len() - i
{
    if i < s.len() && is_digit(s[i]) { lemma_digits_end_bounds(s, i + 1); }
}
// a matched number lies inside the input and is non-empty
pub proof fn lemma_number_end_bounds(s: Seq<u8>, p: int)
    requires 0 <= p <= s.len(), number_end(s, p).is_some(),
    ensures p < number_end(s, p).unwrap() <= s.len(),
{
    let p1 = if at(s, p, 0x2d) { p + 1 } else { p };
    lemma_digits_end_bounds(s, p1);
    if p1 + 1 <= s.len() { lemma_digits_end_bounds(s, p1 + 1); }
    let p2 = if s[p1] == 0x30 { p1 + 1 } else { digits_end(s, p1) };
    lemma_frac_exp_bounds(s, p2);
}
pub proof fn lemma_exp_bounds(s: Seq<u8>, q: int)
    requires 0 <= q <= s.len(), exp_end(s, q).is_some(),
    ensures q < exp_end(s, q).unwrap() <= s.len(),
{
    let q1 = if at(s, q, 0x2d) || at(s, q, 0x2b) { q + 1 } else { q };
    lemma_digits_end_bounds(s, q1);
}
pub proof fn lemma_frac_exp_bounds(s: Seq<u8>, p2: int)
    requires 0 <= p2 <= s.len(), frac_exp_end(s, p2).is_some(),
    ensures p2 <= frac_exp_end(s, p2).unwrap() <= s.len(),
{
    if at(s, p2, 0x2e) {
        lemma_digits_end_bounds(s, p2 + 1);
        let p3 = digits_end(s, p2 + 1);
        if at(s, p3, 0x65) || at(s, p3, 0x45) { lemma_exp_bounds(s, p3 + 1); }
    } else if at(s, p2, 0x65) || at(s, p2, 0x45) { lemma_exp_bounds(s, p2 + 1); }
}

// What parse_number consumes: like the RFC 8259 number without sign, except that after a leading '0' it
// stops (the caller rejects the digit that follows; a digit can never follow a value).
pub open spec fn lenient_end(s: Seq<u8>, p: int) -> Option<int> {
    if !dig_at(s, p) { None } else if s[p] == 0x30 { frac_exp_end(s, p + 1) } else { frac_exp_end(s, digits_end(s, p)) }
}
pub proof fn lemma_lenient_extends_grammar(s: Seq<u8>, p: int)
    ensures unsigned_end(s, p).is_some() ==> lenient_end(s, p) == unsigned_end(s, p),
{ }
pub open spec fn number_end_l(s: Seq<u8>, p: int) -> Option<int> {
    if at(s, p, 0x2d) { lenient_end(s, p + 1) } else { lenient_end(s, p) }
}
pub proof fn lemma_number_end_l_bounds(s: Seq<u8>, p: int)
    requires 0 <= p <= s.len(), number_end_l(s, p).is_some(),
    ensures p < number_end_l(s, p).unwrap() <= s.len(),
{
    let p1 = if at(s, p, 0x2d) { p + 1 } else { p };
    lemma_digits_end_bounds(s, p1);
    if p1 + 1 <= s.len() { lemma_digits_end_bounds(s, p1 + 1); }
    let p2 = if s[p1] == 0x30 { p1 + 1 } else { digits_end(s, p1) };
    lemma_frac_exp_bounds(s, p2);
}

// ---- exact integers (used by unit `number` and by the callers of parse_number)
// value of the decimal digits s[a..b)
pub open spec fn dec_val(s: Seq<u8>, a: int, b: int) -> int
    decreases b - a
{
    if b <= a { 0 } else { dec_val(s, a, b - 1) * 10 + (s[b - 1] as int - 0x30) }
}
// a plain integer literal (no leading zero, no fraction, no exponent) starts at p (p: first digit)
pub open spec fn is_plain_int(s: Seq<u8>, p: int) -> bool {
    let e = digits_end(s, p);
    dig_at(s, p) && (s[p] != 0x30 || !dig_at(s, p + 1)) && !at(s, e, 0x2e) && !at(s, e, 0x65) && !at(s, e, 0x45)
}
