// ===== RFC 8259 grammar as total recursive spec functions on Seq<u8> =====
// Each returns the end offset (exclusive) of the match starting at the given offset, or None.
// Written in LL(1) form directly from RFC 8259 §2-§7; no reference to the implementation.

pub open spec fn ws_end(s: Seq<u8>, i: int) -> int
    decreases s.len() - i
{
    if 0 <= i < s.len() && is_ws(s[i]) { ws_end(s, i + 1) } else { i }
}

pub open spec fn is_hex(c: u8) -> bool {
    (0x30 <= c <= 0x39) || (0x41 <= c <= 0x46) || (0x61 <= c <= 0x66)
}
// the eight two-character escapes: \" \\ \/ \b \f \n \r \t
pub open spec fn esc_ok(c: u8) -> bool {
    c == 0x22 || c == 0x5c || c == 0x2f || c == 0x62 || c == 0x66 || c == 0x6e || c == 0x72 || c == 0x74
}
// b: offset of a backslash. End of the escape sequence starting there.
pub open spec fn esc_end(s: Seq<u8>, b: int) -> Option<int> {
    if !(0 <= b && b + 1 < s.len()) { None }
    else if s[b + 1] == 0x75 {
        if b + 6 <= s.len() && is_hex(s[b + 2]) && is_hex(s[b + 3]) && is_hex(s[b + 4]) && is_hex(s[b + 5]) { Some(b + 6) } else { None }
    } else if esc_ok(s[b + 1]) { Some(b + 2) } else { None }
}
// i: offset just after the opening quote. Returns the offset just after the closing quote.
pub open spec fn str_end(s: Seq<u8>, i: int) -> Option<int>
    decreases s.len() - i
{
    if !(0 <= i < s.len()) { None }
    else if s[i] == 0x22 { Some(i + 1) }
    else if s[i] == 0x5c {
        match esc_end(s, i) {
            Some(e) => if e > i { str_end(s, e) } else { None },
            None => None,
        }
    }
    else if s[i] < 0x20 { None }
    else { str_end(s, i + 1) }
}
// does the literal body [i, e) (e = offset after the closing quote) contain a backslash?
pub open spec fn has_bs(s: Seq<u8>, i: int, e: int) -> bool {
    exists|j: int| i <= j < e && 0 <= j < s.len() && s[j] == 0x5c
}

pub open spec fn plain_char(c: u8) -> bool { c != 0x22 && c != 0x5c && c >= 0x20 }

pub proof fn lemma_ws_run(s: Seq<u8>, i: int, k: int)
    requires 0 <= i, 0 <= k, i + k <= s.len(), forall|j: int| i <= j < i + k ==> is_ws(#[trigger] s[j]),
    ensures ws_end(s, i) == ws_end(s, i + k),
    decreases k
{
    if k > 0 { lemma_ws_run(s, i + 1, k - 1); }
}
pub proof fn lemma_ws_end_bounds(s: Seq<u8>, i: int)
    requires 0 <= i <= s.len(),
    ensures i <= ws_end(s, i) <= s.len(),
        forall|j: int| i <= j < ws_end(s, i) ==> is_ws(#[trigger] s[j]),
        ws_end(s, i) < s.len() ==> !is_ws(s[ws_end(s, i)]),
    decreases s.len() - i
{
    if i < s.len() && is_ws(s[i]) { lemma_ws_end_bounds(s, i + 1); }
}
pub proof fn lemma_ws_end_stop(s: Seq<u8>, i: int, p: int)
    requires 0 <= i <= p <= s.len(), forall|j: int| i <= j < p ==> is_ws(#[trigger] s[j]),
        p < s.len() ==> !is_ws(s[p]),
    ensures ws_end(s, i) == p,
{
    lemma_ws_run(s, i, p - i);
}
pub proof fn lemma_ws_end_idem(s: Seq<u8>, i: int, p: int)
    requires 0 <= i <= p <= ws_end(s, i), i <= s.len(),
    ensures ws_end(s, p) == ws_end(s, i),
{
    lemma_ws_end_bounds(s, i);
    lemma_ws_run(s, i, p - i);
}
pub proof fn lemma_plain_run(s: Seq<u8>, i: int, k: int)
    requires 0 <= i, 0 <= k, i + k <= s.len(), forall|j: int| i <= j < i + k ==> plain_char(#[trigger] s[j]),
    ensures str_end(s, i) == str_end(s, i + k),
    decreases k
{
    if k > 0 { lemma_plain_run(s, i + 1, k - 1); }
}
pub proof fn lemma_str_end_bounds(s: Seq<u8>, i: int)
    requires 0 <= i <= s.len(), str_end(s, i).is_some(),
    ensures i < str_end(s, i).unwrap() <= s.len(),
    decreases s.len() - i
{
    if s[i] == 0x22 { }
    else if s[i] == 0x5c {
        let e = esc_end(s, i).unwrap();
        lemma_str_end_bounds(s, e);
    } else { lemma_str_end_bounds(s, i + 1); }
}

// ---- literals: i = offset just after the first byte
pub open spec fn lit_end(s: Seq<u8>, i: int, rest: Seq<u8>) -> Option<int> {
    if 0 <= i && i + rest.len() <= s.len() && s.subrange(i, i + rest.len()) == rest { Some(i + rest.len()) } else { None }
}
pub open spec fn rue() -> Seq<u8> { seq![0x72u8, 0x75u8, 0x65u8] }
pub open spec fn alse() -> Seq<u8> { seq![0x61u8, 0x6cu8, 0x73u8, 0x65u8] }
pub open spec fn ull() -> Seq<u8> { seq![0x75u8, 0x6cu8, 0x6cu8] }

// ---- values. Lexicographic measure (remaining bytes, tag) keeps the mutual recursion well founded;
// the `> i` guards only serve the termination checker (every Some result does advance).
pub open spec fn value_end(s: Seq<u8>, i: int) -> Option<int>
    decreases s.len() - i, 0nat
{
    let p = ws_end(s, i);
    if !(0 <= i <= p < s.len()) { None }
    else if s[p] == 0x2d || is_digit(s[p]) { number_end(s, p) }
    else if s[p] == 0x22 { str_end(s, p + 1) }
    else if s[p] == 0x7b { obj_end(s, p + 1) }
    else if s[p] == 0x5b { arr_end(s, p + 1) }
    else if s[p] == 0x74 { lit_end(s, p + 1, rue()) }
    else if s[p] == 0x66 { lit_end(s, p + 1, alse()) }
    else if s[p] == 0x6e { lit_end(s, p + 1, ull()) }
    else { None }
}
// i: offset just after '['
pub open spec fn arr_end(s: Seq<u8>, i: int) -> Option<int>
    decreases s.len() - i, 2nat
{
    let p = ws_end(s, i);
    if !(0 <= i <= p < s.len()) { None }
    else if s[p] == 0x5d { Some(p + 1) }
    else { elems_end(s, i) }
}
// i: offset where an element is expected (leading whitespace allowed)
pub open spec fn elems_end(s: Seq<u8>, i: int) -> Option<int>
    decreases s.len() - i, 1nat
{
    if i < 0 { None } else {
    match value_end(s, i) {
        None => None,
        Some(e) => {
            let q = ws_end(s, e);
            if !(i < e <= q < s.len()) { None }
            else if s[q] == 0x5d { Some(q + 1) }
            else if s[q] == 0x2c { elems_end(s, q + 1) }
            else { None }
        }
    } }
}
// i: offset just after '{'
pub open spec fn obj_end(s: Seq<u8>, i: int) -> Option<int>
    decreases s.len() - i, 2nat
{
    let p = ws_end(s, i);
    if !(0 <= i <= p < s.len()) { None }
    else if s[p] == 0x7d { Some(p + 1) }
    else if s[p] == 0x22 { members_end(s, p + 1) }
    else { None }
}
// i: offset just after the opening quote of a member name
pub open spec fn members_end(s: Seq<u8>, i: int) -> Option<int>
    decreases s.len() - i, 1nat
{
    if i < 0 { None } else {
    match str_end(s, i) {
        None => None,
        Some(k) => {
            let c = ws_end(s, k);
            if !(i < k <= c < s.len()) || s[c] != 0x3a { None }
            else {
                match value_end(s, c + 1) {
                    None => None,
                    Some(e) => {
                        let q = ws_end(s, e);
                        if !(c + 1 < e <= q < s.len()) { None }
                        else if s[q] == 0x7d { Some(q + 1) }
                        else if s[q] == 0x2c {
                            let r = ws_end(s, q + 1);
                            if q + 1 <= r < s.len() && s[r] == 0x22 { members_end(s, r + 1) } else { None }
                        } else { None }
                    }
                }
            }
        }
    } }
}
// a complete JSON text: ws value ws
pub open spec fn is_json_text(s: Seq<u8>) -> bool {
    match value_end(s, 0) {
        Some(e) => ws_end(s, e) == s.len(),
        None => false,
    }
}

pub proof fn lemma_lit_bounds(s: Seq<u8>, i: int, rest: Seq<u8>)
    requires lit_end(s, i, rest).is_some(),
    ensures i <= lit_end(s, i, rest).unwrap() <= s.len(),
{ }

// every successful match advances and stays inside the input
pub proof fn lemma_value_end_bounds(s: Seq<u8>, i: int)
    requires 0 <= i <= s.len(), value_end(s, i).is_some(),
    ensures i <= ws_end(s, i) < value_end(s, i).unwrap() <= s.len(),
    decreases s.len() - i, 0nat
{
    lemma_ws_end_bounds(s, i);
    let p = ws_end(s, i);
    if s[p] == 0x2d || is_digit(s[p]) { lemma_number_end_bounds(s, p); }
    else if s[p] == 0x22 { lemma_str_end_bounds(s, p + 1); }
    else if s[p] == 0x7b { lemma_obj_end_bounds(s, p + 1); }
    else if s[p] == 0x5b { lemma_arr_end_bounds(s, p + 1); }
    else { }
}
pub proof fn lemma_arr_end_bounds(s: Seq<u8>, i: int)
    requires 0 <= i <= s.len(), arr_end(s, i).is_some(),
    ensures i < arr_end(s, i).unwrap() <= s.len(),
    decreases s.len() - i, 2nat
{
    lemma_ws_end_bounds(s, i);
    let p = ws_end(s, i);
    if s[p] == 0x5d { } else { lemma_elems_end_bounds(s, i); }
}
pub proof fn lemma_elems_end_bounds(s: Seq<u8>, i: int)
    requires 0 <= i <= s.len(), elems_end(s, i).is_some(),
    ensures i < elems_end(s, i).unwrap() <= s.len(),
    decreases s.len() - i, 1nat
{
    let e = value_end(s, i).unwrap();
    let q = ws_end(s, e);
    if s[q] == 0x5d { } else { lemma_elems_end_bounds(s, q + 1); }
}
pub proof fn lemma_obj_end_bounds(s: Seq<u8>, i: int)
    requires 0 <= i <= s.len(), obj_end(s, i).is_some(),
    ensures i < obj_end(s, i).unwrap() <= s.len(),
    decreases s.len() - i, 2nat
{
    lemma_ws_end_bounds(s, i);
    let p = ws_end(s, i);
    if s[p] == 0x7d { } else { lemma_members_end_bounds(s, p + 1); }
}
pub proof fn lemma_members_end_bounds(s: Seq<u8>, i: int)
    requires 0 <= i <= s.len(), members_end(s, i).is_some(),
    ensures i < members_end(s, i).unwrap() <= s.len(),
    decreases s.len() - i, 1nat
{
    let k = str_end(s, i).unwrap();
    let c = ws_end(s, k);
    let e = value_end(s, c + 1).unwrap();
    let q = ws_end(s, e);
    if s[q] == 0x7d { } else {
        let r = ws_end(s, q + 1);
        lemma_members_end_bounds(s, r + 1);
    }
}

// leading whitespace is part of a value / element position: starting anywhere inside it is the same
pub proof fn lemma_value_end_ws(s: Seq<u8>, i: int, p: int)
    requires 0 <= i <= p <= ws_end(s, i), i <= s.len(),
    ensures value_end(s, i) == value_end(s, p),
{
    lemma_ws_end_idem(s, i, p);
    lemma_ws_end_bounds(s, i);
}
pub proof fn lemma_elems_end_ws(s: Seq<u8>, i: int, p: int)
    requires 0 <= i <= p <= ws_end(s, i), i <= s.len(),
    ensures elems_end(s, i) == elems_end(s, p),
{
    lemma_value_end_ws(s, i, p);
    lemma_ws_end_bounds(s, i);
    if value_end(s, p).is_some() { lemma_value_end_bounds(s, p); }
}

pub proof fn lemma_has_bs_extend(s: Seq<u8>, i0: int, a: int, b: int)
    requires i0 <= a <= b <= s.len(), 0 <= i0, forall|j: int| a <= j < b ==> #[trigger] s[j] != 0x5c,
    ensures has_bs(s, i0, a) == has_bs(s, i0, b),
{
    if has_bs(s, i0, b) {
        let j = choose|j: int| i0 <= j < b && 0 <= j < s.len() && s[j] == 0x5c;
        assert(j < a);
    }
}
pub proof fn lemma_has_bs_witness(s: Seq<u8>, i0: int, j: int, e: int)
    requires 0 <= i0 <= j < e <= s.len(), s[j] == 0x5c,
    ensures has_bs(s, i0, e),
{ }


// a well-formed literal contains no raw control byte and ends with a quote byte
pub proof fn lemma_str_no_ctrl(s: Seq<u8>, i: int)
    requires 0 <= i <= s.len(), str_end(s, i).is_some(),
    ensures forall|j: int| i <= j < str_end(s, i).unwrap() ==> #[trigger] s[j] >= 0x20,
        s[str_end(s, i).unwrap() - 1] == 0x22,
    decreases s.len() - i
{
    if s[i] == 0x22 { }
    else if s[i] == 0x5c {
        let e = esc_end(s, i).unwrap();
        lemma_str_no_ctrl(s, e);
        lemma_str_end_bounds(s, e);
    } else {
        lemma_str_no_ctrl(s, i + 1);
        lemma_str_end_bounds(s, i + 1);
    }
}

// ---- what may follow a value inside a well-formed text: whitespace, then `,` `]` `}` or the end of input
pub open spec fn is_tok(c: u8) -> bool { c == 0x5d || c == 0x7d || c == 0x2c }
pub open spec fn follow_ok(s: Seq<u8>, e: int) -> bool {
    let q = ws_end(s, e);
    q >= s.len() || is_tok(s[q])
}
