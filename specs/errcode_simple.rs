// payload-free stand-in for src/error.rs ErrorCode (the parser units only need variant identity)
#[derive(Debug, PartialEq, Eq)]
pub enum ErrorCode {
    Message, Io, EofWhileParsing, ExpectedColon, ExpectedArrayCommaOrEnd, ExpectedObjectCommaOrEnd,
    InvalidLiteral, InvalidJsonValue, ExpectedObjectStart, ExpectedArrayStart, InvalidEscape,
    InvalidNumber, NumberOutOfRange, InvalidUnicodeCodePoint, InvalidUTF8,
    ControlCharacterWhileParsingString, ExpectObjectKeyOrEnd, TrailingComma, TrailingCharacters,
    RecursionLimitExceeded, GetInEmptyObject, GetUnknownKeyInObject, GetInEmptyArray,
    GetIndexOutOfArray, UnexpectedVisitType, InvalidSurrogateUnicodeCodePoint, FloatMustBeFinite,
    ExpectedNumericKey, ExpectedQuote, SerExpectKeyIsStrOrNum,
}
