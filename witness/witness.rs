// Witness search for Verus violations (DESIGN.md §4): Verus gives no model, so when a Verus obligation of property P
// fails, this program — built against a scratch copy of the CURRENT /repo tree — runs the real public entry points
// against small executable references on a family of generated inputs (seed documents, all single-byte deletions /
// substitutions / insertions over a structural alphabet, number literals around the SIMD block sizes and the u64/i64
// boundaries) and prints the first disagreement as `WITNESS <property> <description>`. It never raises an alarm by
// itself: it only attaches an input to a violation the verifier has already reported.
use sonic_rs::{JsonValueTrait, LazyValue};
use std::panic::{catch_unwind, AssertUnwindSafe};

// ---------------- reference RFC 8259 recogniser (end offset of a value starting at i, after optional ws)
fn ws(s: &[u8], mut i: usize) -> usize { while i < s.len() && matches!(s[i], b' ' | b'\t' | b'\n' | b'\r') { i += 1; } i }
fn digits(s: &[u8], mut i: usize) -> usize { while i < s.len() && s[i].is_ascii_digit() { i += 1; } i }
fn number(s: &[u8], mut i: usize) -> Option<usize> {
    if i < s.len() && s[i] == b'-' { i += 1; }
    if i >= s.len() || !s[i].is_ascii_digit() { return None; }
    if s[i] == b'0' { i += 1; if i < s.len() && s[i].is_ascii_digit() { return None; } } else { i = digits(s, i); }
    if i < s.len() && s[i] == b'.' { let j = digits(s, i + 1); if j == i + 1 { return None; } i = j; }
    if i < s.len() && (s[i] == b'e' || s[i] == b'E') {
        let mut j = i + 1; if j < s.len() && (s[j] == b'+' || s[j] == b'-') { j += 1; }
        let k = digits(s, j); if k == j { return None; } i = k;
    }
    Some(i)
}
fn string(s: &[u8], mut i: usize) -> Option<usize> { // i after opening quote
    loop {
        if i >= s.len() { return None; }
        match s[i] {
            b'"' => return Some(i + 1),
            b'\\' => {
                if i + 1 >= s.len() { return None; }
                match s[i + 1] {
                    b'"' | b'\\' | b'/' | b'b' | b'f' | b'n' | b'r' | b't' => i += 2,
                    b'u' => { if i + 6 > s.len() || !s[i + 2..i + 6].iter().all(|c| c.is_ascii_hexdigit()) { return None; } i += 6; }
                    _ => return None,
                }
            }
            c if c < 0x20 => return None,
            _ => i += 1,
        }
    }
}
fn value(s: &[u8], i: usize, depth: usize) -> Option<usize> {
    if depth > 64 { return None; }
    let p = ws(s, i);
    if p >= s.len() { return None; }
    match s[p] {
        b'-' | b'0'..=b'9' => number(s, p),
        b'"' => string(s, p + 1),
        b't' => if s[p..].starts_with(b"true") { Some(p + 4) } else { None },
        b'f' => if s[p..].starts_with(b"false") { Some(p + 5) } else { None },
        b'n' => if s[p..].starts_with(b"null") { Some(p + 4) } else { None },
        b'[' => {
            let mut q = ws(s, p + 1);
            if q < s.len() && s[q] == b']' { return Some(q + 1); }
            loop {
                let e = value(s, q, depth + 1)?; let r = ws(s, e);
                if r >= s.len() { return None; }
                if s[r] == b']' { return Some(r + 1); }
                if s[r] != b',' { return None; }
                q = r + 1;
            }
        }
        b'{' => {
            let mut q = ws(s, p + 1);
            if q < s.len() && s[q] == b'}' { return Some(q + 1); }
            loop {
                if q >= s.len() || s[q] != b'"' { return None; }
                let k = string(s, q + 1)?; let c = ws(s, k);
                if c >= s.len() || s[c] != b':' { return None; }
                let e = value(s, c + 1, depth + 1)?; let r = ws(s, e);
                if r >= s.len() { return None; }
                if s[r] == b'}' { return Some(r + 1); }
                if s[r] != b',' { return None; }
                q = ws(s, r + 1);
            }
        }
        _ => None,
    }
}
// true iff s — a prefix that ends at a token boundary — contains no definite syntax error (it can be completed)
fn viable_prefix(s: &[u8]) -> bool {
    #[derive(PartialEq)]
    enum St { Val, ValOrEnd, AfterVal, KeyOrEnd, Key, Colon }
    let (mut stack, mut st, mut i) = (Vec::<u8>::new(), St::Val, 0usize);
    loop {
        i = ws(s, i);
        if i >= s.len() { return true; }
        let c = s[i];
        match st {
            St::Val | St::ValOrEnd => {
                if st == St::ValOrEnd && c == b']' { stack.pop(); i += 1; st = St::AfterVal; continue; }
                match c {
                    b'[' => { stack.push(c); i += 1; st = St::ValOrEnd; }
                    b'{' => { stack.push(c); i += 1; st = St::KeyOrEnd; }
                    _ => match value(s, i, 0) { Some(e) => { i = e; st = St::AfterVal; } None => return false },
                }
            }
            St::AfterVal => match (stack.last().copied(), c) {
                (Some(b'['), b',') => { i += 1; st = St::Val; }
                (Some(b'{'), b',') => { i += 1; st = St::Key; }
                (Some(b'['), b']') | (Some(b'{'), b'}') => { stack.pop(); i += 1; }
                _ => return false,
            },
            St::KeyOrEnd | St::Key => {
                if st == St::KeyOrEnd && c == b'}' { stack.pop(); i += 1; st = St::AfterVal; continue; }
                if c != b'"' { return false; }
                match string(s, i + 1) { Some(e) => { i = e; st = St::Colon; } None => return false }
            }
            St::Colon => { if c != b':' { return false; } i += 1; st = St::Val; }
        }
    }
}
fn is_text(s: &[u8]) -> bool { match value(s, 0, 0) { Some(e) => ws(s, e) == s.len(), None => false } }
fn line_col(s: &[u8], off: usize) -> (usize, usize) {
    let (mut l, mut c) = (1, 0);
    for &b in &s[..off.min(s.len())] { if b == b'\n' { l += 1; c = 0; } else { c += 1; } }
    (l, c)
}

// ---------------- input family
fn seeds() -> Vec<Vec<u8>> {
    let base: &[&str] = &[
        "", " ", "0", "-0", "1", "-1", "1.5", "0.5", "1e5", "1E-2", "12.5e+3", "true", "false", "null", "\"\"", "\"a\"", "\"a\\nb\"",
        "\"\\u00e9\"", "\"\\ud83d\\ude00\"", "[]", "[1]", "[1,2]", "[1, 2, 3]", "[[]]", "[[1],[2]]", "[\"a\",\"b\"]", "[true,false,null]",
        "{}", "{\"a\":1}", "{\"a\":1,\"b\":2}", "{\"a\":{\"b\":[1,2]}}", "{\"a\":\"x\",\"b\":[],\"c\":{}}", " [ 1 , 2 ] ", "{ \"a\" : 1 , \"b\" : 2 }",
        "[1.5,2e3,-0.1]", "{\"k\":\"\\\"q\\\"\"}", "[\"\\\\\",1]", "{\"a\":1}\n", "[\n1,\n2\n]", "{\"a\":[1,{\"b\":null}],\"c\":\"d\"}",
        "{\"a\":[1,2],\"b\":true}", "[[1,2],3]", "[\"a\\nb\",1]", "{\"a\\nb\":1,\"k\":2}", "[\"é\",1]", "{\"é\":\"日本\",\"k\":[\"😀\"]}", "[\n\"é\",\n\"日\"]",
        "{\"a\":{\"b\":1,\"c\":true}}", "{\"a\":[10,20,30]}", "{\"a\":{\"b\":1,\"x\":2},\"c\":3}",
    ];
    base.iter().map(|s| s.as_bytes().to_vec()).collect()
}
fn mutations(doc: &[u8]) -> Vec<Vec<u8>> {
    let alpha: &[u8] = b" ,:\"[]{}\\0159.-eEtfnux\n\x0c\x0b\x00";
    let mut out = vec![doc.to_vec()];
    for i in 0..doc.len() {
        let mut d = doc.to_vec(); d.remove(i); out.push(d);
        for &a in alpha { let mut d = doc.to_vec(); d[i] = a; out.push(d); }
    }
    for i in 0..=doc.len() { for &a in alpha { let mut d = doc.to_vec(); d.insert(i, a); out.push(d); } }
    for i in 0..doc.len() { out.push(doc[..i].to_vec()); }
    out
}
fn numbers() -> Vec<Vec<u8>> {
    let mut v: Vec<String> = Vec::new();
    for n in [1usize, 2, 15, 16, 17, 18, 19, 20, 21, 30, 31, 32, 33, 34, 62, 63, 64, 65, 66, 96, 97] {
        let d: String = (0..n).map(|i| char::from(b'1' + (i % 9) as u8)).collect();
        for tail in ["", ".5", ".5.5", ".25e3", "e5", ".5e", ".", "e", ".5.5e3", "5", ".125", ".5e+2"] {
            v.push(format!("{d}{tail}")); v.push(format!("-{d}{tail}"));
        }
    }
    for b in [u64::MAX as u128, i64::MAX as u128, 1u128 << 63, 10u128.pow(19), 10u128.pow(18)] {
        for d in -4i128..=20 { let x = (b as i128 + d) as u128; v.push(x.to_string()); v.push(format!("-{x}")); }
    }
    for z in ["-0", "-0.0", "-0e5", "-0.000e-3", "0.0", "0e0", "00", "01", "-01", "0.", "-", "1.e3", "1e+", "0.5.5", "1.2.3", "-3.25.1e2"] { v.push(z.to_string()); }
    v.into_iter().map(|s| s.into_bytes()).collect()
}

fn report(prop: &str, what: String) -> ! { println!("WITNESS {prop} {what}"); std::process::exit(3) }
fn show(s: &[u8]) -> String { format!("{:?}", String::from_utf8_lossy(s)) }

fn main() {
    let prop = std::env::args().nth(1).unwrap_or_else(|| "all".to_string());
    let want = |p: &str| prop == "all" || prop == p;
    std::panic::set_hook(Box::new(|_| {}));
    let mut docs: Vec<Vec<u8>> = Vec::new();
    for s in seeds() { docs.extend(mutations(&s)); }
    let nums = numbers();
    for n in &nums {
        docs.push(n.clone());
        let mut a = b"[".to_vec(); a.extend_from_slice(n); a.extend_from_slice(b",7]"); docs.push(a);
        let mut o = b"{\"x\":".to_vec(); o.extend_from_slice(n); o.extend_from_slice(b",\"k\":true}"); docs.push(o);
    }
    docs.sort(); docs.dedup();
    let mut cases = 0usize;
    for d in &docs {
        if std::str::from_utf8(d).is_err() { continue; }
        let txt = std::str::from_utf8(d).unwrap();
        cases += 1;
        let ok = is_text(d);
        // C01: no panic on any entry point used below
        let r = catch_unwind(AssertUnwindSafe(|| {
            let lazy: Result<LazyValue, _> = sonic_rs::from_str(txt);
            let val: Result<sonic_rs::Value, _> = sonic_rs::from_str(txt);
            let it: Vec<_> = sonic_rs::to_array_iter(txt).collect();
            let ot: Vec<_> = sonic_rs::to_object_iter(txt).collect();
            let verr = val.as_ref().err().map(|e| (e.offset(), e.line(), e.column()));
            (lazy.map(|l| l.as_raw_str().to_string()).map_err(|e| (e.offset(), e.line(), e.column())), val.is_ok(), it, ot, verr)
        }));
        let (lazy, val_ok, it, ot, verr) = match r { Ok(x) => x, Err(_) => { if want("C01") { report("C01", format!("panic on input {}", show(d))) } else { continue } } };
        // C02 / C14: validate-and-skip acceptance == RFC 8259; fully decoding accepts only well-formed text
        if (want("C02") || want("C14")) && lazy.is_ok() != ok { report(if want("C02") { "C02" } else { "C14" }, format!("from_str::<LazyValue>({}) is_ok={} but RFC 8259 says {}", show(d), lazy.is_ok(), ok)); }
        if want("C02") && val_ok && !ok { report("C02", format!("from_str::<Value>({}) accepted malformed text", show(d))); }
        if want("C08") && lazy.is_ok() { if let Ok(rn) = sonic_rs::from_str::<sonic_rs::RawNumber>(txt) { if number(rn.as_str().as_bytes(), 0) != Some(rn.as_str().len()) { report("C08", format!("RawNumber from {} holds {:?}: not a JSON number", show(d), rn.as_str())); } } }
        // C20: errors locate themselves
        if want("C20") { if let Err((off, l, c)) = &lazy { if *off > d.len() || (*l, *c) != line_col(d, *off) { report("C20", format!("error for {} reports offset {} line {} column {}, expected line/column {:?}", show(d), off, l, c, line_col(d, *off))); } } }
        if want("C20") { if let Some((off, l, c)) = verr { if off > d.len() { report("C20", format!("from_str::<Value>({}) error reports offset {} beyond the input length {}", show(d), off, d.len())); } if (l, c) != line_col(d, off) { report("C20", format!("from_str::<Value>({}) error reports offset {} line {} column {}, expected line/column {:?}", show(d), off, l, c, line_col(d, off))); } } }
        // C20 through the non-serde entry points (get, iterators): the same demand on every error they return
        if want("C20") {
            let chk = |what: &str, e: &sonic_rs::Error| { let (off, l, c) = (e.offset(), e.line(), e.column()); if off > d.len() || (l, c) != line_col(d, off) { report("C20", format!("{what} over {}: error `{}` reports offset {} line {} column {}, expected line/column {:?}", show(d), e.to_string().lines().next().unwrap_or(""), off, l, c, line_col(d, off.min(d.len())))); } };
            if let Ok(txt) = std::str::from_utf8(d) {
                if let Err(e) = sonic_rs::get(txt, &sonic_rs::pointer![0]) { if !e.is_not_found() { chk("get([0])", &e); } }
                if let Err(e) = sonic_rs::get(txt, &sonic_rs::pointer!["a"]) { if !e.is_not_found() { chk("get([\"a\"])", &e); } }
                if let Err(e) = sonic_rs::get(txt, &sonic_rs::pointer![1, "a", 0]) { if !e.is_not_found() { chk("get([1,\"a\",0])", &e); } }
                for x in sonic_rs::to_array_iter(txt) { if let Err(e) = x { chk("to_array_iter", &e); } }
                for x in sonic_rs::to_object_iter(txt) { if let Err(e) = x { chk("to_object_iter", &e); } }
            }
        }
        if want("C02") && val_ok != ok && !ok { report("C02", format!("from_str::<Value>({}) accepted malformed text", show(d))); }
        // C03: the embedded (copy-out) parse of a value equals the whole-input parse
        if want("C03") && ok {
            #[derive(serde::Deserialize)] struct W { v: sonic_rs::Value }
            let wrapped = format!("{{\"v\":{}}}", txt);
            let emb = catch_unwind(AssertUnwindSafe(|| sonic_rs::from_str::<W>(&wrapped).map(|w| sonic_rs::to_string(&w.v).unwrap())));
            let whole = sonic_rs::from_str::<sonic_rs::Value>(txt).map(|v| sonic_rs::to_string(&v).unwrap());
            match (emb, whole) {
                (Err(_), _) => report("C03", format!("embedded parse of {} panicked", show(d))),
                (Ok(Ok(a)), Ok(b)) if a != b => report("C03", format!("embedded parse of {} gives {} but whole-input parse gives {}", show(d), a, b)),
                (Ok(Err(_)), Ok(_)) => report("C03", format!("embedded parse of well-formed {} failed", show(d))),
                _ => {}
            }
        }
        // C03, use_rawnumber: the embedded / streamed (copy-out) parse keeps every number's text exactly, sign included
        if want("C03") && ok {
            #[derive(serde::Deserialize)] struct W2 { v: sonic_rs::Value }
            let wrapped = format!("{{\"v\":{}}}", txt);
            let streamed = format!("0 {}", txt);
            let r = catch_unwind(AssertUnwindSafe(|| {
                let whole = sonic_rs::Deserializer::from_str(txt).use_rawnumber().deserialize::<sonic_rs::Value>().map(|v| v.to_string());
                let emb = sonic_rs::Deserializer::from_str(&wrapped).use_rawnumber().deserialize::<W2>().map(|w| w.v.to_string());
                let second = sonic_rs::Deserializer::from_str(&streamed).use_rawnumber().into_stream::<sonic_rs::Value>().nth(1).map(|x| x.map(|v| v.to_string()));
                (whole, emb, second)
            }));
            match r {
                Err(_) => report("C03", format!("use_rawnumber parse of {} panicked", show(d))),
                Ok((Ok(a), emb, second)) => {
                    match emb { Ok(b) if a != b => report("C03", format!("use_rawnumber: embedded parse of {} gives {} but whole-input parse gives {}", show(d), b, a)), Err(_) => report("C03", format!("use_rawnumber: embedded parse of well-formed {} failed", show(d))), _ => {} }
                    match second { Some(Ok(b)) if a != b => report("C03", format!("use_rawnumber: {} as the second document of a stream gives {} but whole-input parse gives {}", show(d), b, a)), Some(Err(_)) | None => report("C03", format!("use_rawnumber: {} as the second document of a stream failed", show(d))), _ => {} }
                }
                _ => {}
            }
        }
        // C12 / C14: checked iterators yield only well-formed items, and exactly the elements for well-formed arrays
        if want("C12") || want("C14") {
            let mut errs = 0;
            for x in &it { match x { Ok(lv) => { if !is_text(lv.as_raw_str().as_bytes()) { report("C14", format!("array iterator over {} yielded malformed item {:?}", show(d), lv.as_raw_str())); } if errs > 0 { report("C12", format!("array iterator over {} yielded an item after an error", show(d))); } } Err(_) => errs += 1 } }
            if errs > 1 { report("C12", format!("array iterator over {} yielded {} errors", show(d), errs)); }
            let p = ws(d, 0);
            if p < d.len() && d[p] == b'[' { if let Some(_) = value(d, 0, 0) { if errs != 0 { report("C12", format!("array iterator over well-formed {} reported an error", show(d))); } } else if errs == 0 { report("C12", format!("array iterator over malformed array {} ended without an error", show(d))); } }
            let mut oerrs = 0;
            for x in &ot { match x { Ok((_, lv)) => { if !is_text(lv.as_raw_str().as_bytes()) { report("C14", format!("object iterator over {} yielded malformed value {:?}", show(d), lv.as_raw_str())); } if oerrs > 0 { report("C12", format!("object iterator over {} yielded an item after an error", show(d))); } } Err(_) => oerrs += 1 } }
            if p < d.len() && d[p] == b'{' { if value(d, 0, 0).is_some() { if oerrs != 0 { report("C12", format!("object iterator over well-formed {} reported an error", show(d))); } } else if oerrs == 0 { report("C12", format!("object iterator over malformed object {} ended without an error", show(d))); } }
        }
        // C12: on well-formed input the unchecked iterators agree with the checked ones (items' exact raw text)
        if want("C12") && ok {
            let ck: Vec<String> = it.iter().filter_map(|x| x.as_ref().ok().map(|l| l.as_raw_str().to_string())).collect();
            if it.iter().all(|x| x.is_ok()) && !it.is_empty() {
                let un: Vec<String> = unsafe { sonic_rs::to_array_iter_unchecked(txt) }.filter_map(|x| x.ok().map(|l| l.as_raw_str().to_string())).collect();
                if un != ck { report("C12", format!("to_array_iter_unchecked({}) yields {:?}, the checked iterator yields {:?}", show(d), un, ck)); }
            }
            let ok_ot: Vec<(String, String)> = ot.iter().filter_map(|x| x.as_ref().ok().map(|(k, l)| (k.to_string(), l.as_raw_str().to_string()))).collect();
            if ot.iter().all(|x| x.is_ok()) && !ot.is_empty() {
                let un: Vec<(String, String)> = unsafe { sonic_rs::to_object_iter_unchecked(txt) }.filter_map(|x| x.ok().map(|(k, l)| (k.to_string(), l.as_raw_str().to_string()))).collect();
                if un != ok_ot { report("C12", format!("to_object_iter_unchecked({}) yields {:?}, the checked iterator yields {:?}", show(d), un, ok_ot)); }
            }
        }
        // C13: an OwnedLazyValue of a well-formed text serializes verbatim, its children are the exact source spans of
        // the elements / members, and a clone taken after children were read still serializes verbatim
        if want("C13") && ok {
            let trimmed = txt.trim_matches(|c| c == ' ' || c == '\n' || c == '\t' || c == '\r');
            // scalar accessors of the lazy flavours against the DOM of the same text (also for the first children)
            {
                use sonic_rs::JsonValueTrait;
                fn acc<T: JsonValueTrait>(v: &T) -> String { format!("{:?} {:?} {:?} {:?} {:?} {:?}", v.get_type(), v.as_bool(), v.as_i64(), v.as_u64(), v.as_f64().map(f64::to_bits), v.as_str()) }
                let r = catch_unwind(AssertUnwindSafe(|| -> Option<String> {
                    let dom: sonic_rs::Value = sonic_rs::from_str(txt).ok()?;
                    let lv: sonic_rs::LazyValue = match sonic_rs::from_str(txt) { Ok(v) => v, Err(e) => return Some(format!("from_str::<LazyValue>({}) rejects a well-formed text: {e}", show(d))) };
                    let ov: sonic_rs::OwnedLazyValue = sonic_rs::from_str(txt).ok()?;
                    if acc(&lv) != acc(&dom) { return Some(format!("LazyValue of {}: accessors {} vs DOM {}", show(d), acc(&lv), acc(&dom))); }
                    if acc(&ov) != acc(&dom) { return Some(format!("OwnedLazyValue of {}: accessors {} vs DOM {}", show(d), acc(&ov), acc(&dom))); }
                    let ov2 = sonic_rs::OwnedLazyValue::from(lv.clone());
                    if acc(&ov2) != acc(&dom) { return Some(format!("OwnedLazyValue::from(LazyValue) of {}: accessors {} vs DOM {}", show(d), acc(&ov2), acc(&dom))); }
                    for i in 0..3usize { if let (Some(a), Some(b), Some(c)) = (lv.get(i), ov.get(i), dom.get(i)) { if acc(&a) != acc(c) { return Some(format!("LazyValue of {}: element {i} accessors {} vs DOM {}", show(d), acc(&a), acc(c))); } if acc(b) != acc(c) { return Some(format!("OwnedLazyValue of {}: element {i} accessors {} vs DOM {}", show(d), acc(b), acc(c))); } } }
                    for k in ["a", "b", "k"] { if let (Some(a), Some(b), Some(c)) = (lv.get(k), ov.get(k), dom.get(k)) { if acc(&a) != acc(c) { return Some(format!("LazyValue of {}: member {k:?} accessors {} vs DOM {}", show(d), acc(&a), acc(c))); } if acc(b) != acc(c) { return Some(format!("OwnedLazyValue of {}: member {k:?} accessors {} vs DOM {}", show(d), acc(b), acc(c))); } } }
                    None
                }));
                match r { Ok(Some(m)) => report("C13", m), Err(_) => report("C13", format!("lazy accessors over {} panic", show(d))), _ => {} }
            }
            let r = catch_unwind(AssertUnwindSafe(|| {
                let olv: sonic_rs::OwnedLazyValue = match sonic_rs::from_str(txt) { Ok(v) => v, Err(e) => return Some(format!("from_str::<OwnedLazyValue>({}) rejects a well-formed text: {e}", show(d))) };
                match sonic_rs::to_string(&olv) { Ok(s) if s == trimmed => {} other => return Some(format!("OwnedLazyValue of {} serializes to {:?}", show(d), other.ok())) }
                if it.iter().all(|x| x.is_ok()) && !it.is_empty() {
                    for (i, x) in it.iter().enumerate() {
                        let raw = x.as_ref().unwrap().as_raw_str();
                        match olv.get(i) { Some(c) => { let s = sonic_rs::to_string(c).unwrap_or_default(); if s != raw { return Some(format!("OwnedLazyValue of {}: child {i} serializes to {:?}, its source span is {:?}", show(d), s, raw)); } let _ = c.as_f64(); let _ = c.as_str(); } None => return Some(format!("OwnedLazyValue of {}: child {i} ({:?}) is missing", show(d), raw)) }
                    }
                }
                if ot.iter().all(|x| x.is_ok()) && !ot.is_empty() {
                    let keys: Vec<String> = ot.iter().map(|x| x.as_ref().unwrap().0.to_string()).collect();
                    let dup = (0..keys.len()).any(|a| (0..a).any(|b| keys[a] == keys[b]));
                    if !dup {
                        for x in ot.iter() {
                            let (k, lv) = x.as_ref().unwrap();
                            let raw = lv.as_raw_str();
                            match olv.get(&**k) { Some(c) => { let s = sonic_rs::to_string(c).unwrap_or_default(); if s != raw { return Some(format!("OwnedLazyValue of {}: member {:?} serializes to {:?}, its source span is {:?}", show(d), k, s, raw)); } let _ = c.as_f64(); let _ = c.as_str(); } None => return Some(format!("OwnedLazyValue of {}: member {:?} ({:?}) is missing", show(d), k, raw)) }
                        }
                    }
                }
                let c = olv.clone();
                match sonic_rs::to_string(&c) { Ok(s) if s == trimmed => {} other => return Some(format!("clone of the OwnedLazyValue of {} (taken after its children were read) serializes to {:?}", show(d), other.ok())) }
                None
            }));
            match r { Ok(None) => {} Ok(Some(m)) => report("C13", m), Err(_) => report("C13", format!("OwnedLazyValue of {}: an accessor panicked", show(d))) }
        }
        // C14 / C10: checked get hands out only well-formed fragments after a well-formed prefix
        if want("C14") || want("C10") {
            for path in [vec![sonic_rs::PointerNode::Index(1)], vec![sonic_rs::PointerNode::Key("k".into())], vec![sonic_rs::PointerNode::Key("b".into())], vec![sonic_rs::PointerNode::Index(0)]] {
                if let Ok(lv) = sonic_rs::get(txt, path.iter()) {
                    let raw = lv.as_raw_str();
                    if !is_text(raw.as_bytes()) { report("C14", format!("get({}, {:?}) returned malformed fragment {:?}", show(d), path, raw)); }
                    // everything before the fragment must be a prefix of some well-formed traversal: cheap check — the
                    // document truncated right after the fragment and closed minimally must not contain junk numbers
                    let off = raw.as_ptr() as usize - txt.as_ptr() as usize;
                    for tok in txt[..off].split(|c: char| ",:[]{} \n".contains(c)) { let t = tok.as_bytes(); if !t.is_empty() && (t[0] == b'-' || t[0].is_ascii_digit()) && number(t, 0) != Some(t.len()) { report("C14", format!("get({}, {:?}) succeeded although the traversed prefix contains the malformed number {:?}", show(d), path, tok)); } }
                }
            }
        }
    }
    // C14: checked get_many — every returned fragment is well formed and so is everything traversed before it
    if want("C14") {
        use sonic_rs::{pointer, PointerTree};
        let mut trees: Vec<PointerTree> = Vec::new();
        { let mut t = PointerTree::new(); t.add_path(&pointer!["a", 0]); t.add_path(&pointer!["b"]); trees.push(t); }
        { let mut t = PointerTree::new(); t.add_path(&pointer![0, 0]); t.add_path(&pointer![1]); trees.push(t); }
        { let mut t = PointerTree::new(); t.add_path(&pointer!["a", "b"]); t.add_path(&pointer!["c"]); trees.push(t); }
        { let mut t = PointerTree::new(); t.add_path(&pointer![0]); t.add_path(&pointer![1]); trees.push(t); }
        // a path that is a proper prefix of another one
        { let mut t = PointerTree::new(); t.add_path(&pointer!["a"]); t.add_path(&pointer!["a", "b"]); trees.push(t); }
        { let mut t = PointerTree::new(); t.add_path(&pointer!["a"]); t.add_path(&pointer!["a", 1]); trees.push(t); }
        { let mut t = PointerTree::new(); t.add_path(&pointer![0]); t.add_path(&pointer![0, 0]); trees.push(t); }
        for d in &docs {
            let Ok(txt) = std::str::from_utf8(d) else { continue };
            for (k, t) in trees.iter().enumerate() {
                let r = catch_unwind(AssertUnwindSafe(|| sonic_rs::get_many(txt, t)));
                let Ok(r) = r else { continue };
                if let Ok(v) = r {
                    let mut far = 0usize;
                    for lv in v.iter().flatten() {
                        let raw = lv.as_raw_str();
                        if !is_text(raw.as_bytes()) { report("C14", format!("get_many({}, tree #{k}) returned malformed fragment {:?}", show(d), raw)); }
                        far = far.max(raw.as_ptr() as usize - txt.as_ptr() as usize);
                    }
                    if !viable_prefix(&d[..far.min(d.len())]) { report("C14", format!("get_many({}, tree #{k}) succeeded although the text traversed before the last returned value (offset {far}) is malformed", show(d))); }
                }
            }
        }
    }
    // C10: on well-formed input the unchecked get agrees with the checked one — long strings with escapes / quotes /
    // brackets placed around the 64-byte blocks of the container skipper
    if want("C10") {
        let mut fam: Vec<String> = Vec::new();
        for pad in 0..200usize {
            let a = "a".repeat(pad);
            for tail in ["\\\"", "\\\\", "]", "}\\\"{", "\\n"] {
                fam.push(format!("[[\"{a}{tail}]\", 1], {{\"k\":\"v\"}}]"));
                fam.push(format!("{{\"x\":{{\"s\":\"{a}{tail}}}\"}},\"k\":[1,2]}}"));
            }
        }
        for txt in &fam {
            if !is_text(txt.as_bytes()) { continue; }
            let r = catch_unwind(AssertUnwindSafe(|| {
                let c1 = sonic_rs::get(txt.as_str(), &[1usize]).ok().map(|l| l.as_raw_str().to_string());
                let u1 = unsafe { sonic_rs::get_unchecked(txt.as_str(), &[1usize]) }.ok().map(|l| l.as_raw_str().to_string());
                let c2 = sonic_rs::get(txt.as_str(), &["k"]).ok().map(|l| l.as_raw_str().to_string());
                let u2 = unsafe { sonic_rs::get_unchecked(txt.as_str(), &["k"]) }.ok().map(|l| l.as_raw_str().to_string());
                (c1, u1, c2, u2)
            }));
            match r {
                Ok((c1, u1, c2, u2)) => {
                    if c1 != u1 { report("C10", format!("get_unchecked({:?}, [1]) = {:?}, checked get = {:?}", txt, u1, c1)); }
                    if c2 != u2 { report("C10", format!("get_unchecked({:?}, [\"k\"]) = {:?}, checked get = {:?}", txt, u2, c2)); }
                }
                Err(_) => report("C10", format!("get / get_unchecked panics on {:?}", txt)),
            }
        }
    }
    // C05: compact and pretty output of the real serializer against serde_json's on the same data model
    if want("C05") {
        for d in &docs {
            let Ok(txt) = std::str::from_utf8(d) else { continue };
            let Ok(sv) = serde_json::from_str::<serde_json::Value>(txt) else { continue };
            // float text is ryu's on both sides but exponent style differs (1e19 / 1e+19): both are valid JSON, skip
            fn has_float(v: &serde_json::Value) -> bool { match v { serde_json::Value::Number(n) => n.is_f64(), serde_json::Value::Array(a) => a.iter().any(has_float), serde_json::Value::Object(o) => o.values().any(has_float), _ => false } }
            if has_float(&sv) { continue; }
            let r = catch_unwind(AssertUnwindSafe(|| (sonic_rs::to_string(&sv), sonic_rs::to_string_pretty(&sv))));
            let Ok((c, p)) = r else { report("C05", format!("serializing the value of {} panics", show(d))) };
            match (c, serde_json::to_string(&sv)) { (Ok(a), Ok(b)) if a != b => report("C05", format!("to_string of the value of {} gives {:?}, reference {:?}", show(d), a, b)), (Err(e), Ok(_)) => report("C05", format!("to_string of the value of {} fails: {e}", show(d))), _ => {} }
            match (p, serde_json::to_string_pretty(&sv)) { (Ok(a), Ok(b)) if a != b => report("C05", format!("to_string_pretty of the value of {} gives {:?}, reference {:?}", show(d), a, b)), (Err(e), Ok(_)) => report("C05", format!("to_string_pretty of the value of {} fails: {e}", show(d))), _ => {} }
        }
    }
    // C05: maps keyed by char / bool / integers (the map-key serializer), against serde_json's text
    if want("C05") {
        use std::collections::BTreeMap;
        let mut cm: BTreeMap<char, u8> = BTreeMap::new();
        for (i, c) in ['a', '"', '\\', '\u{1}', '\n', '/', 'é', '\u{7f}', '😀'].iter().enumerate() { cm.insert(*c, i as u8); }
        for c in cm.keys() {
            let mut one: BTreeMap<char, u8> = BTreeMap::new(); one.insert(*c, 1);
            match (sonic_rs::to_string(&one), serde_json::to_string(&one)) { (Ok(a), Ok(b)) if a != b => report("C05", format!("to_string of a map with the char key {:?} gives {:?}, reference {:?}", c, a, b)), (Err(e), Ok(_)) => report("C05", format!("to_string of a map with the char key {:?} fails: {e}", c)), _ => {} }
        }
        match (sonic_rs::to_string_pretty(&cm), serde_json::to_string_pretty(&cm)) { (Ok(a), Ok(b)) if a != b => report("C05", format!("to_string_pretty of a char-keyed map gives {:?}, reference {:?}", a, b)), _ => {} }
        #[derive(serde::Serialize, PartialEq, Eq, PartialOrd, Ord)] struct IdKey(u32);
        #[derive(serde::Serialize, PartialEq, Eq, PartialOrd, Ord)] struct FlagKey(bool);
        #[derive(serde::Serialize, PartialEq, Eq, PartialOrd, Ord)] struct NameKey(String);
        let mut nk: BTreeMap<IdKey, &str> = BTreeMap::new(); nk.insert(IdKey(7), "seven"); nk.insert(IdKey(42), "x");
        match (sonic_rs::to_string(&nk), serde_json::to_string(&nk)) { (Ok(a), Ok(b)) if a != b => report("C05", format!("to_string of a map keyed by a newtype over u32 gives {:?}, reference {:?}", a, b)), (Err(e), Ok(_)) => report("C05", format!("to_string of a map keyed by a newtype over u32 fails: {e}")), _ => {} }
        match (sonic_rs::to_string_pretty(&nk), serde_json::to_string_pretty(&nk)) { (Ok(a), Ok(b)) if a != b => report("C05", format!("to_string_pretty of a map keyed by a newtype over u32 gives {:?}, reference {:?}", a, b)), _ => {} }
        let mut fk: BTreeMap<FlagKey, u8> = BTreeMap::new(); fk.insert(FlagKey(true), 1);
        match (sonic_rs::to_string(&fk), serde_json::to_string(&fk)) { (Ok(a), Ok(b)) if a != b => report("C05", format!("to_string of a map keyed by a newtype over bool gives {:?}, reference {:?}", a, b)), _ => {} }
        let mut sk: BTreeMap<NameKey, u8> = BTreeMap::new(); sk.insert(NameKey("n\"\n".into()), 1);
        match (sonic_rs::to_string(&sk), serde_json::to_string(&sk)) { (Ok(a), Ok(b)) if a != b => report("C05", format!("to_string of a map keyed by a newtype over String gives {:?}, reference {:?}", a, b)), _ => {} }
        let mut bm: BTreeMap<bool, i64> = BTreeMap::new(); bm.insert(true, -1); bm.insert(false, i64::MIN);
        match (sonic_rs::to_string(&bm), serde_json::to_string(&bm)) { (Ok(a), Ok(b)) if a != b => report("C05", format!("to_string of a bool-keyed map gives {:?}, reference {:?}", a, b)), _ => {} }
        let mut im: BTreeMap<i64, u64> = BTreeMap::new(); im.insert(i64::MIN, u64::MAX); im.insert(0, 0); im.insert(7, 1);
        match (sonic_rs::to_string(&im), serde_json::to_string(&im)) { (Ok(a), Ok(b)) if a != b => report("C05", format!("to_string of an integer-keyed map gives {:?}, reference {:?}", a, b)), _ => {} }
    }
    // C02, UTF-8 half through the Deserializer API (found F22): invalid UTF-8 inside string literals must be rejected for
    // every target, also those whose strings are skipped or DOM-parsed; a byte string that is valid must be accepted
    if want("C02") || want("C01") {
        let pid = if want("C02") { "C02" } else { "C01" };
        let bads: [&[u8]; 6] = [b"\"a\xff\"", b"[\"\xc3\"]", b"{\"k\":\"\xff\"}", b"{\"\xff\":1}", b"\"\\n\xff\"", b"[1,{\"a\":[\"x\xf0\x28\"]}]"];
        for b in bads.iter() {
            macro_rules! tgt { ($t:ty, $name:expr) => {
                let r = catch_unwind(AssertUnwindSafe(|| sonic_rs::Deserializer::from_slice(b).deserialize::<$t>().is_ok()));
                match r { Ok(true) => report(pid, format!("Deserializer::from_slice({}).deserialize::<{}>() accepted invalid UTF-8", show(b), $name)), Err(_) => report(pid, format!("Deserializer::from_slice({}).deserialize::<{}>() panics", show(b), $name)), _ => {} }
                let r = catch_unwind(AssertUnwindSafe(|| sonic_rs::from_slice::<$t>(b).is_ok()));
                if let Ok(true) = r { report(pid, format!("from_slice::<{}>({}) accepted invalid UTF-8", $name, show(b))); }
            } }
            tgt!(sonic_rs::Value, "Value"); tgt!(sonic_rs::LazyValue, "LazyValue"); tgt!(sonic_rs::OwnedLazyValue, "OwnedLazyValue");
            tgt!(serde::de::IgnoredAny, "IgnoredAny"); tgt!(serde_json::Value, "serde_json::Value");
            if b[0] == b'"' {
                tgt!(String, "String");
                // the serde trait path (no document-level check behind it): the string decoder itself must refuse
                let r = catch_unwind(AssertUnwindSafe(|| { let mut de = sonic_rs::Deserializer::from_slice(b); <String as serde::Deserialize>::deserialize(&mut de).map(|s| s.into_bytes()) }));
                if let Ok(Ok(bytes)) = r { report(pid, format!("String::deserialize(&mut Deserializer::from_slice({})) returned a String with the bytes {:?}", show(b), bytes)); }
            }
            let mut doc = b.to_vec(); doc.extend_from_slice(b" 1");
            let first = catch_unwind(AssertUnwindSafe(|| sonic_rs::Deserializer::from_slice(&doc).into_stream::<sonic_rs::Value>().next().map(|x| x.is_ok())));
            if let Ok(Some(true)) = first { report(pid, format!("stream over {} yielded a Value holding invalid UTF-8", show(&doc))); }
        }
        let good = "[\"é\",{\"ключ\":\"值\"}] true".as_bytes();
        let st: Vec<bool> = sonic_rs::Deserializer::from_slice(good).into_stream::<sonic_rs::Value>().take(2).map(|x| x.is_ok()).collect();
        if st != vec![true, true] { report(pid, format!("stream over valid UTF-8 {} gives {:?}", show(good), st)); }
    }
    // C20 (found F23): typed targets whose errors are made by derived code after the deserializer returned
    if want("C20") {
        #[derive(serde::Deserialize, Debug)] #[serde(untagged)] #[allow(dead_code)] enum Un { I(i64), S(String) }
        #[derive(serde::Deserialize, Debug)] #[serde(tag = "t")] #[allow(dead_code)] enum Tg { A { x: i32 }, B }
        #[derive(serde::Deserialize, Debug)] #[allow(dead_code)] enum En { U, N(i32) }
        fn pos<T: serde::de::DeserializeOwned + std::fmt::Debug>(txt: &str, ty: &str) {
            if let Err(e) = sonic_rs::from_str::<T>(txt) {
                let (off, l, c) = (e.offset(), e.line(), e.column());
                if off > txt.len() || (l, c) != line_col(txt.as_bytes(), off) { report("C20", format!("from_str::<{ty}>({:?}) error `{}` reports offset {} line {} column {}, expected line/column {:?}", txt, e.to_string().lines().next().unwrap_or(""), off, l, c, line_col(txt.as_bytes(), off))); }
                let _ = format!("{e} {e:?}");
            }
            let mut de = sonic_rs::Deserializer::from_str(txt);
            if let Err(e) = de.deserialize::<T>() { if e.line() == 0 { report("C20", format!("Deserializer::deserialize::<{ty}>({:?}) error `{}` has no position", txt, e.to_string().lines().next().unwrap_or(""))); } }
        }
        for txt in ["{}", "[1]\n", "\n\n{\"t\":\"C\"}", "{\"t\":1}", "[\"A\"]", "\"N\"", "{\"U\":1}", "{\"N\":\"x\"}", "1.5", "null", "{\"x\":1}", "\n [ ]", "{}{"] {
            pos::<Un>(txt, "untagged enum"); pos::<Tg>(txt, "internally tagged enum"); pos::<En>(txt, "enum En{U,N(i32)}"); pos::<Vec<Un>>(txt, "Vec<untagged enum>");
        }
    }
    // C02 / C01 / C03 through the Deserializer API (found F24): one document is read from the front of the text; Ok only if a
    // well-formed value starts there, and then the text of the Value is that of the prefix; a stream never panics
    if want("C02") || want("C01") || want("C03") {
        let pid = if want("C02") { "C02" } else if want("C01") { "C01" } else { "C03" };
        let mut extra: Vec<Vec<u8>> = docs.clone();
        for t in ["\"\\\"", "\"abc", "[\"a", "{\"k\":\"v", "{\"k", "\"\\", "[1,\"x\\\"", "\"é", "\"\\u00e9"] { extra.push(t.as_bytes().to_vec()); }
        for d in &extra {
            if std::str::from_utf8(d).is_err() { continue; }
            let r = catch_unwind(AssertUnwindSafe(|| sonic_rs::Deserializer::from_slice(d).deserialize::<sonic_rs::Value>().map(|v| v.to_string())));
            match r {
                Err(_) => report(pid, format!("Deserializer::from_slice({}).deserialize::<Value>() panics", show(d))),
                Ok(Ok(txt)) => {
                    // one document is read from the FRONT of the text (what follows is the next document's business):
                    // some prefix must be a well-formed text whose value this is
                    let hit = (1..=d.len()).any(|e| is_text(&d[..e]) && sonic_rs::from_slice::<sonic_rs::Value>(&d[..e]).map(|w| w.to_string() == txt).unwrap_or(false));
                    if !hit { report(pid, format!("Deserializer::from_slice({}).deserialize::<Value>() = {} but no prefix of the text is a well-formed document with that value", show(d), txt)); }
                }
                Ok(Err(_)) => {}
            }
            let r = catch_unwind(AssertUnwindSafe(|| { let st = sonic_rs::Deserializer::from_slice(d).into_stream::<sonic_rs::Value>(); st.take(4).filter(|x| x.is_ok()).count() }));
            if r.is_err() { report(pid, format!("stream of Values over {} panics", show(d))); }
        }
    }
    // C09 lossy mode, skip-only decoders (found F25): a lazy value over text with invalid UTF-8 holds the repaired text
    if want("C09") || want("C02") {
        let pid = if want("C09") { "C09" } else { "C02" };
        let bads: [&[u8]; 5] = [b"\"a\xff\"", b"[\"\xc3\",1]", b"{\"k\":\"\xff\xfe\"}", b"\"\\n\xff\"", b"[\"ok\",\"\xf0\x28\"]"];
        for b in bads.iter() {
            let want_txt = String::from_utf8_lossy(b).into_owned();
            let r = catch_unwind(AssertUnwindSafe(|| sonic_rs::Deserializer::from_slice(b).utf8_lossy().deserialize::<sonic_rs::LazyValue>().map(|v| v.as_raw_str().as_bytes().to_vec())));
            match r { Ok(Ok(raw)) => { if raw != want_txt.as_bytes() { report(pid, format!("lossy LazyValue over {} holds the raw bytes {:?}, String::from_utf8_lossy gives {:?}", show(b), raw, want_txt)); } } Ok(Err(e)) => report(pid, format!("lossy LazyValue over {} fails: {}", show(b), e.to_string().lines().next().unwrap_or(""))), Err(_) => report(pid, format!("lossy LazyValue over {} panics", show(b))) }
            let r = catch_unwind(AssertUnwindSafe(|| sonic_rs::Deserializer::from_slice(b).utf8_lossy().deserialize::<sonic_rs::OwnedLazyValue>().map(|v| sonic_rs::to_string(&v).map(|s| s.into_bytes()))));
            match r { Ok(Ok(Ok(txt))) => { if txt != want_txt.as_bytes() { report(pid, format!("lossy OwnedLazyValue over {} serializes to the bytes {:?}, String::from_utf8_lossy gives {:?}", show(b), txt, want_txt)); } } Ok(_) => report(pid, format!("lossy OwnedLazyValue over {} fails", show(b))), Err(_) => report(pid, format!("lossy OwnedLazyValue over {} panics", show(b))) }
            // default configuration through the serde trait path: refused
            let r = catch_unwind(AssertUnwindSafe(|| { let mut de = sonic_rs::Deserializer::from_slice(b); <sonic_rs::LazyValue as serde::Deserialize>::deserialize(&mut de).is_ok() }));
            if let Ok(true) = r { report(pid, format!("LazyValue::deserialize(&mut Deserializer::from_slice({})) accepted invalid UTF-8", show(b))); }
        }
    }
    // C09 / C02: long literals for the typed string decoders (String, map key), positions across the 32-byte blocks:
    // a special byte (raw control character, quote, backslash escape, bad escape) at every offset 0..70 of a filler,
    // optionally followed by an escape a few bytes later; against the reference recogniser and decoder
    if want("C09") || want("C02") {
        let pid = if want("C09") { "C09" } else { "C02" };
        fn ref_decode(lit: &[u8]) -> Option<String> { // lit includes the quotes; None = malformed
            if string(lit, 1) != Some(lit.len()) { return None; }
            serde_json::from_slice::<String>(lit).ok()
        }
        let specials: [&[u8]; 9] = [b"\x01", b"\x1f", b"\n", b"\\n", b"\\u00e9", b"\\x", b"\\ud800", b"\\\"", b"\xc3\xa9"];
        let tails: [&[u8]; 4] = [b"", b"\\n", b"\\\\", b"\x02"];
        for pre in [0usize, 1, 2, 29, 30, 31, 32, 33, 61, 62, 63, 64, 65, 70] { for sp in specials.iter() { for gap in [0usize, 1, 5, 31, 40] { for tl in tails.iter() { for post in [0usize, 3, 40] {
            let mut lit = vec![b'"']; lit.extend(std::iter::repeat(b'c').take(pre)); lit.extend_from_slice(sp); lit.extend(std::iter::repeat(b'd').take(gap)); lit.extend_from_slice(tl); lit.extend(std::iter::repeat(b'e').take(post)); lit.push(b'"');
            let Ok(txt) = std::str::from_utf8(&lit) else { continue };
            let want_v = ref_decode(&lit);
            let got = catch_unwind(AssertUnwindSafe(|| sonic_rs::from_str::<String>(txt).ok()));
            match got { Err(_) => report(pid, format!("from_str::<String>({}) panics", show(&lit))), Ok(g) => if g != want_v { report(pid, format!("from_str::<String>({}) = {:?}, reference {:?}", show(&lit), g, want_v)) } }
            let doc = format!("{{{}:1}}", txt);
            let gotk = catch_unwind(AssertUnwindSafe(|| sonic_rs::from_str::<std::collections::BTreeMap<String, u8>>(&doc).ok().and_then(|m| m.into_keys().next())));
            match gotk { Err(_) => report(pid, format!("map key {} panics", show(&lit))), Ok(g) => if g != want_v { report(pid, format!("map key {} decodes to {:?}, reference {:?}", show(&lit), g, want_v)) } }
        } } } } }
    }
    // C20 lossy configuration (found F26): errors of a Value parse over text with invalid UTF-8 are located in the INPUT
    if want("C20") {
        let bads: [&[u8]; 6] = [b"\"\xff\xff\xff", b"[\"\xff\xff\xff\xff\", x]", b"[\"\xff\",\n 1 2]", b"{\"\xc3\":\"\xff\" 1}", b"[\"\xff\",\n\n\"\xfe\xfe\",", b"\n[\"\xf0\x28\"] x"];
        for b in bads.iter() {
            let r = catch_unwind(AssertUnwindSafe(|| sonic_rs::Deserializer::from_slice(b).utf8_lossy().deserialize::<sonic_rs::Value>().map(|v| v.to_string()).map_err(|e| (e.offset(), e.line(), e.column()))));
            match r {
                Err(_) => report("C20", format!("lossy Value parse of {} panics", show(b))),
                Ok(Err((off, l, c))) => { if off > b.len() || (l, c) != line_col(b, off) { report("C20", format!("lossy Value parse of {} ({} bytes): error reports offset {} line {} column {}, line/column of that offset in the input: {:?}", show(b), b.len(), off, l, c, line_col(b, off.min(b.len())))); } }
                Ok(Ok(_)) => {}
            }
        }
    }
    // C07 (found F27): huge exponents against zero-padded / long literals — the exponent is added to the number of digits
    // dropped from the significand; against std's str::parse::<f64>
    if want("C07") {
        let mut cases: Vec<String> = vec![];
        for z in [0usize, 1, 18, 19, 20, 300, 999, 1000, 1001, 5000, 20000] {
            cases.push(format!("0.{}1e{}", "0".repeat(z), z + 1));
            cases.push(format!("0.{}123456789e{}", "0".repeat(z), z + 3));
            cases.push(format!("1{}e-{}", "0".repeat(z), z));
            cases.push(format!("-25{}.5e-{}", "0".repeat(z), z + 1));
            cases.push(format!("1e{}", z)); cases.push(format!("1e-{}", z));
            cases.push(format!("0.{}9e{}", "0".repeat(z), z + 309));
        }
        for t in ["1e99999999999999999999", "1e-99999999999999999999", "0e99999999999999999999", "1e2147483648", "1e-2147483648"] { cases.push(t.to_string()); }
        for t in &cases {
            let want_v: Option<u64> = t.parse::<f64>().ok().filter(|f| f.is_finite()).map(f64::to_bits);
            match catch_unwind(AssertUnwindSafe(|| sonic_rs::from_str::<f64>(t).ok().map(f64::to_bits))) {
                Err(_) => report("C07", format!("from_str::<f64> of a {}-byte literal {}… panics", t.len(), &t[..t.len().min(24)])),
                Ok(g) => if g != want_v { report("C07", format!("from_str::<f64> of the {}-byte literal {}…{} gives {:?}, str::parse gives {:?}", t.len(), &t[..t.len().min(16)], &t[t.len().saturating_sub(10)..], g.map(f64::from_bits), want_v.map(f64::from_bits))) }
            }
        }
    }
    // C08 / C02: long number texts across the 32-byte blocks of the raw-number skipper — a RawNumber (bare, quoted, in a
    // use_rawnumber Value) only ever holds a JSON number
    if want("C08") || want("C02") {
        let pid = if want("C08") { "C08" } else { "C02" };
        let mut texts: Vec<String> = vec![];
        for int in ["1", "12", "-12", "0", "123456789012345678901234567890123"] { for k in [0usize, 1, 27, 28, 29, 30, 31, 32, 33, 62, 63, 64, 65] { for tail in ["", ".5", "e5", ".5e5", "e", ".", "-", "e+", "E-3", ".e1", "5.5"] {
            texts.push(format!("{int}.{}{tail}", "3".repeat(k)));
            texts.push(format!("{int}{}{tail}", "7".repeat(k)));
            texts.push(format!("{int}e{}{tail}", "1".repeat(k.min(3).max(1))));
        } } }
        for t in &texts {
            let wf = number(t.as_bytes(), 0) == Some(t.len());
            let r = catch_unwind(AssertUnwindSafe(|| sonic_rs::from_str::<sonic_rs::RawNumber>(t).map(|n| n.as_str().to_string())));
            match r { Err(_) => report(pid, format!("from_str::<RawNumber>({:?}) panics", t)), Ok(Ok(raw)) => { if !wf || raw != *t { report(pid, format!("from_str::<RawNumber>({:?}) accepted and holds {:?}: not that JSON number", t, raw)); } } Ok(Err(_)) => { if wf { report(pid, format!("from_str::<RawNumber>({:?}) rejects a well-formed number", t)); } } }
            let q = format!("\"{t}\"");
            if let Ok(Ok(raw)) = catch_unwind(AssertUnwindSafe(|| sonic_rs::from_str::<sonic_rs::RawNumber>(&q).map(|n| n.as_str().to_string()))) { if !wf || raw != *t { report(pid, format!("from_str::<RawNumber>({:?}) accepted and holds {:?}", q, raw)); } }
            let doc = format!("[{t}]");
            if let Ok(Ok(v)) = catch_unwind(AssertUnwindSafe(|| sonic_rs::Deserializer::from_str(&doc).use_rawnumber().deserialize::<sonic_rs::Value>().map(|v| v.to_string()))) { if !wf { report(pid, format!("use_rawnumber Value of {:?} accepted: {}", doc, v)); } else if v != doc { report(pid, format!("use_rawnumber Value of {:?} serializes to {}", doc, v)); } }
        }
    }
    // C03 (lossy configuration): a stream of Values over input with invalid UTF-8 inside string literals — every
    // document after the first must still be read from its own first byte
    if want("C03") {
        let firsts: [&[u8]; 5] = [b"\"\xff\"", b"\"a\xff\xfeb\"", b"[\"\xc3\"]", b"{\"k\":\"\xff\xff\xff\"}", b"\"ok\""];
        let seconds: [&str; 4] = ["12345", "[1,2]", "{\"a\":true}", "\"tail\""];
        for f in firsts.iter() { for sec in seconds.iter() {
            let mut doc = f.to_vec(); doc.push(b' '); doc.extend_from_slice(sec.as_bytes());
            let r = catch_unwind(AssertUnwindSafe(|| {
                let st = sonic_rs::Deserializer::from_slice(&doc).utf8_lossy().into_stream::<sonic_rs::Value>();
                st.take(2).map(|x| x.ok().map(|v| v.to_string())).collect::<Vec<_>>()
            }));
            match r {
                Ok(v) => { if v.len() < 2 || v[1].as_deref() != Some(*sec) { report("C03", format!("lossy stream over {:?}: second document read as {:?}, expected {:?}", String::from_utf8_lossy(&doc), v.get(1), sec)); } }
                Err(_) => report("C03", format!("lossy stream over {:?} panics", String::from_utf8_lossy(&doc))),
            }
        } }
    }
    // C04: typed deserialization against serde_json on the same text: accept/reject and value
    if want("C04") {
        use std::collections::BTreeMap;
        fn cmp<T: serde::de::DeserializeOwned + PartialEq + std::fmt::Debug>(txt: &str, ty: &str, skip_float_text: bool) {
            let a = catch_unwind(AssertUnwindSafe(|| sonic_rs::from_str::<T>(txt)));
            let b = serde_json::from_str::<T>(txt);
            let Ok(a) = a else { report("C04", format!("from_str::<{ty}>({:?}) panics", txt)) };
            match (&a, &b) {
                (Ok(x), Ok(y)) if x != y && !skip_float_text => report("C04", format!("from_str::<{ty}>({:?}) = {:?}, serde_json gives {:?}", txt, x, y)),
                (Ok(x), Err(_)) => report("C04", format!("from_str::<{ty}>({:?}) = {:?}, serde_json rejects", txt, x)),
                (Err(e), Ok(y)) => report("C04", format!("from_str::<{ty}>({:?}) fails ({}), serde_json gives {:?}", txt, e.to_string().lines().next().unwrap_or(""), y)),
                _ => {}
            }
        }
        for d in &docs {
            let Ok(txt) = std::str::from_utf8(d) else { continue };
            // serde_json accepts lone surrogates in `String` only as an error too, and differs on -0 / big ints: keep to the
            // structural types
            cmp::<bool>(txt, "bool", false);
            cmp::<()>(txt, "()", false);
            cmp::<Option<bool>>(txt, "Option<bool>", false);
            cmp::<Vec<bool>>(txt, "Vec<bool>", false);
            cmp::<Vec<Option<u8>>>(txt, "Vec<Option<u8>>", false);
            cmp::<BTreeMap<String, bool>>(txt, "BTreeMap<String,bool>", false);
            cmp::<Vec<Vec<u64>>>(txt, "Vec<Vec<u64>>", false);
            cmp::<BTreeMap<String, Vec<i64>>>(txt, "BTreeMap<String,Vec<i64>>", false);
            cmp::<u64>(txt, "u64", false);
            cmp::<i64>(txt, "i64", false);
            cmp::<(bool, u8)>(txt, "(bool,u8)", false);
        }
        // unknown (ignored) fields: whatever is skipped must still be one well-formed value
        #[derive(serde::Deserialize, PartialEq, Debug)] struct OnlyA { a: i32 }
        for d in &docs {
            let Ok(txt) = std::str::from_utf8(d) else { continue };
            if txt.len() > 40 { continue; }
            cmp::<OnlyA>(&format!("{{\"a\":1,\"zz\":{}}}", txt), "struct OnlyA{a:i32}", false);
            cmp::<OnlyA>(&format!("{{\"zz\":{},\"a\":1}}", txt), "struct OnlyA{a:i32}", false);
        }
        // the four enum shapes, externally tagged; a struct variant in both encodings
        #[derive(serde::Deserialize, PartialEq, Debug)] enum En { U, N(i32), T(i32, bool), S { a: i32, b: String } }
        for txt in ["\"U\"", "{\"U\":null}", "{\"N\":1}", "{\"T\":[1,true]}", "{\"S\":{\"a\":7,\"b\":\"x\"}}", "{\"S\":[7,\"x\"]}", "{ \"S\" : [ 7 , \"x\" ] }",
                    "{\"S\":[7]}", "{\"S\":[7,\"x\",1]}", "{\"T\":{\"0\":1}}", "{\"T\":[1]}", "{\"N\":[1]}", "{\"U\":1}", "{\"S\":7}", "{\"S\":[7,\"x\"],\"N\":1}", "{\"S\":[7,\"x\"]", "\"S\"", "{\"X\":1}", "[\"U\"]"] {
            cmp::<En>(txt, "enum En{U,N(i32),T(i32,bool),S{a,b}}", false);
            cmp::<Vec<En>>(&format!("[{txt},\"U\"]"), "Vec<enum En>", false);
        }
        // map keys are quoted numbers / bools: whitespace, signs, leading zeros, fractions inside the quotes
        let inner = ["1", " 1", "1 ", "\\t1", "-1", "- 1", "01", "0", "-0", "1.0", "1e2", "", "+1", "true", " true", "true ", "false", "tru", "1\"", "\\u0031", "18446744073709551616", "-9223372036854775809"];
        for k in inner.iter() {
            for txt in [format!("{{\"{k}\":1}}"), format!("{{\"{k}\" : 1}}"), format!("{{\"7\":1,\"{k}\":2}}")] {
                cmp::<BTreeMap<i64, u8>>(&txt, "BTreeMap<i64,u8>", false);
                cmp::<BTreeMap<u8, u8>>(&txt, "BTreeMap<u8,u8>", false);
                cmp::<BTreeMap<i128, u8>>(&txt, "BTreeMap<i128,u8>", false);
                cmp::<BTreeMap<u128, u8>>(&txt, "BTreeMap<u128,u8>", false);
                cmp::<BTreeMap<bool, u8>>(&txt, "BTreeMap<bool,u8>", false);
            }
        }
    }
    // C07: numbers against std
    if want("C07") {
        for n in &nums {
            let t = std::str::from_utf8(n).unwrap();
            if number(n, 0) != Some(n.len()) { continue; }
            // `-0` is a float by design (as in serde_json): not an integer literal for typed integer targets
            let plain = t.trim_start_matches('-').bytes().all(|c| c.is_ascii_digit()) && t != "-0";
            if plain {
                match (sonic_rs::from_str::<u64>(t), t.parse::<u64>()) { (Ok(a), Ok(b)) if a != b => report("C07", format!("from_str::<u64>({t}) = {a}, std = {b}")), (Ok(a), Err(_)) => report("C07", format!("from_str::<u64>({t}) = {a}, std rejects")), (Err(_), Ok(b)) => report("C07", format!("from_str::<u64>({t}) rejected, std = {b}")), _ => {} }
                match (sonic_rs::from_str::<i64>(t), t.parse::<i64>()) { (Ok(a), Ok(b)) if a != b => report("C07", format!("from_str::<i64>({t}) = {a}, std = {b}")), (Ok(a), Err(_)) => report("C07", format!("from_str::<i64>({t}) = {a}, std rejects")), (Err(_), Ok(b)) => report("C07", format!("from_str::<i64>({t}) rejected, std = {b}")), _ => {} }
            }
            if let (Ok(a), Ok(b)) = (sonic_rs::from_str::<f64>(t), t.parse::<f64>()) { if b.is_finite() && a.to_bits() != b.to_bits() { report("C07", format!("from_str::<f64>({t}) = {a:?} (bits {:x}), std = {b:?} (bits {:x})", a.to_bits(), b.to_bits())); } }
        }
    }
    println!("NO-WITNESS {prop} ({cases} documents, {} number literals)", nums.len());
}
