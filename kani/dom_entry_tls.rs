//@append src/value/tls_buffer.rs
// Kani 0.68 cannot compile the const-initialised `thread_local!` used by TlsBuf::with_capacity (internal compiler
// error); the node buffer plays no role in the obligation of kani/dom_entry.rs, so the harness takes the function's
// other branch (heap buffer) unconditionally.
#[cfg(kani)]
pub(crate) mod verif_tls_model {
    use super::*;
    pub(crate) fn with_capacity_heap(n: usize) -> TlsBuf {
        let vec = Box::into_raw(Box::new(Vec::with_capacity(n)));
        TlsBuf { buf: unsafe { NonNull::new_unchecked(vec) }, need_drop: true }
    }
}
