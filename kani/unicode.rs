//@append src/util/unicode.rs
#[cfg(kani)]
pub(crate) mod verif_unicode {
    use super::*;

    // ---- reference definitions (written from RFC 8259 §7 / RFC 3629, deliberately naive)
    pub fn ref_hex_digit(c: u8) -> Option<u32> {
        match c {
            b'0'..=b'9' => Some((c - b'0') as u32),
            b'a'..=b'f' => Some((c - b'a') as u32 + 10),
            b'A'..=b'F' => Some((c - b'A') as u32 + 10),
            _ => None,
        }
    }
    pub fn ref_hex4(s: &[u8; 4]) -> Option<u32> {
        let a = ref_hex_digit(s[0]);
        let b = ref_hex_digit(s[1]);
        let c = ref_hex_digit(s[2]);
        let d = ref_hex_digit(s[3]);
        match (a, b, c, d) {
            (Some(a), Some(b), Some(c), Some(d)) => Some((a << 12) | (b << 8) | (c << 4) | d),
            _ => None,
        }
    }
    pub fn ref_utf8(cp: u32) -> ([u8; 4], usize) {
        // RFC 3629 table
        if cp <= 0x7f {
            ([cp as u8, 0, 0, 0], 1)
        } else if cp <= 0x7ff {
            ([0xC0 | (cp >> 6) as u8, 0x80 | (cp & 0x3f) as u8, 0, 0], 2)
        } else if cp <= 0xffff {
            ([0xE0 | (cp >> 12) as u8, 0x80 | ((cp >> 6) & 0x3f) as u8, 0x80 | (cp & 0x3f) as u8, 0], 3)
        } else if cp <= 0x10ffff {
            ([0xF0 | (cp >> 18) as u8, 0x80 | ((cp >> 12) & 0x3f) as u8, 0x80 | ((cp >> 6) & 0x3f) as u8, 0x80 | (cp & 0x3f) as u8], 4)
        } else {
            ([0; 4], 0)
        }
    }

    /// hex_to_u32_nocheck: for ALL 2^32 four-byte inputs: valid hex quad => its value (<= 0xFFFF);
    /// otherwise a value with bits above 16 set. No table access out of bounds (Kani bounds checks).
    #[kani::proof]
    #[kani::unwind(6)]
    fn hex_to_u32_all_quads() {
        let src: [u8; 4] = kani::any();
        let v = unsafe { hex_to_u32_nocheck(&src) };
        match ref_hex4(&src) {
            Some(w) => assert!(v == w && v <= 0xffff),
            None => assert!(v > 0xffff),
        }
        kani::cover!(ref_hex4(&src).is_some());
        kani::cover!(ref_hex4(&src).is_none());
    }

    /// codepoint_to_utf8: for ALL u32: length and bytes equal RFC 3629 encoding; 0 iff > 0x10FFFF;
    /// writes stay inside a 4-byte buffer; agrees with char::encode_utf8 on every scalar value.
    #[kani::proof]
    #[kani::unwind(6)]
    fn codepoint_to_utf8_all() {
        let mut buf = [0u8; 4];
        let cp: u32 = kani::any();
        let n = unsafe { codepoint_to_utf8(cp, buf.as_mut_ptr()) };
        let (want, wn) = ref_utf8(cp);
        assert!(n == wn);
        assert!(buf[0] == want[0] && buf[1] == want[1] && buf[2] == want[2] && buf[3] == want[3]);
        if let Some(ch) = char::from_u32(cp) {
            let mut w2 = [0u8; 4];
            let l2 = ch.encode_utf8(&mut w2).len();
            assert!(n == l2);
            assert!(buf[0] == w2[0] && buf[1] == w2[1] && buf[2] == w2[2] && buf[3] == w2[3]);
        }
        kani::cover!(n == 0);
        kani::cover!(n == 4);
    }

    /// handle_unicode_codepoint_mut on `\uXXXX` + 6 following bytes (all 2^80 value combinations of
    /// the 10 free bytes, both `repr`): result / source advance / output bytes equal the reference
    /// (BMP scalar; surrogate pair -> supplementary; lone or misordered surrogate -> reject, or
    /// U+FFFD in lossy mode; bad hex -> reject). Reads stay in src[0..12), writes in dst[0..4).
    #[kani::proof]
    #[kani::unwind(6)]
    fn handle_unicode_codepoint_all() {
        let mut src: [u8; 12] = kani::any();
        src[0] = b'\\';
        src[1] = b'u';
        let repr: bool = kani::any();
        let mut dst = [0u8; 4];
        let mut sp: *const u8 = src.as_ptr();
        let mut dp: *mut u8 = dst.as_mut_ptr();
        let ok = unsafe { handle_unicode_codepoint_mut(&mut sp, &mut dp, repr) };
        let adv = unsafe { sp.offset_from(src.as_ptr()) } as usize;
        let wrote = unsafe { dp.offset_from(dst.as_ptr()) } as usize;

        let h1 = ref_hex4(&[src[2], src[3], src[4], src[5]]);
        let has2 = src[6] == b'\\' && src[7] == b'u';
        let h2 = ref_hex4(&[src[8], src[9], src[10], src[11]]);
        // reference
        let (r_ok, r_adv, r_cp): (bool, usize, u32) = match h1 {
            None => (false, 6, 0),
            Some(c1) if (0xD800..0xDC00).contains(&c1) => match (has2, h2) {
                (true, Some(c2)) if (0xDC00..0xE000).contains(&c2) => {
                    (true, 12, 0x10000 + ((c1 - 0xD800) << 10) + (c2 - 0xDC00))
                }
                _ => (repr, 6, 0xFFFD),
            },
            Some(c1) if (0xDC00..0xE000).contains(&c1) => (repr, 6, 0xFFFD),
            Some(c1) => (true, 6, c1),
        };
        assert!(ok == r_ok);
        assert!(adv == r_adv);
        if ok {
            let (want, wn) = ref_utf8(r_cp);
            assert!(wrote == wn);
            assert!(dst[0] == want[0] && dst[1] == want[1] && dst[2] == want[2] && dst[3] == want[3]);
            assert!(char::from_u32(r_cp).is_some());
        } else {
            assert!(wrote == 0);
        }
        kani::cover!(ok && adv == 12);
        kani::cover!(ok && adv == 6 && r_cp == 0xFFFD);
        kani::cover!(!ok);
    }
}
