//@append src/util/string.rs
#[cfg(kani)]
pub(crate) mod verif_string {
    use super::*;

    /// ESCAPED_TAB: every one of the 256 rows is the RFC 8259 two-character escape table.
    #[kani::proof]
    fn escaped_tab_all_rows() {
        let c: u8 = kani::any();
        let want = match c {
            b'"' => b'"',
            b'\\' => b'\\',
            b'/' => b'/',
            b'b' => 0x08,
            b'f' => 0x0c,
            b'n' => 0x0a,
            b'r' => 0x0d,
            b't' => 0x09,
            _ => 0,
        };
        assert!(ESCAPED_TAB[c as usize] == want);
    }

    fn hex_lower(n: u8) -> u8 {
        if n < 10 { b'0' + n } else { b'a' + (n - 10) }
    }

    /// QUOTE_TAB / NEED_ESCAPED: every row is the RFC 8259 serializer escape of that byte
    /// (`\"`, `\\`, `\b \t \n \f \r`, `\u00XX` lower-case hex for other C0 controls, nothing else),
    /// with the right length; NEED_ESCAPED[c] != 0  <=>  c < 0x20 || c == '"' || c == '\\'  <=> length != 0.
    #[kani::proof]
    #[kani::unwind(9)]
    fn quote_tab_all_rows() {
        let c: u8 = kani::any();
        let (len, bytes) = QUOTE_TAB[c as usize];
        let need = c < 0x20 || c == b'"' || c == b'\\';
        assert!((NEED_ESCAPED[c as usize] != 0) == need);
        assert!(NEED_ESCAPED[c as usize] <= 1);
        assert!((len != 0) == need);
        let mut want = [0u8; 8];
        let wl: u8 = match c {
            b'"' => { want[0] = b'\\'; want[1] = b'"'; 2 }
            b'\\' => { want[0] = b'\\'; want[1] = b'\\'; 2 }
            0x08 => { want[0] = b'\\'; want[1] = b'b'; 2 }
            0x09 => { want[0] = b'\\'; want[1] = b't'; 2 }
            0x0a => { want[0] = b'\\'; want[1] = b'n'; 2 }
            0x0c => { want[0] = b'\\'; want[1] = b'f'; 2 }
            0x0d => { want[0] = b'\\'; want[1] = b'r'; 2 }
            0..=0x1f => {
                want[0] = b'\\'; want[1] = b'u'; want[2] = b'0'; want[3] = b'0';
                want[4] = hex_lower(c >> 4); want[5] = hex_lower(c & 15); 6
            }
            _ => 0,
        };
        assert!(len == wl);
        let mut i = 0;
        while i < 8 {
            assert!(bytes[i] == want[i]);
            i += 1;
        }
    }

    /// BitMask::before / first_offset on u32 (what StringBlock uses): for ALL pairs,
    /// x.before(y) <=> the lowest set bit of x is strictly below the lowest set bit of y
    /// (trailing_zeros(0) = 32 = "none").
    #[kani::proof]
    fn bitmask_before_u32_all() {
        let x: u32 = kani::any();
        let y: u32 = kani::any();
        // precondition (established by StringBlock::new, see string_block_new_lanes): the two masks
        // classify disjoint byte classes, so they share no bit.
        kani::assume(x & y == 0);
        assert!(x.before(&y) == (x.trailing_zeros() < y.trailing_zeros()));
        assert!(x.first_offset() == x.trailing_zeros() as usize);
        assert!(x.all_zero() == (x == 0));
    }

    /// clear_high_bits(n) for all u32 and n in 0..=31 keeps exactly the low 32-n bits.
    /// (n = 32 would shift by the full width: callers pass LANES - nb with 0 < nb < LANES.)
    #[kani::proof]
    fn bitmask_clear_high_bits_u32_all() {
        let x: u32 = kani::any();
        let n: usize = kani::any();
        kani::assume(n < 32);
        let r = x.clear_high_bits(n);
        let keep = 32 - n;
        let want = if keep == 32 { x } else { x & ((1u32 << keep) - 1) };
        assert!(r == want);
    }

    /// StringBlock classification, for ALL (bs, quote, unescaped) masks: which of
    /// quote / backslash / control byte comes first in the block.
    #[kani::proof]
    fn string_block_classification_all() {
        let b = StringBlock::<u32> { bs_bits: kani::any(), quote_bits: kani::any(), unescaped_bits: kani::any() };
        // invariant of StringBlock (proved for StringBlock::new in string_block_new_lanes)
        kani::assume(b.bs_bits & b.quote_bits == 0 && b.bs_bits & b.unescaped_bits == 0 && b.quote_bits & b.unescaped_bits == 0);
        let q = b.quote_bits.trailing_zeros();
        let s = b.bs_bits.trailing_zeros();
        let u = b.unescaped_bits.trailing_zeros();
        assert!(b.has_unescaped() == (u < q));
        assert!(b.has_quote_first() == (q < s && !(u < q)));
        assert!(b.has_backslash() == (s < q));
        assert!(b.quote_index() == q as usize);
        assert!(b.bs_index() == s as usize);
        assert!(b.unescaped_index() == u as usize);
        // exactly one of the four outcomes the decoders branch on, in their order of testing
        // (parse_string_raw / parse_string_inplace): quote-first, control, backslash, none
        let outcomes = b.has_quote_first() as u8 + (!b.has_quote_first() && b.has_unescaped()) as u8
            + (!b.has_quote_first() && !b.has_unescaped() && b.has_backslash()) as u8
            + (q == 32 && s == 32 && u == 32) as u8;
        // a control byte at/after the first backslash but before any quote is still `has_unescaped`
        assert!(outcomes <= 1 || (q == 32 && s == 32 && u == 32));
        kani::cover!(b.has_quote_first());
        kani::cover!(b.has_backslash() && !b.has_unescaped());
    }

    /// StringBlock::new on 32 symbolic bytes: the three masks are exactly the lane-wise
    /// classification of the bytes (bit i <=> byte i is `\\` / `"` / <= 0x1f).
    #[kani::proof]
    #[kani::unwind(33)]
    #[kani::stub(std::arch::x86_64::_mm_max_epu8, crate::util::verif_models::mm_max_epu8)]
    fn string_block_new_lanes() {
        let bytes: [u8; 32] = kani::any();
        let v: u8x32 = unsafe { load(bytes.as_ptr()) };
        let b = StringBlock::<u32>::new(&v);
        let i: usize = kani::any();
        kani::assume(i < 32);
        assert!(((b.bs_bits >> i) & 1 == 1) == (bytes[i] == b'\\'));
        assert!(((b.quote_bits >> i) & 1 == 1) == (bytes[i] == b'"'));
        assert!(((b.unescaped_bits >> i) & 1 == 1) == (bytes[i] <= 0x1f));
        // the StringBlock invariant: the three masks are pairwise disjoint
        assert!(b.bs_bits & b.quote_bits == 0 && b.bs_bits & b.unescaped_bits == 0 && b.quote_bits & b.unescaped_bits == 0);
    }

    /// check_cross_page(ptr, 32) == false  ==>  the 32 bytes at ptr lie in one 4096-byte page
    /// (this is what licenses the deliberate over-read in format_string's tail).
    #[kani::proof]
    fn check_cross_page_sound() {
        let p: usize = kani::any();
        kani::assume(p <= usize::MAX - 8192);
        let step: usize = 32;
        let cross = check_cross_page(p as *const u8, step);
        if !cross {
            assert!(p / 4096 == (p + step - 1) / 4096);
        }
        kani::cover!(cross);
        kani::cover!(!cross);
    }
}

// C05 bounded stand-in: format_string as a black box against the specification escaper
#[cfg(kani)]
mod verif_format_string {
    use super::*;
    use std::mem::MaybeUninit;

    fn fmt_model(_a: std::fmt::Arguments<'_>) -> String { String::new() }
    fn hexl(n: u8) -> u8 { if n < 10 { b'0' + n } else { b'a' + (n - 10) } }
    /// RFC 8259 §7 escaper: `"` `\` and C0 controls escaped (short forms for \b \t \n \f \r, \u00XX otherwise),
    /// everything else verbatim; optional surrounding quotes. Writes into `out`, returns the length.
    fn spec_escape(s: &[u8], quote: bool, out: &mut [u8; 64]) -> usize {
        let mut n = 0;
        if quote { out[n] = b'"'; n += 1; }
        let mut i = 0;
        while i < s.len() {
            let c = s[i];
            match c {
                b'"' => { out[n] = b'\\'; out[n + 1] = b'"'; n += 2; }
                b'\\' => { out[n] = b'\\'; out[n + 1] = b'\\'; n += 2; }
                0x08 => { out[n] = b'\\'; out[n + 1] = b'b'; n += 2; }
                0x09 => { out[n] = b'\\'; out[n + 1] = b't'; n += 2; }
                0x0a => { out[n] = b'\\'; out[n + 1] = b'n'; n += 2; }
                0x0c => { out[n] = b'\\'; out[n + 1] = b'f'; n += 2; }
                0x0d => { out[n] = b'\\'; out[n + 1] = b'r'; n += 2; }
                0..=0x1f => {
                    out[n] = b'\\'; out[n + 1] = b'u'; out[n + 2] = b'0'; out[n + 3] = b'0';
                    out[n + 4] = hexl(c >> 4); out[n + 5] = hexl(c & 15); n += 6;
                }
                _ => { out[n] = c; n += 1; }
            }
            i += 1;
        }
        if quote { out[n] = b'"'; n += 1; }
        n
    }

    /// loop-free PMAXUB model (same function as verif_models::mm_max_epu8, unrolled)
    fn max_epu8_flat(a: std::arch::x86_64::__m128i, b: std::arch::x86_64::__m128i) -> std::arch::x86_64::__m128i {
        let x: [u8; 16] = unsafe { std::mem::transmute(a) };
        let y: [u8; 16] = unsafe { std::mem::transmute(b) };
        macro_rules! m { ($($i:literal),*) => { [$(if x[$i] > y[$i] { x[$i] } else { y[$i] }),*] } }
        let r: [u8; 16] = m!(0, 1, 2, 3, 4, 5, 6, 7, 8, 9, 10, 11, 12, 13, 14, 15);
        unsafe { std::mem::transmute(r) }
    }
    /// check_cross_page (pointer-to-integer arithmetic, proved sound by check_cross_page_sound) may answer either way:
    /// under debug_assertions (Kani's build) both answers take the same copy-to-temp path
    fn cross_page_any(_ptr: *const u8, _step: usize) -> bool { kani::any() }

    /// every ASCII string of length N over a small alphabet incl. every escape class, both `need_quote`: the bytes
    /// format_string commits are exactly the specification escape and the returned length is its length; every write
    /// stays inside the 6n+35 window (CBMC pointer checks). Bounded stand-in (the scalar/tail path; the 32-lane block
    /// loop needs strings >= 32 bytes).
    fn format_string_case<const N: usize>() {
        let bytes: [u8; N] = kani::any();
        let mut i = 0;
        while i < N { kani::assume(bytes[i] < 0x80); i += 1; }
        let quote: bool = kani::any();
        let s = unsafe { std::str::from_utf8_unchecked(&bytes[..]) };
        let mut dst = [MaybeUninit::<u8>::uninit(); 6 * 3 + 35];
        let n = format_string(s, &mut dst[..N * 6 + 32 + 3], quote);
        let mut want = [0u8; 64];
        let wn = spec_escape(&bytes[..], quote, &mut want);
        assert!(n == wn);
        let k: usize = kani::any();
        kani::assume(k < n);
        assert!(unsafe { dst[k].assume_init() } == want[k]);
    }
    #[kani::proof]
    #[kani::unwind(8)]
    #[kani::stub(std::arch::x86_64::_mm_max_epu8, max_epu8_flat)]
    #[kani::stub(alloc::fmt::format, fmt_model)]
    #[kani::stub(check_cross_page, cross_page_any)]
    fn format_string_len1() { format_string_case::<1>(); }
    #[kani::proof]
    #[kani::unwind(8)]
    #[kani::stub(std::arch::x86_64::_mm_max_epu8, max_epu8_flat)]
    #[kani::stub(alloc::fmt::format, fmt_model)]
    #[kani::stub(check_cross_page, cross_page_any)]
    fn format_string_len2() { format_string_case::<2>(); }
}

// C09 bounded stand-in: the in-place decoder over the padded buffer, as a black box against a reference decoder
#[cfg(kani)]
mod verif_inplace {
    use super::*;

    /// reference over the alphabet { a " \ n 0x01 }: (offset after the closing quote, decoded length) or None
    fn ref_decode(s: &[u8], out: &mut [u8; 16]) -> Option<(usize, usize)> {
        let mut n = 0;
        let mut i = 0;
        while i < s.len() {
            let c = s[i];
            if c == b'"' { return Some((i + 1, n)); }
            if c < 0x20 { return None; }
            if c == b'\\' {
                if i + 1 >= s.len() { return None; }
                let d = s[i + 1];
                let v = if d == b'n' { b'\n' } else if d == b'\\' { b'\\' } else if d == b'"' { b'"' } else { return None; };
                out[n] = v; n += 1; i += 2;
            } else { out[n] = c; n += 1; i += 1; }
        }
        None
    }

    /// parse_string_inplace on every literal body of 2 symbolic bytes over { a " \ n 0x01 } + `n`, followed by the DOM's
    /// 64-byte padding `x"x\0…`: accepted iff the reference accepts it (raw control bytes, bad escapes rejected),
    /// `src` ends just after the closing quote, and the compacted bytes are the decoded text. All reads/writes stay
    /// inside the 3 + 64 byte buffer (CBMC pointer checks). Bounded stand-in (3 bytes: one SIMD block incl. padding).
    /// loop-free PMAXUB model (same function as verif_models::mm_max_epu8, unrolled so that the harness can use a
    /// small global unwinding bound)
    fn mm_max_epu8_flat(a: std::arch::x86_64::__m128i, b: std::arch::x86_64::__m128i) -> std::arch::x86_64::__m128i {
        let x: [u8; 16] = unsafe { std::mem::transmute(a) };
        let y: [u8; 16] = unsafe { std::mem::transmute(b) };
        macro_rules! m { ($($i:literal),*) => { [$(if x[$i] > y[$i] { x[$i] } else { y[$i] }),*] } }
        let r: [u8; 16] = m!(0, 1, 2, 3, 4, 5, 6, 7, 8, 9, 10, 11, 12, 13, 14, 15);
        unsafe { std::mem::transmute(r) }
    }
    unsafe fn unicode_unreachable(_src: &mut *const u8, _dst: &mut *mut u8, _repr: bool) -> bool { assert!(false); false }

    #[kani::proof]
    #[kani::unwind(8)]
    #[kani::stub(std::arch::x86_64::_mm_max_epu8, mm_max_epu8_flat)]
    #[kani::stub(crate::util::unicode::handle_unicode_codepoint_mut, unicode_unreachable)]
    #[kani::solver(kissat)]
    fn parse_string_inplace_short() {
        let body: [u8; 2] = kani::any();
        let mut i = 0;
        while i < 2 {
            kani::assume(body[i] == b'a' || body[i] == b'"' || body[i] == b'\\' || body[i] == b'n' || body[i] == 0x01);
            i += 1;
        }
        let mut buf = [0u8; 3 + 64];
        let mut k = 0;
        while k < 2 { buf[k] = body[k]; k += 1; }
        buf[2] = b'n'; buf[3] = b'x'; buf[4] = b'"'; buf[5] = b'x';
        let orig = buf;
        let mut want = [0u8; 16];
        let w = ref_decode(&orig[..6], &mut want);
        let start = buf.as_mut_ptr();
        let mut src = start;
        let r = unsafe { parse_string_inplace(&mut src, false) };
        match r {
            Ok(n) => {
                let (end, wn) = match w { Some(x) => x, None => { assert!(false); return; } };
                assert!(n == wn);
                assert!(unsafe { src.offset_from(start) } as usize == end);
                let j: usize = kani::any();
                kani::assume(j < n);
                assert!(buf[j] == want[j]);
            }
            Err(_) => assert!(w.is_none()),
        }
    }

    /// experiment (not registered): one concrete literal
    #[kani::proof]
    #[kani::unwind(8)]
    #[kani::stub(std::arch::x86_64::_mm_max_epu8, mm_max_epu8_flat)]
    #[kani::stub(crate::util::unicode::handle_unicode_codepoint_mut, unicode_unreachable)]
    fn parse_string_inplace_concrete() {
        let mut buf = [0u8; 3 + 64];
        buf[0] = b'a'; buf[1] = b'\\'; buf[2] = b'n'; buf[3] = b'x'; buf[4] = b'"'; buf[5] = b'x';
        let start = buf.as_mut_ptr();
        let mut src = start;
        let r = unsafe { parse_string_inplace(&mut src, false) };
        assert!(r.is_ok());
        assert!(buf[0] == b'a' && buf[1] == b'\n' && buf[2] == b'x');
    }
}
