//@append sonic-number/src/lib.rs
#[cfg(kani)]
mod verif_number {
    use super::*;

    /// sign of zero (C07 "sign of zero included", C08 "-0.0 reads back bit-identically"):
    /// every literal of at most 8 bytes over the alphabet {0 . e E + -} that denotes zero is returned
    /// as Unsigned(0) (non-negative plain "0") or as a float zero whose sign is the literal's sign.
    /// Bounded stand-in: literal length <= 8.
    /// zero literals are decided by parse_number's own shortcuts: they must never reach parse_float
    fn parse_float_unreachable(_s: u64, _e: i32, _n: bool, _t: bool, _r: &[u8]) -> Result<ParserNumber, Error> {
        assert!(false, "a zero literal reached parse_float");
        Err(Error::InvalidNumber)
    }

    #[kani::proof]
    #[kani::unwind(10)]
    #[kani::stub(crate::parse_float, parse_float_unreachable)]
    fn parse_number_zero_sign() {
        let data: [u8; 8] = kani::any();
        let len: usize = kani::any();
        kani::assume(len >= 1 && len <= 8);
        let mut i = 0;
        while i < 8 {
            let c = data[i];
            kani::assume(c == b'0' || c == b'.' || c == b'e' || c == b'E' || c == b'+' || c == b'-');
            i += 1;
        }
        let negative: bool = kani::any();
        let mut index = 0usize;
        let r = parse_number(&data[..len], &mut index, negative);
        if let Ok(n) = r {
            match n {
                ParserNumber::Unsigned(u) => assert!(u == 0 && !negative),
                ParserNumber::Signed(_) => assert!(false),
                ParserNumber::Float(f) => {
                    assert!(f == 0.0);
                    assert!(f.is_sign_negative() == negative);
                }
            }
            kani::cover!(negative && index == 1);
            kani::cover!(negative && index > 3);
        }
    }


    /// C01 / C07, leaves of the big-decimal float fallback (`decimal::parse_decimal`): `is_8digits` is exactly
    /// "all eight little-endian bytes are ASCII digits", for every u64 (wrapping arithmetic, no panic). Complete.
    #[kani::proof]
    #[kani::unwind(9)]
    fn is_8digits_all() {
        let v: u64 = kani::any();
        let b = v.to_le_bytes();
        let mut all = true;
        let mut i = 0;
        while i < 8 {
            if !(b[i] >= b'0' && b[i] <= b'9') { all = false; }
            i += 1;
        }
        assert!(crate::common::is_8digits(v) == all);
        kani::cover!(all);
        kani::cover!(!all);
    }

    /// `read_u64` / `write_u64` on a window of 8..=15 bytes: little-endian, touch exactly the first 8 bytes,
    /// inverse of each other; `v - 0x3030..30` after `is_8digits(v)` never underflows and leaves the digit values.
    #[kani::proof]
    #[kani::unwind(17)]
    fn read_write_u64_window() {
        use crate::common::ByteSlice;
        let src: [u8; 15] = kani::any();
        let len: usize = kani::any();
        kani::assume(len >= 8 && len <= 15);
        let v = src[..len].read_u64();
        assert!(v == u64::from_le_bytes([src[0], src[1], src[2], src[3], src[4], src[5], src[6], src[7]]));
        let mut dst: [u8; 15] = kani::any();
        let before = dst;
        if crate::common::is_8digits(v) {
            dst[..len].write_u64(v - 0x3030_3030_3030_3030);
            let mut i = 0;
            while i < 15 {
                if i < 8 { assert!(dst[i] == src[i] - b'0' && dst[i] <= 9); } else { assert!(dst[i] == before[i]); }
                i += 1;
            }
            kani::cover!(true);
        }
    }


}
