//@append sonic-number/src/lib.rs
#[cfg(kani)]
mod verif_number {
    use super::*;

    /// sign of zero (C07 "sign of zero included", C08 "-0.0 reads back bit-identically"):
    /// every literal of at most 8 bytes over the alphabet {0 . e E + -} that denotes zero is returned
    /// as Unsigned(0) (non-negative plain "0") or as a float zero whose sign is the literal's sign.
    /// Bounded stand-in: literal length <= 8.
    /// zero literals are decided by parse_number's own shortcuts: they must never reach parse_float
    fn parse_float_unreachable(_s: u64, _e: i32, _n: bool, _t: bool, _r: &[u8]) -> Result<ParserNumber, Error> {
        assert!(false, "a zero literal reached parse_float");
        Err(Error::InvalidNumber)
    }

    #[kani::proof]
    #[kani::unwind(10)]
    #[kani::stub(crate::parse_float, parse_float_unreachable)]
    fn parse_number_zero_sign() {
        let data: [u8; 8] = kani::any();
        let len: usize = kani::any();
        kani::assume(len >= 1 && len <= 8);
        let mut i = 0;
        while i < 8 {
            let c = data[i];
            kani::assume(c == b'0' || c == b'.' || c == b'e' || c == b'E' || c == b'+' || c == b'-');
            i += 1;
        }
        let negative: bool = kani::any();
        let mut index = 0usize;
        let r = parse_number(&data[..len], &mut index, negative);
        if let Ok(n) = r {
            match n {
                ParserNumber::Unsigned(u) => assert!(u == 0 && !negative),
                ParserNumber::Signed(_) => assert!(false),
                ParserNumber::Float(f) => {
                    assert!(f == 0.0);
                    assert!(f.is_sign_negative() == negative);
                }
            }
            kani::cover!(negative && index == 1);
            kani::cover!(negative && index > 3);
        }
    }


    /// C01 / C07, leaves of the big-decimal float fallback (`decimal::parse_decimal`): `is_8digits` is exactly
    /// "all eight little-endian bytes are ASCII digits", for every u64 (wrapping arithmetic, no panic). Complete.
    #[kani::proof]
    #[kani::unwind(9)]
    fn is_8digits_all() {
        let v: u64 = kani::any();
        let b = v.to_le_bytes();
        let mut all = true;
        let mut i = 0;
        while i < 8 {
            if !(b[i] >= b'0' && b[i] <= b'9') { all = false; }
            i += 1;
        }
        assert!(crate::common::is_8digits(v) == all);
        kani::cover!(all);
        kani::cover!(!all);
    }

    /// `read_u64` / `write_u64` on a window of 8..=15 bytes: little-endian, touch exactly the first 8 bytes,
    /// inverse of each other; `v - 0x3030..30` after `is_8digits(v)` never underflows and leaves the digit values.
    #[kani::proof]
    #[kani::unwind(17)]
    fn read_write_u64_window() {
        use crate::common::ByteSlice;
        let src: [u8; 15] = kani::any();
        let len: usize = kani::any();
        kani::assume(len >= 8 && len <= 15);
        let v = src[..len].read_u64();
        assert!(v == u64::from_le_bytes([src[0], src[1], src[2], src[3], src[4], src[5], src[6], src[7]]));
        let mut dst: [u8; 15] = kani::any();
        let before = dst;
        if crate::common::is_8digits(v) {
            dst[..len].write_u64(v - 0x3030_3030_3030_3030);
            let mut i = 0;
            while i < 15 {
                if i < 8 { assert!(dst[i] == src[i] - b'0' && dst[i] <= 9); } else { assert!(dst[i] == before[i]); }
                i += 1;
            }
            kani::cover!(true);
        }
    }



    /// C01, big-decimal float fallback: under the type invariant its own comments state (num_digits <= MAX_DIGITS,
    /// every stored digit <= 9) `Decimal::round` neither indexes outside the 768-byte buffer nor overflows u64
    /// (at most 18 digits are accumulated, + 1 for rounding), whatever decimal_point / truncated are; and
    /// `try_add_digit` stores inside the buffer or only counts. Loops bounded by the constant 18: complete.
    #[kani::proof]
    #[kani::unwind(21)]
    fn decimal_round_add_digit_in_bounds() {
        use crate::decimal::Decimal;
        let mut d = Decimal::default();
        d.num_digits = kani::any();
        d.decimal_point = kani::any();
        d.truncated = kani::any();
        kani::assume(d.num_digits <= Decimal::MAX_DIGITS);
        let head: [u8; 20] = kani::any();
        let mut i = 0;
        while i < 20 {
            kani::assume(head[i] <= 9);
            d.digits[i] = head[i];
            i += 1;
        }
        let n = d.round();
        if d.num_digits == 0 || d.decimal_point < 0 { assert!(n == 0); }
        if d.decimal_point >= 0 && d.decimal_point <= 18 { assert!(n <= 1_000_000_000_000_000_000); }
        kani::cover!(n == 1_000_000_000_000_000_000);
        let digit: u8 = kani::any();
        let before = d.num_digits;
        d.try_add_digit(digit);
        assert!(d.num_digits == before + 1);
        if before < Decimal::MAX_DIGITS { assert!(d.digits[before] == digit); }
    }

}
