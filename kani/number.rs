//@append sonic-number/src/lib.rs
#[cfg(kani)]
mod verif_number {
    use super::*;

    /// sign of zero (C07 "sign of zero included", C08 "-0.0 reads back bit-identically"):
    /// every literal of at most 8 bytes over the alphabet {0 . e E + -} that denotes zero is returned
    /// as Unsigned(0) (non-negative plain "0") or as a float zero whose sign is the literal's sign.
    /// Bounded stand-in: literal length <= 8.
    /// zero literals are decided by parse_number's own shortcuts: they must never reach parse_float
    fn parse_float_unreachable(_s: u64, _e: i32, _n: bool, _t: bool, _r: &[u8]) -> Result<ParserNumber, Error> {
        assert!(false, "a zero literal reached parse_float");
        Err(Error::InvalidNumber)
    }

    #[kani::proof]
    #[kani::unwind(10)]
    #[kani::stub(crate::parse_float, parse_float_unreachable)]
    fn parse_number_zero_sign() {
        let data: [u8; 8] = kani::any();
        let len: usize = kani::any();
        kani::assume(len >= 1 && len <= 8);
        let mut i = 0;
        while i < 8 {
            let c = data[i];
            kani::assume(c == b'0' || c == b'.' || c == b'e' || c == b'E' || c == b'+' || c == b'-');
            i += 1;
        }
        let negative: bool = kani::any();
        let mut index = 0usize;
        let r = parse_number(&data[..len], &mut index, negative);
        if let Ok(n) = r {
            match n {
                ParserNumber::Unsigned(u) => assert!(u == 0 && !negative),
                ParserNumber::Signed(_) => assert!(false),
                ParserNumber::Float(f) => {
                    assert!(f == 0.0);
                    assert!(f.is_sign_negative() == negative);
                }
            }
            kani::cover!(negative && index == 1);
            kani::cover!(negative && index > 3);
        }
    }

}
