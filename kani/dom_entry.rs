//@append src/error.rs
// C20 on the whole-document DOM entry (`Value::parse_with_padding`, behind from_str / from_slice::<Value>):
// the entry point is checked against the CONTRACTS of its two callees instead of their bodies.
//   * `Parser::parse_dom` over `PaddedSliceRead` (the in-place parser), error outcomes: string literals consumed
//     so far may have been unescaped in place — arbitrary bytes written inside the input region of the padded
//     copy —, the reader stands anywhere up to one past the end, and the error is the real `Parser::error` of that
//     state, i.e. located relative to the reader's *current* buffer.
//   * `Error::syntax` (proved in Verus unit `errors`): stores code and offset, line/column = those of the offset
//     in the slice it is given (the context string is not modelled here).
// Obligation: an error returned by parse_with_padding carries an offset <= input length and exactly the
// line/column of that offset in the ORIGINAL input. Found F14 (position computed from the unescaped copy).
#[cfg(kani)]
mod verif_dom_entry {
    use super::*;
    use crate::{
        config::DeserializeCfg,
        parser::Parser,
        reader::Reader,
        value::{node::Value, visitor::JsonVisitor},
    };

    fn syntax_model(code: ErrorCode, json: &[u8], index: usize) -> Error {
        let position = Position::from_index(index, json);
        Error {
            err: Box::new(ErrorImpl { code, line: position.line, column: position.column, index, descript: None }),
        }
    }

    fn parse_dom_model<'de, R: Reader<'de>, V: JsonVisitor<'de>>(p: &mut Parser<R>, _vis: &mut V) -> Result<()> {
        let len = p.read.as_u8_slice().len();
        let base = p.read.cur_ptr(); // index 0: start of the padded copy
        // in-place unescaping of consumed literals: two arbitrary byte writes inside the input region
        let a: usize = kani::any();
        let b: usize = kani::any();
        if a < len { unsafe { *base.add(a) = kani::any(); } }
        if b < len { unsafe { *base.add(b) = kani::any(); } }
        let idx: usize = kani::any();
        kani::assume(idx <= len + 1);
        p.read.set_index(idx);
        kani::cover!(len < 1 || (a < len && idx == len));
        Err(p.error(ErrorCode::InvalidJsonValue))
    }

    /// the success outcomes of the in-place parser that matter here: an unterminated string is only stopped by the quote
    /// of the `x"x` padding, so the parser can return Ok with the reader one or two bytes PAST the end of the input
    fn parse_dom_past_end_model<'de, R: Reader<'de>, V: JsonVisitor<'de>>(p: &mut Parser<R>, _vis: &mut V) -> Result<()> {
        let len = p.read.as_u8_slice().len();
        let idx: usize = kani::any();
        kani::assume(len < idx && idx <= len + 2);
        p.read.set_index(idx);
        Ok(())
    }

    /// (found F24) such an outcome must be turned into an error: the returned offset is what the caller advances its
    /// own reader by, and nothing after parse_with_padding checks it on the Deserializer::deserialize / stream paths
    fn dom_entry_past_end_case<const N: usize>() {
        let buf: [u8; N] = kani::any();
        let json = &buf[..];
        let cfg = DeserializeCfg { use_rawnumber: kani::any(), utf8_lossy: kani::any() };
        let mut v = Value::new();
        match v.parse_with_padding(json, cfg) {
            Ok(_) => assert!(false),
            Err(e) => { assert!(e.offset() <= N); std::mem::forget(e); }
        }
        std::mem::forget(v);
    }

    #[kani::proof]
    #[kani::unwind(8)]
    #[kani::stub(crate::parser::Parser::<R>::parse_dom, parse_dom_past_end_model)]
    #[kani::stub(crate::error::Error::syntax, syntax_model)]
    #[kani::stub(crate::value::tls_buffer::TlsBuf::with_capacity, crate::value::tls_buffer::verif_tls_model::with_capacity_heap)]
    fn dom_entry_past_end_is_error() { dom_entry_past_end_case::<2>(); }

    /// One input length N, all byte contents, both configuration flags.
    fn dom_entry_case<const N: usize>() {
        let buf: [u8; N] = kani::any();
        let json = &buf[..];
        let cfg = DeserializeCfg { use_rawnumber: kani::any(), utf8_lossy: kani::any() };
        let mut v = Value::new();
        match v.parse_with_padding(json, cfg) {
            Ok(_) => assert!(false), // the model has error outcomes only
            Err(e) => {
                let off = e.offset();
                assert!(off <= N);
                let (mut line, mut col) = (1usize, 0usize);
                let mut k = 0;
                while k < N {
                    if k < off {
                        if buf[k] == b'\n' { line += 1; col = 0; } else { col += 1; }
                    }
                    k += 1;
                }
                assert!(e.line() == line);
                assert!(e.column() == col);
                kani::cover!(N < 1 || line == 2);
                std::mem::forget(e);
            }
        }
        std::mem::forget(v);
    }

    /// Bounded stand-in in the input length (1, 2, 3 and 4 symbolic bytes; CBMC does not finish with a symbolic
    /// length because of the `Vec` growth in parse_with_padding).
    #[kani::proof]
    #[kani::unwind(8)]
    #[kani::stub(crate::parser::Parser::<R>::parse_dom, parse_dom_model)]
    #[kani::stub(crate::error::Error::syntax, syntax_model)]
    #[kani::stub(crate::value::tls_buffer::TlsBuf::with_capacity, crate::value::tls_buffer::verif_tls_model::with_capacity_heap)]
    fn dom_entry_error_position() { dom_entry_case::<3>(); }

    #[kani::proof]
    #[kani::unwind(8)]
    #[kani::stub(crate::parser::Parser::<R>::parse_dom, parse_dom_model)]
    #[kani::stub(crate::error::Error::syntax, syntax_model)]
    #[kani::stub(crate::value::tls_buffer::TlsBuf::with_capacity, crate::value::tls_buffer::verif_tls_model::with_capacity_heap)]
    fn dom_entry_error_position_len1() { dom_entry_case::<1>(); }

    #[kani::proof]
    #[kani::unwind(8)]
    #[kani::stub(crate::parser::Parser::<R>::parse_dom, parse_dom_model)]
    #[kani::stub(crate::error::Error::syntax, syntax_model)]
    #[kani::stub(crate::value::tls_buffer::TlsBuf::with_capacity, crate::value::tls_buffer::verif_tls_model::with_capacity_heap)]
    fn dom_entry_error_position_len2() { dom_entry_case::<2>(); }

    #[kani::proof]
    #[kani::unwind(8)]
    #[kani::stub(crate::parser::Parser::<R>::parse_dom, parse_dom_model)]
    #[kani::stub(crate::error::Error::syntax, syntax_model)]
    #[kani::stub(crate::value::tls_buffer::TlsBuf::with_capacity, crate::value::tls_buffer::verif_tls_model::with_capacity_heap)]
    fn dom_entry_error_position_len4() { dom_entry_case::<4>(); }
}
