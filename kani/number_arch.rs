//@append sonic-number/src/arch/mod.rs
#[cfg(kani)]
#[path = "x86_64.rs"]
pub(crate) mod x86_ut;

/// T3 models (Intel SDM pseudo-code) of the multiply-add / pack instructions Kani cannot execute.
#[cfg(kani)]
pub(crate) mod verif_models {
    use std::arch::x86_64::*;
    /// PMADDUBSW: unsigned bytes of a times signed bytes of b, adjacent pairs added with signed saturation
    pub fn mm_maddubs_epi16(a: __m128i, b: __m128i) -> __m128i {
        let x: [u8; 16] = unsafe { std::mem::transmute(a) };
        let y: [i8; 16] = unsafe { std::mem::transmute(b) };
        let mut r = [0i16; 8];
        let mut i = 0;
        while i < 8 {
            let s = (x[2 * i] as i32) * (y[2 * i] as i32) + (x[2 * i + 1] as i32) * (y[2 * i + 1] as i32);
            r[i] = if s > 32767 { 32767 } else if s < -32768 { -32768 } else { s as i16 };
            i += 1;
        }
        unsafe { std::mem::transmute(r) }
    }
    /// PMADDWD: signed 16-bit products, adjacent pairs added (wrapping 32-bit)
    pub fn mm_madd_epi16(a: __m128i, b: __m128i) -> __m128i {
        let x: [i16; 8] = unsafe { std::mem::transmute(a) };
        let y: [i16; 8] = unsafe { std::mem::transmute(b) };
        let mut r = [0i32; 4];
        let mut i = 0;
        while i < 4 {
            r[i] = ((x[2 * i] as i32) * (y[2 * i] as i32)).wrapping_add((x[2 * i + 1] as i32) * (y[2 * i + 1] as i32));
            i += 1;
        }
        unsafe { std::mem::transmute(r) }
    }
    /// PACKUSDW: signed 32-bit -> unsigned 16-bit with saturation; a to low half, b to high half
    pub fn mm_packus_epi32(a: __m128i, b: __m128i) -> __m128i {
        let x: [i32; 4] = unsafe { std::mem::transmute(a) };
        let y: [i32; 4] = unsafe { std::mem::transmute(b) };
        let mut r = [0u16; 8];
        let mut i = 0;
        while i < 4 {
            r[i] = if x[i] < 0 { 0 } else if x[i] > 65535 { 65535 } else { x[i] as u16 };
            r[i + 4] = if y[i] < 0 { 0 } else if y[i] > 65535 { 65535 } else { y[i] as u16 };
            i += 1;
        }
        unsafe { std::mem::transmute(r) }
    }
}

#[cfg(kani)]
mod verif_number_arch {
    /// the scalar definition: value of the leading run of at most `need` ASCII digits, and its length
    fn ref_str2int(c: &[u8; 16], need: usize) -> (u64, usize) {
        let mut sum = 0u64;
        let mut i = 0;
        while i < 16 {
            if i < need && c[i] >= b'0' && c[i] <= b'9' {
                sum = sum * 10 + (c[i] - b'0') as u64;
            } else {
                break;
            }
            i += 1;
        }
        (sum, i)
    }

    /// fallback simd_str2int == scalar definition for ALL 16-byte inputs and all need in 0..=16
    #[kani::proof]
    #[kani::unwind(18)]
    fn str2int_fallback_all() {
        let c: [u8; 16] = kani::any();
        let need: usize = kani::any();
        kani::assume(need <= 16);
        let got = unsafe { super::simd_str2int(&c[..], need) };
        let want = ref_str2int(&c, need);
        assert!(got.0 == want.0 && got.1 == want.1);
    }

    /// x86 simd_str2int == scalar definition under its call-site precondition
    /// (need in 1..=16, c[0] is a digit — established by parse_number_fraction's callers; this is what
    /// makes its `unreachable!()` arm unreachable), all 16-byte inputs, one harness per digit count
    /// (the 16 harnesses partition the input space). T3 models for pmaddubsw/pmaddwd/packusdw.
    fn x86_case(k: usize) {
        let c: [u8; 16] = kani::any();
        let need: usize = kani::any();
        kani::assume(need >= 1 && need <= 16);
        kani::assume(c[0] >= b'0' && c[0] <= b'9');
        let want = ref_str2int(&c, need);
        kani::assume(want.1 == k);
        let got = unsafe { super::x86_ut::simd_str2int(&c[..], need) };
        assert!(got.0 == want.0 && got.1 == want.1);
    }
    macro_rules! x86_cases {
        ($($name:ident = $k:expr),*) => {$(
            #[kani::proof]
            #[kani::unwind(18)]
            #[kani::stub(std::arch::x86_64::_mm_maddubs_epi16, super::verif_models::mm_maddubs_epi16)]
            #[kani::stub(std::arch::x86_64::_mm_madd_epi16, super::verif_models::mm_madd_epi16)]
            #[kani::stub(std::arch::x86_64::_mm_packus_epi32, super::verif_models::mm_packus_epi32)]
            fn $name() { x86_case($k) }
        )*};
    }
    x86_cases!(str2int_x86_1 = 1, str2int_x86_2 = 2, str2int_x86_3 = 3, str2int_x86_4 = 4, str2int_x86_5 = 5,
        str2int_x86_6 = 6, str2int_x86_7 = 7, str2int_x86_8 = 8, str2int_x86_9 = 9, str2int_x86_10 = 10,
        str2int_x86_11 = 11, str2int_x86_12 = 12, str2int_x86_13 = 13, str2int_x86_14 = 14, str2int_x86_15 = 15,
        str2int_x86_16 = 16);
}
