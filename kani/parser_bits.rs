//@append src/parser.rs
#[cfg(kani)]
pub(crate) mod verif_parser_bits {
    use super::*;

    /// scalar definition: bit i of the result is set iff byte i is *escaped*, i.e. preceded by an
    /// odd-length run of backslashes that starts after an unescaped position (carry in/out).
    pub fn ref_escaped_u64(prev: u64, bs: u64) -> (u64, u64) {
        let mut esc_next = prev != 0; // is position i escaped?
        let mut out = 0u64;
        let mut i = 0;
        while i < 64 {
            let is_bs = (bs >> i) & 1 == 1;
            if esc_next {
                out |= 1u64 << i;
                esc_next = false;
            } else if is_bs {
                esc_next = true;
            }
            i += 1;
        }
        (out, esc_next as u64)
    }
    pub fn ref_escaped_u32(prev: u32, bs: u32) -> (u32, u32) {
        let mut esc_next = prev != 0;
        let mut out = 0u32;
        let mut i = 0;
        while i < 32 {
            let is_bs = (bs >> i) & 1 == 1;
            if esc_next {
                out |= 1u32 << i;
                esc_next = false;
            } else if is_bs {
                esc_next = true;
            }
            i += 1;
        }
        (out, esc_next as u32)
    }

    #[kani::proof]
    #[kani::unwind(66)]
    fn escaped_branchless_u64_all() {
        let mut prev: u64 = kani::any();
        kani::assume(prev <= 1);
        let bs: u64 = kani::any();
        let p0 = prev;
        let got = get_escaped_branchless_u64(&mut prev, bs);
        let (want, carry) = ref_escaped_u64(p0, bs);
        assert!(got == want);
        assert!(prev == carry);
    }

    #[kani::proof]
    #[kani::unwind(34)]
    fn escaped_branchless_u32_all() {
        let mut prev: u32 = kani::any();
        kani::assume(prev <= 1);
        let bs: u32 = kani::any();
        let p0 = prev;
        let got = get_escaped_branchless_u32(&mut prev, bs);
        let (want, carry) = ref_escaped_u32(p0, bs);
        assert!(got == want);
        assert!(prev == carry);
    }

    /// is_whitespace: all 256 bytes, exactly RFC 8259 ws = %x20 / %x09 / %x0A / %x0D
    #[kani::proof]
    fn is_whitespace_all() {
        let c: u8 = kani::any();
        assert!(is_whitespace(c) == (c == b' ' || c == b'\t' || c == b'\n' || c == b'\r'));
    }
}
