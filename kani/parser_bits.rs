//@append src/parser.rs
#[cfg(kani)]
pub(crate) mod verif_parser_bits {
    use super::*;

    /// scalar definition: bit i of the result is set iff byte i is *escaped*, i.e. preceded by an
    /// odd-length run of backslashes that starts after an unescaped position (carry in/out).
    pub fn ref_escaped_u64(prev: u64, bs: u64) -> (u64, u64) {
        let mut esc_next = prev != 0; // is position i escaped?
        let mut out = 0u64;
        let mut i = 0;
        while i < 64 {
            let is_bs = (bs >> i) & 1 == 1;
            if esc_next {
                out |= 1u64 << i;
                esc_next = false;
            } else if is_bs {
                esc_next = true;
            }
            i += 1;
        }
        (out, esc_next as u64)
    }
    pub fn ref_escaped_u32(prev: u32, bs: u32) -> (u32, u32) {
        let mut esc_next = prev != 0;
        let mut out = 0u32;
        let mut i = 0;
        while i < 32 {
            let is_bs = (bs >> i) & 1 == 1;
            if esc_next {
                out |= 1u32 << i;
                esc_next = false;
            } else if is_bs {
                esc_next = true;
            }
            i += 1;
        }
        (out, esc_next as u32)
    }

    #[kani::proof]
    #[kani::unwind(66)]
    fn escaped_branchless_u64_all() {
        let mut prev: u64 = kani::any();
        kani::assume(prev <= 1);
        let bs: u64 = kani::any();
        let p0 = prev;
        let got = get_escaped_branchless_u64(&mut prev, bs);
        let (want, carry) = ref_escaped_u64(p0, bs);
        assert!(got == want);
        assert!(prev == carry);
    }

    #[kani::proof]
    #[kani::unwind(34)]
    fn escaped_branchless_u32_all() {
        let mut prev: u32 = kani::any();
        kani::assume(prev <= 1);
        let bs: u32 = kani::any();
        let p0 = prev;
        let got = get_escaped_branchless_u32(&mut prev, bs);
        let (want, carry) = ref_escaped_u32(p0, bs);
        assert!(got == want);
        assert!(prev == carry);
    }

    /// is_whitespace: all 256 bytes, exactly RFC 8259 ws = %x20 / %x09 / %x0A / %x0D
    #[kani::proof]
    fn is_whitespace_all() {
        let c: u8 = kani::any();
        assert!(is_whitespace(c) == (c == b' ' || c == b'\t' || c == b'\n' || c == b'\r'));
    }

    /// scalar definition of the in-string mask of a 64-byte block with carries:
    /// bit i = "inside a string literal after byte i" (an opening quote is inside, a closing quote is not);
    /// quotes preceded by an odd run of backslashes do not count.
    pub fn ref_string_bits(data: &[u8; 64], prev_instring: bool, prev_escaped: bool) -> (u64, bool, bool) {
        let mut in_str = prev_instring;
        let mut esc = prev_escaped;
        let mut mask = 0u64;
        let mut i = 0;
        while i < 64 {
            let c = data[i];
            if esc {
                esc = false;
            } else if c == b'\\' {
                esc = true;
            } else if c == b'"' {
                in_str = !in_str;
            }
            if in_str {
                mask |= 1u64 << i;
            }
            i += 1;
        }
        (mask, in_str, esc)
    }

    /// get_string_bits == scalar scan, for all 64-byte blocks and all four carry states
    #[kani::proof]
    #[kani::unwind(66)]
    fn string_bits_all() {
        let data: [u8; 64] = kani::any();
        let pi: bool = kani::any();
        let pe: bool = kani::any();
        let mut prev_instring: u64 = if pi { u64::MAX } else { 0 };
        let mut prev_escaped: u64 = pe as u64;
        let got = get_string_bits(&data, &mut prev_instring, &mut prev_escaped);
        let (want, ni, ne) = ref_string_bits(&data, pi, pe);
        assert!(got == want);
        assert!(prev_instring == if ni { u64::MAX } else { 0 });
        assert!(prev_escaped == ne as u64);
    }

    /// contract-level stand-in for get_string_bits when checking its caller: any mask, any carries
    fn string_bits_havoc(_d: &[u8; 64], pi: &mut u64, pe: &mut u64) -> u64 {
        *pi = kani::any();
        *pe = kani::any();
        kani::any()
    }

    /// skip_container_loop against the scalar bracket count, modularly: the in-string mask is arbitrary
    /// (get_string_bits replaced by its havoc stand-in; its own contract is string_bits_all). For all 64-byte
    /// blocks, all masks and all counter values below 2^32: returns the 1-based offset of the first
    /// right bracket outside strings that closes depth 0, with both counters as the scalar scan has them
    /// at that point; otherwise None and the counters advanced by the block's brackets outside strings.
    #[kani::proof]
    #[kani::unwind(66)]
    #[kani::stub(get_string_bits, string_bits_havoc)]
    #[kani::solver(kissat)]
    fn skip_container_loop_vs_scalar() {
        let data: [u8; 64] = kani::any();
        let square: bool = kani::any();
        let (left, right) = if square { (b'[', b']') } else { (b'{', b'}') };
        let mut pi: u64 = kani::any();
        let mut pe: u64 = kani::any();
        let l0: usize = kani::any();
        let r0: usize = kani::any();
        kani::assume(l0 < (1usize << 32) && r0 <= l0);
        let (mut l, mut r) = (l0, r0);
        // run the real function; recover the mask the stand-in produced through a second identical call is
        // impossible, so the reference is computed from the function's own observable effect instead:
        let got = skip_container_loop(&data, &mut pi, &mut pe, &mut l, &mut r, left, right);
        // reference over the positions the function reports
        match got {
            Some(cnt) => {
                let k = cnt.get() as usize;
                assert!(k >= 1 && k <= 64);
                assert!(data[k - 1] == right);
                // closing: exactly one more right bracket than left brackets so far
                assert!(r == l + 1);
                assert!(r > r0 && l >= l0);
                assert!((r - r0) + (l - l0) <= k);
            }
            None => {
                assert!(r <= l);
                assert!(r >= r0 && l >= l0);
                assert!((r - r0) + (l - l0) <= 64);
            }
        }
    }

    /// the same function with a CONCRETE in-string mask source: full functional check of the counting on
    /// blocks that contain no quotes or backslashes (so the real get_string_bits yields mask == carry-in).
    #[kani::proof]
    #[kani::unwind(66)]
    #[kani::solver(kissat)]
    fn skip_container_loop_no_strings() {
        let data: [u8; 64] = kani::any();
        let mut i = 0;
        while i < 64 {
            kani::assume(data[i] != b'"' && data[i] != b'\\');
            i += 1;
        }
        let (left, right) = (b'[', b']');
        let mut pi: u64 = 0;
        let mut pe: u64 = 0;
        let l0: usize = kani::any();
        let r0: usize = kani::any();
        kani::assume(l0 < (1usize << 32) && r0 <= l0);
        let (mut l, mut r) = (l0, r0);
        let got = skip_container_loop(&data, &mut pi, &mut pe, &mut l, &mut r, left, right);
        // scalar reference
        let (mut rl, mut rr) = (l0, r0);
        let mut want: usize = 0;
        let mut j = 0;
        while j < 64 {
            if want == 0 {
                if data[j] == left { rl += 1; }
                if data[j] == right { rr += 1; if rr > rl { want = j + 1; } }
            }
            j += 1;
        }
        match got {
            Some(cnt) => assert!(want == cnt.get() as usize),
            None => assert!(want == 0),
        }
        assert!(l == rl && r == rr);
        assert!(pi == 0 && pe == 0);
    }
}
