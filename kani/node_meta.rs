//@append src/value/node.rs
#[cfg(kani)]
mod verif_meta {
    use super::*;

    /// pack_dom_node / unpack_dom_node: for every node kind, every len: u32 and every idx below 2^29 the
    /// three fields round-trip independently (kind, type, idx, len), the node is recognised as in_shared,
    /// and get_type()'s `unreachable!` arm is not reached.
    #[kani::proof]
    fn meta_dom_node_roundtrip() {
        let kind: u64 = kani::any();
        kani::assume(kind == Meta::STR_NODE || kind == Meta::RAWNUM_NODE || kind == Meta::ARR_NODE || kind == Meta::OBJ_NODE);
        let idx: u32 = kani::any();
        let len: u32 = kani::any();
        kani::assume(idx < (1u32 << 29));
        let m = Meta::pack_dom_node(kind, idx, len);
        assert!(m.get_kind() == kind);
        assert!(m.get_type() == kind);
        assert!(m.in_shared());
        let n = m.unpack_dom_node();
        assert!(n.idx == idx);
        assert!(n.len == len);
        if kind == Meta::STR_NODE || kind == Meta::RAWNUM_NODE {
            assert!(m.has_strlen());
            assert!(m.unpack_strlen() == len as usize);
        }
    }

    /// The index field is 29 bits wide (bits 3..32). A document under the 4 GiB input guard can hold up to
    /// 2^31 sibling nodes (json_len/2 + 2), so DocumentVisitor::index() can exceed 2^29; this harness states
    /// the round trip for every index such a document can produce. It FAILS on the unchanged tree: known
    /// finding F5 (needs > 2^29 siblings, i.e. a > 1 GiB document; see KNOWN_FINDINGS.txt).
    #[kani::proof]
    fn meta_dom_node_idx_width() {
        let kind: u64 = Meta::STR_NODE;
        let idx: u32 = kani::any();
        let len: u32 = kani::any();
        kani::assume(idx <= (1u32 << 31));
        let m = Meta::pack_dom_node(kind, idx, len);
        let n = m.unpack_dom_node();
        assert!(n.idx == idx && n.len == len, "idx does not fit the 29-bit field");
    }

    /// static / owned node types: every Meta built by Meta::new from one of the declared type constants has a
    /// total get_type() == that constant, is not in_shared, and get_kind() is STAIC_NODE or OWNED_NODE.
    #[kani::proof]
    fn meta_static_types_total() {
        let which: u8 = kani::any();
        let t = match which % 13 {
            0 => Meta::NULL, 1 => Meta::TRUE, 2 => Meta::FALSE, 3 => Meta::I64, 4 => Meta::U64, 5 => Meta::F64,
            6 => Meta::EMPTY_ARR, 7 => Meta::EMPTY_OBJ, 8 => Meta::STATIC_STR, 9 => Meta::FASTSTR,
            10 => Meta::RAWNUM_FASTSTR, 11 => Meta::ARR_MUT, _ => Meta::OBJ_MUT,
        };
        let m = Meta::new(t);
        assert!(m.get_type() == t);
        assert!(!m.in_shared());
        assert!(m.get_kind() == Meta::STAIC_NODE || m.get_kind() == Meta::OWNED_NODE);
    }

    /// static string length packing: all len < u32::MAX round-trip, type stays STATIC_STR
    #[kani::proof]
    fn meta_static_str_roundtrip() {
        let len: usize = kani::any();
        kani::assume(len < u32::MAX as usize);
        let m = Meta::pack_static_str(Meta::STATIC_STR, len);
        assert!(m.get_type() == Meta::STATIC_STR);
        assert!(m.has_strlen() && m.unpack_strlen() == len);
        assert!(!m.in_shared());
    }

    /// root nodes: for every 8-byte-aligned address the ROOT_NODE tag (7) lives in the alignment bits:
    /// kind/type are ROOT_NODE and unpack_root returns the address unchanged. (pack_shared itself also
    /// increments the Arc count; the packing arithmetic is what is checked here, on the same expression.)
    #[kani::proof]
    fn meta_root_tag_roundtrip() {
        let addr: u64 = kani::any();
        kani::assume(addr % 8 == 0);
        let m = Meta { val: addr | Meta::ROOT_NODE };
        assert!(m.get_kind() == Meta::ROOT_NODE);
        assert!(m.get_type() == Meta::ROOT_NODE);
        assert!(m.unpack_root() as usize as u64 == addr);
        assert!(!m.in_shared());
    }
}
