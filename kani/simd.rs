//@append sonic-simd/src/lib.rs
// C17: every vector primitive against ONE lane-wise scalar contract, for every backend that can be
// compiled on x86-64: sse2 (what `u8x16` is under Kani), the portable v128 fallback, avx2, the
// portable v256 fallback (what `u8x32` is under Kani) and v512. Kani ignores target-feature flags,
// so the modules that cfg selects away are pulled in here by path.
#[cfg(kani)]
#[path = "avx2.rs"]
pub mod avx2_ut;
#[cfg(kani)]
#[path = "v128.rs"]
pub mod v128_ut;

#[cfg(kani)]
pub mod verif_models {
    use std::arch::x86_64::*;
    /// T3 model PMAXUB xmm (Intel SDM): per-lane unsigned maximum
    pub fn mm_max_epu8(a: __m128i, b: __m128i) -> __m128i {
        let x: [u8; 16] = unsafe { std::mem::transmute(a) };
        let y: [u8; 16] = unsafe { std::mem::transmute(b) };
        let mut r = [0u8; 16];
        let mut i = 0;
        while i < 16 {
            r[i] = if x[i] > y[i] { x[i] } else { y[i] };
            i += 1;
        }
        unsafe { std::mem::transmute(r) }
    }
    /// T3 model VPMAXUB ymm
    pub fn mm256_max_epu8(a: __m256i, b: __m256i) -> __m256i {
        let x: [u8; 32] = unsafe { std::mem::transmute(a) };
        let y: [u8; 32] = unsafe { std::mem::transmute(b) };
        let mut r = [0u8; 32];
        let mut i = 0;
        while i < 32 {
            r[i] = if x[i] > y[i] { x[i] } else { y[i] };
            i += 1;
        }
        unsafe { std::mem::transmute(r) }
    }
}

#[cfg(kani)]
mod verif_simd {
    use super::{Mask, Simd};

    // The contract, stated once (this is exactly what the Verus units assume as T2):
    //   load/store : storeu(loadu(p)) reproduces the LANES bytes at p
    //   splat(c)   : every lane == c
    //   a.eq(b).bitmask() bit i  <=>  a[i] == b[i]
    //   a.le(b).bitmask() bit i  <=>  a[i] <= b[i]   (in the element type's order)
    //   a.gt(b).bitmask() bit i  <=>  a[i] >  b[i]
    //   Mask::splat(t).bitmask() == if t { all ones } else { 0 }
    //   (m | n).bitmask() == m.bitmask() | n.bitmask();  likewise & and |=
    macro_rules! contract_u {
        ($V:ty, $N:expr, $BM:ty, $has_gt:expr) => {{
            let a: [u8; $N] = kani::any();
            let b: [u8; $N] = kani::any();
            let va: $V = unsafe { <$V>::loadu(a.as_ptr()) };
            let vb: $V = unsafe { <$V>::loadu(b.as_ptr()) };
            let mut out = [0u8; $N];
            unsafe { va.storeu(out.as_mut_ptr()) };
            let i: usize = kani::any();
            kani::assume(i < $N);
            assert!(out[i] == a[i]);
            let e: $BM = va.eq(&vb).bitmask();
            assert!(((e >> i) & 1 == 1) == (a[i] == b[i]));
            let l: $BM = va.le(&vb).bitmask();
            assert!(((l >> i) & 1 == 1) == (a[i] <= b[i]));
            if $has_gt {
                let g: $BM = va.gt(&vb).bitmask();
                assert!(((g >> i) & 1 == 1) == (a[i] > b[i]));
            }
            let c: u8 = kani::any();
            let vs: $V = <$V>::splat(c);
            unsafe { vs.storeu(out.as_mut_ptr()) };
            assert!(out[i] == c);
            // slice entry points used by the parser
            let vv: $V = unsafe { <$V>::from_slice_unaligned_unchecked(&a[..]) };
            unsafe { vv.write_to_slice_unaligned_unchecked(&mut out[..]) };
            assert!(out[i] == a[i]);
        }};
    }
    macro_rules! contract_i {
        ($V:ty, $N:expr, $BM:ty) => {{
            let a: [u8; $N] = kani::any();
            let b: [u8; $N] = kani::any();
            let va: $V = unsafe { <$V>::loadu(a.as_ptr()) };
            let vb: $V = unsafe { <$V>::loadu(b.as_ptr()) };
            let mut out = [0u8; $N];
            unsafe { va.storeu(out.as_mut_ptr()) };
            let i: usize = kani::any();
            kani::assume(i < $N);
            assert!(out[i] == a[i]);
            let (x, y) = (a[i] as i8, b[i] as i8);
            let e: $BM = va.eq(&vb).bitmask();
            assert!(((e >> i) & 1 == 1) == (x == y));
            let l: $BM = va.le(&vb).bitmask();
            assert!(((l >> i) & 1 == 1) == (x <= y));
            let g: $BM = va.gt(&vb).bitmask();
            assert!(((g >> i) & 1 == 1) == (x > y));
            let c: i8 = kani::any();
            let vs: $V = <$V>::splat(c);
            unsafe { vs.storeu(out.as_mut_ptr()) };
            assert!(out[i] == c as u8);
        }};
    }
    macro_rules! contract_m {
        ($V:ty, $M:ty, $N:expr, $BM:ty) => {{
            let a: [u8; $N] = kani::any();
            let b: [u8; $N] = kani::any();
            let c: [u8; $N] = kani::any();
            let va: $V = unsafe { <$V>::loadu(a.as_ptr()) };
            let vb: $V = unsafe { <$V>::loadu(b.as_ptr()) };
            let vc: $V = unsafe { <$V>::loadu(c.as_ptr()) };
            let mab: $BM = va.eq(&vb).bitmask();
            let mac: $BM = va.eq(&vc).bitmask();
            let or: $BM = (va.eq(&vb) | va.eq(&vc)).bitmask();
            assert!(or == (mab | mac));
            let and: $BM = (va.eq(&vb) & va.eq(&vc)).bitmask();
            assert!(and == (mab & mac));
            let mut m = va.eq(&vb);
            m |= va.eq(&vc);
            assert!(m.bitmask() == (mab | mac));
            let t: bool = kani::any();
            let s: $BM = <$M>::splat(t).bitmask();
            assert!(s == if t { <$BM>::MAX } else { 0 });
            let mut z = <$M>::splat(false);
            z |= va.eq(&vb);
            assert!(z.bitmask() == mab);
        }};
    }

    // ---- sse2 (== crate::u8x16 / i8x16 in this build)
    #[kani::proof]
    #[kani::unwind(18)]
    #[kani::stub(std::arch::x86_64::_mm_max_epu8, crate::verif_models::mm_max_epu8)]
    fn simd_sse2_u8x16() { contract_u!(crate::u8x16, 16, u16, false) }
    #[kani::proof]
    #[kani::unwind(18)]
    fn simd_sse2_i8x16() { contract_i!(crate::i8x16, 16, u16) }
    #[kani::proof]
    #[kani::unwind(18)]
    fn simd_sse2_mask128() { contract_m!(crate::u8x16, crate::Mask128, 16, u16) }

    // ---- portable v128
    #[kani::proof]
    #[kani::unwind(18)]
    fn simd_v128_u8x16() { contract_u!(crate::v128_ut::Simd128u, 16, u16, true) }
    #[kani::proof]
    #[kani::unwind(18)]
    fn simd_v128_i8x16() { contract_i!(crate::v128_ut::Simd128i, 16, u16) }
    #[kani::proof]
    #[kani::unwind(18)]
    fn simd_v128_mask128() { contract_m!(crate::v128_ut::Simd128u, crate::v128_ut::Mask128, 16, u16) }

    // ---- avx2
    #[kani::proof]
    #[kani::unwind(34)]
    #[kani::stub(std::arch::x86_64::_mm256_max_epu8, crate::verif_models::mm256_max_epu8)]
    fn simd_avx2_u8x32() { contract_u!(crate::avx2_ut::Simd256u, 32, u32, false) }
    #[kani::proof]
    #[kani::unwind(34)]
    fn simd_avx2_i8x32() { contract_i!(crate::avx2_ut::Simd256i, 32, u32) }
    #[kani::proof]
    #[kani::unwind(34)]
    fn simd_avx2_mask256() { contract_m!(crate::avx2_ut::Simd256u, crate::avx2_ut::Mask256, 32, u32) }

    // ---- portable v256 (== crate::u8x32 in this build; composed of two v128 = sse2 halves)
    #[kani::proof]
    #[kani::unwind(34)]
    #[kani::stub(std::arch::x86_64::_mm_max_epu8, crate::verif_models::mm_max_epu8)]
    fn simd_v256_u8x32() { contract_u!(crate::u8x32, 32, u32, false) }
    #[kani::proof]
    #[kani::unwind(34)]
    fn simd_v256_i8x32() { contract_i!(crate::i8x32, 32, u32) }
    #[kani::proof]
    #[kani::unwind(34)]
    fn simd_v256_mask256() { contract_m!(crate::u8x32, crate::m8x32, 32, u32) }

    // ---- v512 (the only 512 implementation; composed of two v256)
    #[kani::proof]
    #[kani::unwind(66)]
    #[kani::stub(std::arch::x86_64::_mm_max_epu8, crate::verif_models::mm_max_epu8)]
    fn simd_v512_u8x64() { contract_u!(crate::u8x64, 64, u64, false) }
    #[kani::proof]
    #[kani::unwind(66)]
    fn simd_v512_i8x64() { contract_i!(crate::i8x64, 64, u64) }

    // ---- BitMask impls (u16/u32/u64), the part not already covered in sonic-rs's string harnesses
    #[kani::proof]
    fn bitmask_u64_all() {
        use crate::BitMask;
        let x: u64 = kani::any();
        let y: u64 = kani::any();
        kani::assume(x & y == 0);
        assert!(x.before(&y) == (x.trailing_zeros() < y.trailing_zeros()));
        assert!(x.first_offset() == x.trailing_zeros() as usize);
        assert!(x.all_zero() == (x == 0));
        let n: usize = kani::any();
        kani::assume(n < 64);
        let keep = 64 - n;
        assert!(x.clear_high_bits(n) == if keep == 64 { x } else { x & ((1u64 << keep) - 1) });
    }
    #[kani::proof]
    fn bitmask_u16_all() {
        use crate::BitMask;
        let x: u16 = kani::any();
        let y: u16 = kani::any();
        kani::assume(x & y == 0);
        assert!(x.before(&y) == (x.trailing_zeros() < y.trailing_zeros()));
        assert!(x.first_offset() == x.trailing_zeros() as usize);
        let n: usize = kani::any();
        kani::assume(n < 16);
        let keep = 16 - n;
        assert!(x.clear_high_bits(n) == if keep == 16 { x } else { x & ((1u16 << keep) - 1) });
    }
}
