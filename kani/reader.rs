//@append src/reader.rs
// T1: the Reader contract assumed by the Verus units (specs/prelude.rs), checked on the real
// `impl Reader for Read`. The methods are loop-free; the input is a slice of symbolic length <= 8 over a
// symbolic buffer, with a symbolic index — a bounded stand-in in the slice length only.
#[cfg(kani)]
mod verif_reader {
    use super::*;

    fn mk<'a>(buf: &'a [u8; 8], len: usize, idx: usize) -> Read<'a> {
        let mut r = Read::new(&buf[..len], false);
        r.index = idx;
        r
    }

    #[kani::proof]
    #[kani::unwind(10)]
    fn reader_read_contract() {
        let buf: [u8; 8] = kani::any();
        let len: usize = kani::any();
        let idx: usize = kani::any();
        kani::assume(len <= 8 && idx <= len);
        let n: usize = kani::any();
        kani::assume(n <= 16);
        let mut r = mk(&buf, len, idx);
        // remain / index / as_u8_slice
        assert!(r.remain() == len - idx);
        assert!(r.index() == idx);
        assert!(r.as_u8_slice().len() == len);
        // peek
        match r.peek() {
            Some(c) => assert!(idx < len && c == buf[idx]),
            None => assert!(idx >= len),
        }
        // peek_n
        match r.peek_n(n) {
            Some(s) => {
                assert!(idx + n <= len && s.len() == n);
                if n > 0 { let k: usize = kani::any(); kani::assume(k < n); assert!(s[k] == buf[idx + k]); }
            }
            None => assert!(idx + n > len),
        }
        assert!(r.index() == idx);
        // next
        let mut r2 = mk(&buf, len, idx);
        match r2.next() {
            Some(c) => assert!(idx < len && c == buf[idx] && r2.index() == idx + 1),
            None => assert!(idx >= len && r2.index() == idx),
        }
        // next_n
        let mut r3 = mk(&buf, len, idx);
        match r3.next_n(n) {
            Some(s) => {
                assert!(idx + n <= len && s.len() == n && r3.index() == idx + n);
                if n > 0 { let k: usize = kani::any(); kani::assume(k < n); assert!(s[k] == buf[idx + k]); }
            }
            None => assert!(idx + n > len && r3.index() == idx),
        }
        // eat / backward / set_index under their preconditions
        let mut r4 = mk(&buf, len, idx);
        if idx + n <= len { r4.eat(n); assert!(r4.index() == idx + n); r4.backward(n); assert!(r4.index() == idx); }
        let j: usize = kani::any();
        kani::assume(j <= len);
        r4.set_index(j);
        assert!(r4.index() == j);
        // at / slice_unchecked
        if j < len { assert!(r4.at(j) == buf[j]); }
        let a: usize = kani::any();
        let b: usize = kani::any();
        kani::assume(a <= b && b <= len);
        let s = r4.slice_unchecked(a, b);
        assert!(s.len() == b - a);
        if b > a { let k: usize = kani::any(); kani::assume(k < b - a); assert!(s[k] == buf[a + k]); }
        // no up-front validation requested => no deferred UTF-8 error
        assert!(r4.check_utf8_final().is_ok());
        assert!(r4.next_invalid_utf8() == usize::MAX);
    }

    /// Position::from_index against the definition of line/column (1 + newlines before the offset; bytes since
    /// the last newline), as a black-box contract: independent of how the body is written, so it also decides
    /// rewrites of the function that leave the Verus subset. Bounded stand-in: inputs of <= 6 bytes, every offset.
    #[kani::proof]
    #[kani::unwind(9)]
    fn position_from_index_contract() {
        let buf: [u8; 6] = kani::any();
        let len: usize = kani::any();
        kani::assume(len <= 6);
        let i: usize = kani::any();
        kani::assume(i <= 8);
        let p = Position::from_index(i, &buf[..len]);
        let end = if i < len { i } else { len };
        let (mut line, mut col) = (1usize, 0usize);
        let mut k = 0;
        while k < 6 {
            if k < end {
                if buf[k] == b'\n' { line += 1; col = 0; } else { col += 1; }
            }
            k += 1;
        }
        assert!(p.line == line);
        assert!(p.column == col);
        kani::cover!(line == 3 && col == 1);
    }
}
