//@append src/lazyvalue/owned.rs
#[cfg(kani)]
mod verif_owned {
    use super::*;
    use crate::JsonValueTrait;

    // precondition shared by the constructors: `raw` is (the start of) a well-formed JSON value —
    // a literal is spelled out completely, anything else starts with - digit " [ {
    fn wf_start(raw: &[u8]) -> bool {
        match raw {
            b"true" | b"false" | b"null" => true,
            _ => !raw.is_empty() && matches!(raw[0], b'-' | b'0'..=b'9' | b'"' | b'[' | b'{'),
        }
    }
    fn expected_type(raw: &[u8]) -> JsonType {
        match raw[0] {
            b'-' | b'0'..=b'9' => JsonType::Number,
            b'"' => JsonType::String,
            b'[' => JsonType::Array,
            b'{' => JsonType::Object,
            b't' | b'f' => JsonType::Boolean,
            _ => JsonType::Null,
        }
    }

    /// representation invariant of OwnedLazyValue: whatever constructor built it from well-formed raw
    /// text, get_type() is total (LazyRaw::get_type's `unreachable!` is unreachable) and reports the type
    /// the text denotes — for every JSON type including the literals true/false/null.
    /// Non-literal values: every two-byte prefix (the type depends on the first byte only). Literals: the three texts.
    #[kani::proof]
    #[kani::unwind(8)]
    fn owned_new_type_total() {
        let bytes: [u8; 2] = kani::any();
        let raw = &bytes[..];
        kani::assume(wf_start(raw) && !matches!(raw[0], b't' | b'f' | b'n'));
        // the status `new` is called with (parser::get_owned_lazyvalue, ser::to_lazyvalue)
        let olv = OwnedLazyValue::new(JsonSlice::Raw(raw), HasEsc::Possible);
        assert!(olv.get_type() == expected_type(raw));
        kani::cover!(raw[0] == b'[');
        std::mem::forget(olv); // drop glue of FastStr/Bytes is outside this obligation (T4)
    }
    macro_rules! literal_cases {
        ($($name:ident, $name2:ident = $lit:expr, $ty:expr);*) => {$(
            #[kani::proof]
            #[kani::unwind(8)]
            fn $name() {
                let olv = OwnedLazyValue::new(JsonSlice::Raw($lit), HasEsc::Possible);
                assert!(olv.get_type() == $ty);
                std::mem::forget(olv);
            }
            #[kani::proof]
            #[kani::unwind(8)]
            fn $name2() {
                let lv = LazyValue::new(JsonSlice::Raw($lit), HasEsc::None);
                let olv = OwnedLazyValue::from(lv);
                assert!(olv.get_type() == $ty);
                std::mem::forget(olv);
            }
        )*};
    }
    literal_cases!(owned_new_true, owned_from_lv_true = b"true", JsonType::Boolean;
                   owned_new_false, owned_from_lv_false = b"false", JsonType::Boolean;
                   owned_new_null, owned_from_lv_null = b"null", JsonType::Null);

    #[kani::proof]
    #[kani::unwind(8)]
    fn owned_from_lazyvalue_type_total() {
        let bytes: [u8; 2] = kani::any();
        let raw = &bytes[..];
        kani::assume(wf_start(raw) && !matches!(raw[0], b't' | b'f' | b'n'));
        let esc: bool = kani::any();
        // LazyValue::new is only given HasEsc::Yes for strings (ParseStatus::HasEscaped comes from skip_string)
        kani::assume(!esc || raw[0] == b'"');
        let lv = LazyValue::new(JsonSlice::Raw(raw), if esc { HasEsc::Yes } else { HasEsc::None });
        let olv = OwnedLazyValue::from(lv);
        assert!(olv.get_type() == expected_type(raw));
        kani::cover!(raw[0] == b'"' && esc);
        std::mem::forget(olv); // drop glue of FastStr/Bytes is outside this obligation (T4)
    }
}

// C18 (owned half): LazyRaw.parsed publish-once protocol with a Box. Same rely/guarantee reading as for
// Inner.unescaped (src/lazyvalue/value.rs): every CAS outcome the specification allows, incl. interference.
#[cfg(kani)]
mod verif_lazyraw_cache {
    use super::*;
    use std::sync::atomic::{AtomicPtr, Ordering};

    static mut ENV_PUBLISHED: *mut Parsed = std::ptr::null_mut();

    fn weak_cas_model<T>(a: &AtomicPtr<T>, current: *mut T, new: *mut T, _s: Ordering, _f: Ordering) -> std::result::Result<*mut T, *mut T> {
        unsafe {
            if !ENV_PUBLISHED.is_null() && a.load(Ordering::SeqCst).is_null() && kani::any() {
                a.store(ENV_PUBLISHED as *mut T, Ordering::SeqCst);
            }
        }
        let cur = a.load(Ordering::SeqCst);
        if cur == current && kani::any() {
            a.store(new, Ordering::SeqCst);
            Ok(cur)
        } else {
            Err(cur)
        }
    }
    fn strong_cas_model<T>(a: &AtomicPtr<T>, current: *mut T, new: *mut T, _s: Ordering, _f: Ordering) -> std::result::Result<*mut T, *mut T> {
        unsafe {
            if !ENV_PUBLISHED.is_null() && a.load(Ordering::SeqCst).is_null() && kani::any() {
                a.store(ENV_PUBLISHED as *mut T, Ordering::SeqCst);
            }
        }
        let cur = a.load(Ordering::SeqCst);
        if cur == current {
            a.store(new, Ordering::SeqCst);
            Ok(cur)
        } else {
            Err(cur)
        }
    }
    /// the one-level parse (full parser, covered by the parser units) either fails or yields a parsed value
    fn load_model<'de, R: crate::reader::Reader<'de>>(_p: &mut crate::parser::Parser<R>, _buf: &mut Vec<u8>) -> Result<OwnedLazyValue> {
        if kani::any() {
            Err(crate::error::Error::ser_error(crate::error::ErrorCode::InvalidJsonValue))
        } else {
            Ok(OwnedLazyValue(LazyPacked::Parsed(Parsed::Bool(true))))
        }
    }

    #[kani::proof]
    #[kani::unwind(6)]
    #[kani::stub(std::sync::atomic::Atomic::<*mut T>::compare_exchange_weak, weak_cas_model)]
    #[kani::stub(std::sync::atomic::Atomic::<*mut T>::compare_exchange, strong_cas_model)]
    #[kani::stub(crate::parser::Parser::<R>::load_owned_lazyvalue, load_model)]
    fn lazyraw_load_all_outcomes() {
        let env_active: bool = kani::any();
        let env = Box::into_raw(Box::new(Parsed::Null));
        unsafe { ENV_PUBLISHED = if env_active { env } else { std::ptr::null_mut() }; }
        let lr = LazyRaw { raw: FastStr::from_static_str("[1]"), parsed: AtomicPtr::new(std::ptr::null_mut()) };
        let r = lr.load();
        let p = lr.parsed.load(Ordering::SeqCst);
        if let Ok(v) = r {
            assert!(!p.is_null());
            assert!(v as *const Parsed == p as *const Parsed);
            // the published value is readable
            let _t = v.get_type();
            kani::cover!(p == env);
            kani::cover!(p != env);
        }
        if !p.is_null() {
            let r2 = lr.load();
            assert!(r2.is_ok());
            assert!(lr.parsed.load(Ordering::SeqCst) == p);
        }
        // (Drop for LazyRaw frees the published box; its recursive drop glue over Parsed is too large for CBMC
        //  and is left out: the loser's release inside load() is what is checked here)
        std::mem::forget(lr);
    }

    // ---- views and clones of a raw value whose one-level parse is cached (findings F16, F17)
    /// contract of LazyRaw::load (the publish-once cache, C18): Ok(&parsed) where `parsed` is the one-level parse of
    /// the raw text — a LazyArray for an array, a LazyObject for an object
    fn lazyraw_load_model(this: &LazyRaw) -> Result<&Parsed> {
        let p: &'static Parsed = match this.raw.as_bytes()[0] {
            b'[' => Box::leak(Box::new(Parsed::LazyArray(Vec::new()))),
            b'{' => Box::leak(Box::new(Parsed::LazyObject(Vec::new()))),
            _ => Box::leak(Box::new(Parsed::Null)),
        };
        Ok(p)
    }

    /// F16: the LazyArray / LazyObject view handed out by as_array / as_object on a STILL-RAW container can be used
    /// (Deref) without reaching `unreachable!`
    #[kani::proof]
    #[kani::unwind(8)]
    #[kani::stub(LazyRaw::load, lazyraw_load_model)]
    fn owned_view_deref_total() {
        let is_arr: bool = kani::any();
        let raw: &'static [u8] = if is_arr { b"[]" } else { b"{}" };
        let olv = OwnedLazyValue::new(JsonSlice::Raw(raw), HasEsc::Possible);
        if is_arr {
            match olv.as_array() { Some(v) => assert!(v.len() == 0), None => assert!(false) }
            assert!(olv.as_object().is_none());
        } else {
            match olv.as_object() { Some(v) => assert!(v.len() == 0), None => assert!(false) }
            assert!(olv.as_array().is_none());
        }
        std::mem::forget(olv);
    }

}
