//@append src/util/arch/mod.rs
// Pull the x86-64 implementation into the Kani build next to the fallback one (Kani ignores
// target-feature flags, so cfg(target_feature="avx2") is off and `fallback` is what `super::*` is).
#[cfg(kani)]
#[path = "x86_64.rs"]
pub(crate) mod x86_under_test;

#[cfg(kani)]
pub(crate) mod verif_arch {
    /// scalar definition of prefix xor: bit i of the result = parity of bits 0..=i of the input
    pub fn ref_prefix_xor(m: u64) -> u64 {
        let mut acc = false;
        let mut out = 0u64;
        let mut i = 0;
        while i < 64 {
            if (m >> i) & 1 == 1 {
                acc = !acc;
            }
            if acc {
                out |= 1u64 << i;
            }
            i += 1;
        }
        out
    }

    pub fn ref_nonspace_bits(data: &[u8; 64]) -> u64 {
        let mut out = 0u64;
        let mut i = 0;
        while i < 64 {
            let c = data[i];
            if !(c == b' ' || c == b'\t' || c == b'\n' || c == b'\r') {
                out |= 1u64 << i;
            }
            i += 1;
        }
        out
    }

    /// fallback prefix_xor == prefix parity, all 2^64 inputs
    #[kani::proof]
    #[kani::unwind(66)]
    fn prefix_xor_fallback_all() {
        let m: u64 = kani::any();
        assert!(unsafe { super::prefix_xor(m) } == ref_prefix_xor(m));
    }

    /// x86 prefix_xor (PCLMULQDQ by all-ones) == prefix parity, all 2^64 inputs (T3 model of clmul)
    #[kani::proof]
    #[kani::unwind(66)]
    #[kani::stub(std::arch::x86_64::_mm_clmulepi64_si128, crate::util::verif_models::mm_clmulepi64_si128)]
    fn prefix_xor_x86_all() {
        let m: u64 = kani::any();
        assert!(unsafe { super::x86_under_test::prefix_xor(m) } == ref_prefix_xor(m));
    }

    /// fallback get_nonspace_bits: bit i <=> data[i] is not RFC 8259 whitespace; 64 symbolic bytes
    #[kani::proof]
    #[kani::unwind(66)]
    fn nonspace_bits_fallback_all() {
        let data: [u8; 64] = kani::any();
        let got = unsafe { super::get_nonspace_bits(&data) };
        let i: usize = kani::any();
        kani::assume(i < 64);
        let c = data[i];
        assert!(((got >> i) & 1 == 1) == !(c == b' ' || c == b'\t' || c == b'\n' || c == b'\r'));
    }

    /// x86 get_nonspace_bits (PSHUFB table lookup): same lane contract (T3 model of vpshufb)
    #[kani::proof]
    #[kani::unwind(66)]
    #[kani::stub(std::arch::x86_64::_mm256_shuffle_epi8, crate::util::verif_models::mm256_shuffle_epi8)]
    fn nonspace_bits_x86_all() {
        let data: [u8; 64] = kani::any();
        let got = unsafe { super::x86_under_test::get_nonspace_bits(&data) };
        let i: usize = kani::any();
        kani::assume(i < 64);
        let c = data[i];
        assert!(((got >> i) & 1 == 1) == !(c == b' ' || c == b'\t' || c == b'\n' || c == b'\r'));
    }
}
