//@append src/lazyvalue/value.rs
// C18: publish-once cache of the decoded string (Inner.unescaped). Contract view under rely/guarantee:
//   atomic invariant  I(p) := p == null || p == the unique published Arc<String>
//   rely: other threads only ever perform CAS(null -> q) with a valid q;  guarantee: so does this one.
// Each atomic operation gets the nondeterministic outcome its specification allows — including a SPURIOUS
// failure of compare_exchange_weak (Err(current) with current == expected) and interference by another
// thread between the initial load and the CAS. Memory orderings are not modelled (T7).
#[cfg(kani)]
mod verif_cache {
    use super::*;
    use std::sync::atomic::{AtomicPtr, Ordering};

    static mut ENV_PUBLISHED: *mut () = std::ptr::null_mut();

    // the models touch the cell directly (not through the atomic API, which is itself stubbed)
    fn raw_get<T>(a: &AtomicPtr<T>) -> *mut T { unsafe { *a.as_ptr() } }
    fn raw_set<T>(a: &AtomicPtr<T>, v: *mut T) { unsafe { *a.as_ptr() = v; } }
    /// rely step: between any two atomic operations of this thread another reader may publish its decoding
    fn env_step<T>(a: &AtomicPtr<T>) {
        unsafe {
            if !ENV_PUBLISHED.is_null() && raw_get(a).is_null() && kani::any() {
                raw_set(a, ENV_PUBLISHED as *mut T);
            }
        }
    }
    /// load: any value allowed by the invariant, i.e. the current one after a possible rely step
    fn load_model<T>(a: &AtomicPtr<T>, _o: Ordering) -> *mut T {
        env_step(a);
        raw_get(a)
    }

    /// weak CAS: environment may publish first; then the CAS may succeed, fail because of the
    /// environment's value, or fail spuriously (returning the unchanged current value).
    fn weak_cas_model<T>(a: &AtomicPtr<T>, current: *mut T, new: *mut T, _s: Ordering, _f: Ordering) -> Result<*mut T, *mut T> {
        env_step(a);
        let cur = raw_get(a);
        if cur == current && kani::any() {
            raw_set(a, new);
            Ok(cur)
        } else {
            Err(cur) // includes cur == current: spurious failure
        }
    }
    /// strong CAS: same, but it fails only when the current value differs
    fn strong_cas_model<T>(a: &AtomicPtr<T>, current: *mut T, new: *mut T, _s: Ordering, _f: Ordering) -> Result<*mut T, *mut T> {
        env_step(a);
        let cur = raw_get(a);
        if cur == current {
            raw_set(a, new);
            Ok(cur)
        } else {
            Err(cur)
        }
    }
    /// the decoder (full serde path, T4) either fails or yields some String
    unsafe fn decode_model<'a, T: serde::de::Deserialize<'a>>(_json: &'a [u8]) -> crate::Result<T> {
        use serde::de::IntoDeserializer;
        if kani::any() {
            Err(crate::error::Error::ser_error(crate::error::ErrorCode::InvalidJsonValue))
        } else {
            let d: serde::de::value::StrDeserializer<'static, crate::error::Error> = "d".into_deserializer();
            T::deserialize(d)
        }
    }

    /// Inner::parse_from: whatever the interleaving / CAS outcome, the returned reference is valid (no null
    /// or dangling deref — Kani pointer checks), the cache afterwards holds exactly one decoding, and a
    /// losing decoding is released (its Arc count reaches zero inside parse_from: checked by CBMC's
    /// deallocation tracking on the later drop of the value).
    #[kani::proof]
    #[kani::unwind(6)]
    #[kani::stub(std::sync::atomic::Atomic::<*mut T>::compare_exchange_weak, weak_cas_model)]
    #[kani::stub(std::sync::atomic::Atomic::<*mut T>::compare_exchange, strong_cas_model)]
    #[kani::stub(crate::serde::de::from_slice_unchecked, decode_model)]
    #[kani::stub(std::sync::atomic::Atomic::<*mut T>::load, load_model)]
    fn cache_parse_from_all_outcomes() {
        let env_active: bool = kani::any();
        let env = Arc::into_raw(Arc::new(String::from("e"))) as *mut ();
        unsafe { ENV_PUBLISHED = if env_active { env } else { std::ptr::null_mut() }; }
        let inner = Inner { status: HasEsc::Yes, unescaped: AtomicPtr::new(std::ptr::null_mut()) };
        let raw = br#""\n""#;
        let r = inner.parse_from(&raw[..]);
        let p = raw_get(&inner.unescaped);
        if let Some(s) = r {
            // the reference handed out is the published decoding
            assert!(!p.is_null());
            assert!(s as *const str as *const u8 == unsafe { (*(p as *const String)).as_str() } as *const str as *const u8);
            assert!(s.len() == 1);
            kani::cover!(p == env);
            kani::cover!(p != env);
        }
        // second call is served from the cache (which never changes once set)
        if !p.is_null() {
            let r2 = inner.parse_from(&raw[..]);
            assert!(r2.is_some());
            assert!(raw_get(&inner.unescaped) == p);
        }
        // clone — possibly racing with the publication: whatever pointer the clone ends up holding, it
        // holds a share of it (count >= 2: the original's cache + the clone)
        let c = inner.clone();
        let pc = raw_get(&c.unescaped);
        if !pc.is_null() {
            assert!(pc == raw_get(&inner.unescaped));
            assert!(unsafe { Arc::strong_count(&*std::mem::ManuallyDrop::new(Arc::from_raw(pc as *const String))) } >= 2);
            kani::cover!(p.is_null());   // published between the original's decode attempt and the clone
        }
        let p = raw_get(&inner.unescaped);
        // drop has exclusive access (&mut self): no other reader can publish any more
        unsafe { ENV_PUBLISHED = std::ptr::null_mut(); }
        drop(c);
        drop(inner);
        // the environment's decoding was either published (then the drops above released it) or never used
        if p != env {
            unsafe { Arc::decrement_strong_count(env as *const String) };
        }
    }
}
