//@append src/parser.rs
// C10 bounded stand-ins: the unchecked skippers as black boxes against scalar definitions, over inputs that
// cross one 32-lane block boundary. (Unbounded proofs of these SIMD loops are not available: see DESIGN.md.)
#[cfg(kani)]
mod verif_unchecked {
    use super::*;
    use crate::reader::Read;

    /// error construction (Error::syntax: snippet formatting) is verified in Verus unit `errors`; under CBMC the
    /// formatting machinery dominates the cost, so it is replaced by a plain constructor here
    fn error_model<'de, R: Reader<'de>>(_p: &Parser<R>, reason: ErrorCode) -> Error {
        crate::error::Error::ser_error(reason)
    }

    /// scalar definition: offset just after the first quote that is not preceded by an odd run of backslashes,
    /// and whether any backslash precedes it
    fn ref_skip_string(s: &[u8]) -> Option<(usize, bool)> {
        let mut esc = false;
        let mut seen_bs = false;
        let mut i = 0;
        while i < s.len() {
            let c = s[i];
            if esc { esc = false; }
            else if c == b'\\' { esc = true; seen_bs = true; }
            else if c == b'"' { return Some((i + 1, seen_bs)); }
            i += 1;
        }
        None
    }

    /// skip_string_unchecked on every byte string of length 33..=36 (one full SIMD block + a tail of 1..4 bytes)
    /// over the alphabet { " \ a }: same end offset and escape status as the scalar definition whenever the
    /// literal is closed; never moves past the end.
    #[kani::proof]
    #[kani::unwind(40)]
    #[kani::stub(crate::parser::Parser::<R>::error, error_model)]
    fn skip_string_unchecked_block_edge() {
        let buf: [u8; 36] = kani::any();
        let len: usize = kani::any();
        kani::assume(len >= 33 && len <= 36);
        let mut i = 0;
        while i < 36 {
            kani::assume(buf[i] == b'"' || buf[i] == b'\\' || buf[i] == b'a');
            i += 1;
        }
        let mut p = Parser::new(Read::new(&buf[..len], false));
        let r = unsafe { p.skip_string_unchecked() };
        let want = ref_skip_string(&buf[..len]);
        assert!(p.read.index() <= len);
        match (r, want) {
            (Ok(st), Some((end, bs))) => {
                assert!(p.read.index() == end);
                assert!((st == ParseStatus::HasEscaped) == bs);
            }
            (Ok(_), None) => assert!(false),
            (Err(_), Some(_)) => assert!(false),
            (Err(_), None) => {}
        }
        kani::cover!(matches!(want, Some((e, true)) if e > 33));
    }

    /// quick variant: exactly 33 bytes (block + 1-byte tail)
    #[kani::proof]
    #[kani::unwind(36)]
    #[kani::stub(crate::parser::Parser::<R>::error, error_model)]
    fn skip_string_unchecked_33() {
        let buf: [u8; 33] = kani::any();
        let mut i = 0;
        while i < 33 {
            kani::assume(buf[i] == b'"' || buf[i] == b'\\' || buf[i] == b'a');
            i += 1;
        }
        let mut p = Parser::new(Read::new(&buf[..], false));
        let r = unsafe { p.skip_string_unchecked() };
        let want = ref_skip_string(&buf[..]);
        assert!(p.read.index() <= 33);
        match (r, want) {
            (Ok(st), Some((end, bs))) => {
                assert!(p.read.index() == end);
                assert!((st == ParseStatus::HasEscaped) == bs);
            }
            (Ok(_), None) => assert!(false),
            (Err(_), Some(_)) => assert!(false),
            (Err(_), None) => {}
        }
    }

    /// get_next_token(['"', '}'], 1) / ([']', ','], 1): first byte from the token set at/after the index, reader
    /// just after it; None and reader at the end if there is none. Inputs of 33..=35 bytes over { t1 t2 x }.
    #[kani::proof]
    #[kani::unwind(40)]
    fn get_next_token_block_edge() {
        let buf: [u8; 35] = kani::any();
        let len: usize = kani::any();
        kani::assume(len >= 33 && len <= 35);
        let which: bool = kani::any();
        let (t1, t2) = if which { (b'"', b'}') } else { (b']', b',') };
        let mut i = 0;
        while i < 35 {
            kani::assume(buf[i] == t1 || buf[i] == t2 || buf[i] == b'x');
            i += 1;
        }
        let mut p = Parser::new(Read::new(&buf[..len], false));
        let got = p.get_next_token([t1, t2], 1);
        let mut want: Option<(u8, usize)> = None;
        let mut j = 0;
        while j < 35 {
            if j < len && want.is_none() && (buf[j] == t1 || buf[j] == t2) { want = Some((buf[j], j + 1)); }
            j += 1;
        }
        match (got, want) {
            (Some(c), Some((w, end))) => assert!(c == w && p.read.index() == end),
            (None, None) => assert!(p.read.index() == len),
            _ => assert!(false),
        }
    }
}

// C09 bounded stand-in: the borrow-or-copy decoder (parse_string_raw -> parse_string_escaped / parse_escaped_char) as a
// black box against a reference decoder, on inputs that cross one 32-lane block.
#[cfg(kani)]
mod verif_copy_decoder {
    use super::*;
    use crate::reader::Read;

    fn error_model<'de, R: Reader<'de>>(_p: &Parser<R>, reason: ErrorCode) -> Error {
        crate::error::Error::ser_error(reason)
    }

    /// reference: decode the literal body over the alphabet { a " \ n } (escapes \n \\ \"); None = malformed
    fn ref_decode(s: &[u8], out: &mut [u8; 40]) -> Option<(usize, usize, bool)> {
        let mut n = 0;
        let mut i = 0;
        let mut esc = false;
        while i < s.len() {
            let c = s[i];
            if c == b'"' { return Some((i + 1, n, esc)); }
            if c == b'\\' {
                esc = true;
                if i + 1 >= s.len() { return None; }
                let d = s[i + 1];
                let v = if d == b'n' { b'\n' } else if d == b'\\' { b'\\' } else if d == b'"' { b'"' } else { return None; };
                out[n] = v; n += 1; i += 2;
            } else { out[n] = c; n += 1; i += 1; }
        }
        None
    }

    /// parse_string_raw on every 34-byte input over { a " \ n }: accepted iff the reference accepts; same end
    /// offset; same decoded bytes; Borrowed iff no escape occurred.
    #[kani::proof]
    #[kani::unwind(40)]
    #[kani::stub(crate::parser::Parser::<R>::error, error_model)]
    #[kani::stub(std::arch::x86_64::_mm_max_epu8, crate::util::verif_models::mm_max_epu8)]
    fn parse_string_raw_block_edge() {
        let buf: [u8; 34] = kani::any();
        let mut i = 0;
        while i < 34 {
            kani::assume(buf[i] == b'a' || buf[i] == b'"' || buf[i] == b'\\' || buf[i] == b'n');
            i += 1;
        }
        let mut p = Parser::new(Read::new(&buf[..], false));
        let mut tmp: Vec<u8> = Vec::with_capacity(128);
        let mut want = [0u8; 40];
        let w = ref_decode(&buf[..], &mut want);
        match p.parse_string_raw(&mut tmp) {
            Ok(ps) => {
                let (end, n, esc) = match w { Some(x) => x, None => { assert!(false); return; } };
                assert!(p.read.index() == end);
                let borrowed = matches!(ps, ParsedSlice::Borrowed { .. });
                assert!(borrowed == !esc);
                let got: &[u8] = &ps;
                assert!(got.len() == n);
                let k: usize = kani::any();
                kani::assume(k < n);
                assert!(got[k] == want[k]);
            }
            Err(_) => assert!(w.is_none()),
        }
    }
}
