//@append src/util/mod.rs
/// T3: models of x86 instructions that Kani 0.68 cannot execute (unsupported LLVM intrinsics),
/// written from the Intel SDM pseudo-code. Substituted with `kani::stub`; cross-checked natively
/// against the real instructions by /verif/native/intrinsics_crosscheck (thorough tier).
#[cfg(kani)]
pub(crate) mod verif_models {
    use std::arch::x86_64::*;

    /// PMAXUB xmm: per-lane unsigned maximum.
    pub fn mm_max_epu8(a: __m128i, b: __m128i) -> __m128i {
        let x: [u8; 16] = unsafe { std::mem::transmute(a) };
        let y: [u8; 16] = unsafe { std::mem::transmute(b) };
        let mut r = [0u8; 16];
        let mut i = 0;
        while i < 16 {
            r[i] = if x[i] > y[i] { x[i] } else { y[i] };
            i += 1;
        }
        unsafe { std::mem::transmute(r) }
    }
}
