//@append src/util/mod.rs
/// T3: models of x86 instructions that Kani 0.68 cannot execute (unsupported LLVM intrinsics),
/// written from the Intel SDM pseudo-code. Substituted with `kani::stub`; cross-checked natively
/// against the real instructions by /verif/native/intrinsics_crosscheck (thorough tier).
#[cfg(kani)]
pub(crate) mod verif_models {
    use std::arch::x86_64::*;

    /// PMAXUB xmm: per-lane unsigned maximum.
    pub fn mm_max_epu8(a: __m128i, b: __m128i) -> __m128i {
        let x: [u8; 16] = unsafe { std::mem::transmute(a) };
        let y: [u8; 16] = unsafe { std::mem::transmute(b) };
        let mut r = [0u8; 16];
        let mut i = 0;
        while i < 16 {
            r[i] = if x[i] > y[i] { x[i] } else { y[i] };
            i += 1;
        }
        unsafe { std::mem::transmute(r) }
    }

    /// PMAXUB ymm
    pub fn mm256_max_epu8(a: __m256i, b: __m256i) -> __m256i {
        let x: [u8; 32] = unsafe { std::mem::transmute(a) };
        let y: [u8; 32] = unsafe { std::mem::transmute(b) };
        let mut r = [0u8; 32];
        let mut i = 0;
        while i < 32 {
            r[i] = if x[i] > y[i] { x[i] } else { y[i] };
            i += 1;
        }
        unsafe { std::mem::transmute(r) }
    }

    /// VPSHUFB ymm: per 128-bit lane; index bit 7 set => 0, else src[lane_base + (idx & 15)]
    pub fn mm256_shuffle_epi8(a: __m256i, b: __m256i) -> __m256i {
        let x: [u8; 32] = unsafe { std::mem::transmute(a) };
        let y: [u8; 32] = unsafe { std::mem::transmute(b) };
        let mut r = [0u8; 32];
        let mut i = 0;
        while i < 32 {
            let base = i & 16;
            r[i] = if y[i] & 0x80 != 0 { 0 } else { x[base + (y[i] & 15) as usize] };
            i += 1;
        }
        unsafe { std::mem::transmute(r) }
    }

    /// PCLMULQDQ: carry-less multiply of the selected 64-bit halves (imm8 bit0 -> a, bit4 -> b)
    pub fn mm_clmulepi64_si128<const IMM8: i32>(a: __m128i, b: __m128i) -> __m128i {
        let imm8 = IMM8;
        let x: [u64; 2] = unsafe { std::mem::transmute(a) };
        let y: [u64; 2] = unsafe { std::mem::transmute(b) };
        let p = x[(imm8 & 1) as usize];
        let q = y[((imm8 >> 4) & 1) as usize];
        let mut lo = 0u64;
        let mut hi = 0u64;
        let mut i = 0;
        while i < 64 {
            if (q >> i) & 1 == 1 {
                lo ^= p << i;
                if i > 0 {
                    hi ^= p >> (64 - i);
                }
            }
            i += 1;
        }
        unsafe { std::mem::transmute([lo, hi]) }
    }
}
